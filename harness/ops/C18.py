"""C18 — automata are immutable values: no call changes an operand; copies round-trip.

Two parts, reported separately in the evidence.

(A) level "proof" — correspondence for the modelled pieces:
    FREEZE  : automata.base.utils.freeze_value on generated Python values vs. the Lean `freeze`
              (bounded-exhaustive small values, then random nested ones);
    NEW / COPY / PICKLE : cls(**kwargs).input_parameters, .copy(), pickle round trip vs. the Lean
              object model driven by the regenerated __slots__ / __init__ tables, under both
              settings of allow_mutable_automata (and mixed: built under one, copied under the other);
    SETATTR / DELATTR.
    The property is evaluated on the real results with oracles written here (no mutable
    container inside a frozen supported value; abstract value preserved; idempotence; same class
    and identical input_parameters after copy / pickle).

(B) level "other" (MONITORED, not proved) — object identity and aliasing are outside a pure model:
    under allow_mutable_automata=True the constructors get dict/set/list subclasses that log every
    mutating call; random *histories* of public operations / queries / conversions run on a pool of
    DFA, NFA, GNFA, DPDA, NPDA, DTM, NTM, MNTM instances (results join the pool); after every call
    the log must show no effective write and the deep snapshots of all pool members must be
    unchanged.  In the default mode: mutating the constructor arguments afterwards does not change
    the automaton, every nested container is frozenset / frozendict / tuple, setattr / delattr /
    nested writes raise, copy() and pickle give the same class with identical input_parameters.

Round 3 (same level as (B): observation on the real objects):
(C) `results_family` / `judge_result` / `factory_case`: the immutability, hashability and copy / pickle clauses
    evaluated on every automaton an OPERATION returns (default configuration; operands built under either
    setting of the option — the option is SWITCHED between construction and the calls), plus "later mutation
    of the objects passed to the constructor" evaluated on copies / results made in the default configuration.
(D) `lookalike_family`: mutable option + transition tables / sets in dict / set subclasses (defaultdict,
    OrderedDict, __missing__), reads of missing rows / symbols, definition compared with the one as built.

Round 6:
(F) `lookalike_values` / `lookalike_args_family` (harness/lookalike_args.py; finding F37, /repo fix 0014d04): in the
    DEFAULT configuration, constructor arguments given as look-alike containers — `d.keys()` / `d.items()` views
    and a user `collections.abc.Set` class where a set is expected; `types.MappingProxyType`, `UserDict`,
    `ChainMap`, a user `collections.abc.Mapping` class where a mapping is expected; `UserList`, `deque`, a user
    `collections.abc.Sequence` class where a sequence is expected (fix ab97679); subclasses of the builtins
    (OrderedDict, defaultdict, Counter, a set subclass, a list subclass, a namedtuple) — at every container
    position of all 8 classes and every nesting level.  FREEZE correspondence on such values (model kinds
    `setlike` / `maplike`), NEW correspondence on the arguments; property on the real objects: every stored
    container is of an immutable kind all the way down, the stored definition is the value of the arguments at
    construction, and mutating every caller-side object afterwards (the dict under a view / proxy, the UserDict,
    …) changes neither the definition nor the verdicts on a few words.

Round 4:
(E) `methods_family` / `method_case` (harness/introspect_ops.py): every public instance method that dir() finds
    on each class of the code under test — inherited ones included, arguments synthesised from the parameter
    names — called on a fresh automaton under both settings of the option; afterwards the WHOLE definition
    (input_parameters, every constructor parameter read as an attribute, definition attributes kept in the
    instance __dict__ such as GNFA.final_states) is what it was.  Methods the hand-written tables do not list
    also join the operations of the histories.
"""
from __future__ import annotations

import collections.abc as _abc
import copy as _copy
import itertools
import json
import pickle
from typing import Any, Dict, List, Optional

from frozendict import frozendict

from automata.base.utils import freeze_value

from harness import enc_misc as E
from harness import gen_misc as G
from harness import lookalike_args as LA
from harness import misc_common as M
from harness import monitor as Mon
from harness.common import Ctx, guarded

LEVEL = "proof"
RULE = ("(A) cases = Python values for freeze_value (all values of nesting depth ≤2 over 2 atoms and ≤2 members per "
        "container, then random nested values up to depth 4) and (class, definition, option pair) for "
        "new/copy/pickle; (B) cases = (history step: operation, operands) on a pool of tracked instances of the 8 "
        "classes under allow_mutable_automata=True, and (class, definition) for the default-mode immutability probes. "
        "Non-trivial: the value contains a mutable container below the top level / the definition has ≥2 states and "
        "≥1 transition; distinct = distinct encoded values / (class, definition, operation) tuples. Round 3: (C) RESULTS "
        "of operations as immutable values — every automaton returned by every operation / conversion / copy of every "
        "class and by the 15 automaton-valued class methods, called in the default configuration on operands built in "
        "the default configuration AND on operands built while the option was on and switched off before the call: "
        "stored containers in immutable form (atoms, tuple, frozenset, frozendict only — dict views and other "
        "look-alikes are not) and hashable, copy() / pickle / copy.copy / copy.deepcopy give the same class with an "
        "identical definition, and mutating the objects once passed to the operands' constructors changes no result; "
        "copies made under m1=False in (A) are judged the same way; (D) under the option, definitions handed over in "
        "dict / set SUBCLASSES (defaultdict outer+rows / outer only, OrderedDict, dict subclasses whose __missing__ "
        "inserts / answers a default, a set subclass): every operation, query and run — words with symbols missing "
        "from rows, states without rows, a symbol outside the alphabet — must leave the definition as built. Round 4: "
        "(E) (class × public instance method DISCOVERED with dir() on the class under test, inherited ones included × "
        "option setting × fresh definition, optional parameters filled at random): the operand's whole definition — "
        "input_parameters, constructor parameters read as attributes, definition attributes kept in the instance "
        "__dict__ (GNFA.final_states) — compared after the call; discovered methods outside the hand-written operation "
        "tables are history operations too. Round 6: (F) look-alike containers (finding F37): FREEZE cases = specs of values "
        "built from dict keys / items views, mappingproxy, UserDict, ChainMap, user collections.abc Set / Mapping / Sequence "
        "classes, UserList, deque and builtin subclasses (all of depth ≤2 with ≤1 member, depth 3 as far as the budget goes, "
        "random to depth 4); constructor cases = (class, definition, recipe {container position: kind}) in the default "
        "configuration — the F37 input and siblings, one definition per class × every position × every applicable kind one at "
        "a time and each look-alike kind everywhere at once, then random recipes; non-trivial = ≥2 states, ≥1 transition and "
        "≥1 look-alike kind in the recipe; distinct = distinct (class, definition, recipe)")
ASSUMPTIONS = [
    "part (B) is MONITORED at level 'other': absence of operand mutation and of harmful aliasing is observed on sampled histories, not proved",
    "freeze_value theorems assume `supported`: every dict key and every set/frozenset element is hashable (on the model: contains no dict/set/list). This excludes nothing that exists: Python raises TypeError (unhashable type) when such a dict/set/frozenset is built. Lists inside tuples ARE covered (fix 3900daf)",
    "frozendict is the pure-Python implementation (a subclass of dict), as installed here",
    "objects other than str/int/dict/set/list/tuple/frozenset/frozendict and other than collections.abc Mapping / Set / Sequence "
    "instances (model kinds maplike / setlike / seqlike: mappingproxy, UserDict, ChainMap, dict views, UserList, deque, user classes) "
    "are atoms assumed immutable (None, float, bytes, …); a user-defined hashable object with mutable content that is none of these is not seen",
    "pickle's byte encoding is CPython's and trusted; the model covers __getstate__/__setstate__",
    "show_diagram (DFA / NFA / GNFA / DPDA / NPDA) cannot be exercised here: pygraphviz / coloraide are not installed, the method raises ImportError before touching the automaton; that it leaves its operand unchanged is therefore NOT observed by the histories",
    "atoms of a definition (state names, symbols) are str / int / float / None / bytes / tuples / frozensets of these, as "
    "the generators produce them: 'immutable form' of a stored value is judged by type (atoms, tuple, frozenset, frozendict)",
    "discovered methods are called generically when their required parameters are among input_str / other / k (all public "
    "instance methods of the pinned code are; one that is not is counted in the evidence as not_callable_generically); "
    "read_input / accepts_input of PDA / TM classes only when the bounded stepwise run ends",
    "an exception inside a history that is not a documented refusal (AutomatonException subclasses; NotImplementedError of GNFA readers; ValueError of DFA.random_word) is reported as a failure",
]
EXPLANATION = ("Theorems C18_* prove for the model: freeze (tuples entered, fix 3900daf; set-like / mapping-like / sequence-like "
               "look-alikes converted, fixes 0014d04 = F37 and ab97679, with the regression of the old function stated as "
               "C18_freeze_lookalike_regression) leaves no mutable container in any value "
               "whose dict keys / set elements are hashable (every value Python can build), preserves the abstract value, is "
               "idempotent; setattr/delattr raise AttributeError because the regenerated AST shape of the two hooks is a single "
               "unconditional raise; for every class the public slots are exactly the __init__ parameters (regenerated tables, "
               "defaults included) and copy/pickle return an object of the same class with identical input_parameters that "
               "passes the constructor's validation again. The monitored part (B) observes the real objects.")
TRUSTED_EXTRA = ["harness/monitor.py tracked containers (part B is observation, level 'other')"]

DRV = "drv_misc"


# ------------------------------------------------------------------ (A) freeze_value
def is_frozen_py(v) -> bool:
    """Independent oracle: no dict / set / list object — and no set-like / mapping-like object that is not a
    frozenset / frozendict (dict views, mappingproxy, UserDict, user collections.abc classes) — anywhere inside."""
    if isinstance(v, frozendict):
        return all(is_frozen_py(k) and is_frozen_py(x) for k, x in v.items())
    if isinstance(v, (dict, set, list)):
        return False
    if isinstance(v, (frozenset, tuple)):
        return all(is_frozen_py(x) for x in v)
    if isinstance(v, (_abc.Mapping, _abc.Set)) or (isinstance(v, _abc.Sequence) and not isinstance(v, (str, bytes))):
        return False
    return True


def supported_py(v) -> bool:
    """The model's `supported`: every dict key and every set / frozenset element is hashable
    (= immutable through and through); lists, tuples and dict values may hold anything.  Python
    cannot build a value that fails this (TypeError: unhashable type), so on real inputs it is
    always True — the flag is compared with the model's all the same."""
    if isinstance(v, (dict, frozendict)):
        return all(is_frozen_py(k) and supported_py(x) for k, x in v.items())
    if isinstance(v, (list, tuple)):
        return all(supported_py(x) for x in v)
    if isinstance(v, (set, frozenset)):
        return all(is_frozen_py(x) for x in v)
    if isinstance(v, _abc.Mapping):      # maplike: keys hashable, values anything
        return all(is_frozen_py(k) and supported_py(v[k]) for k in list(v.keys()))
    if isinstance(v, _abc.Set):          # setlike: members need not be hashable ({1: [2]}.items())
        return all(supported_py(x) for x in v)
    if isinstance(v, _abc.Sequence) and not isinstance(v, (str, bytes)):   # seqlike
        return all(supported_py(x) for x in v)
    return True


def is_lookalike(v) -> bool:
    """A set-like / mapping-like / sequence-like object that is not an instance of a builtin container."""
    return (isinstance(v, (_abc.Mapping, _abc.Set, _abc.Sequence))
            and not isinstance(v, (dict, set, frozenset, list, tuple, str, bytes)))


def has_lookalike(v) -> bool:
    if is_lookalike(v):
        return True
    if isinstance(v, _abc.Mapping):
        return any(has_lookalike(v[k]) for k in list(v.keys()))
    if isinstance(v, (list, tuple, _abc.Set)) or (isinstance(v, _abc.Sequence) and not isinstance(v, (str, bytes))):
        return any(has_lookalike(x) for x in v)
    return False


def has_list_in_tuple(v, in_tuple: bool = False) -> bool:
    """Does a mutable container sit (directly) inside a tuple somewhere?  (the shapes
    freeze_value did not reach before /repo fix 3900daf)"""
    if isinstance(v, (dict, frozendict)):
        return (in_tuple and not isinstance(v, frozendict)) or any(has_list_in_tuple(x) for x in v.values())
    if isinstance(v, (list, set)):
        return in_tuple or any(has_list_in_tuple(x) for x in v)
    if isinstance(v, tuple):
        return any(has_list_in_tuple(x, True) for x in v)
    return False


def depth_has_nested_mutable(v) -> bool:
    inner = []
    if isinstance(v, _abc.Mapping):
        inner = [v[k] for k in list(v.keys())]
    elif isinstance(v, (list, tuple, _abc.Set)) or (isinstance(v, _abc.Sequence) and not isinstance(v, (str, bytes))):
        inner = list(v)
    return any(not is_frozen_py(x) for x in inner)


@guarded
def check_freeze(ctx: Ctx, v, origin: str, rp: Optional[dict] = None):
    stt = E.StrTable()
    enc = E.enc_py(v, stt)
    raised = False
    try:
        real = freeze_value(v)
        impl = E.enc_py(real, stt, canon=True)
    except Exception as e:  # noqa: BLE001
        real, impl, raised = None, "err " + type(e).__name__, True
    line = ctx.driver(DRV).ask("FREEZE " + enc)
    t = line.split()
    fz, j = E.canon_py_line(t, 0)
    assert t[j] == "frozen"
    m_frozen = t[j + 1] == "1"
    m_supported = t[j + 3] == "1"
    nv, j2 = E.canon_py_line(t, j + 5)
    nf, _ = E.canon_py_line(t, j2 + 1)
    ctx.case(("freeze", enc) if depth_has_nested_mutable(v) else None)
    ctx.stat(f"freeze:{origin}")
    ctx.stat("freeze:supported" if supported_py(v) else "freeze:unsupported")
    if has_list_in_tuple(v):
        ctx.stat("freeze:mutable_inside_tuple")
    if has_lookalike(v):
        ctx.stat("freeze:holds_lookalike(setlike/maplike/seqlike)")
    if ctx.evaluations % 2003 == 11:
        ctx.sample(dict(value=repr(v)[:200], frozen=repr(real)[:200], model=fz[:200]))
    bad = []
    if not raised:
        if supported_py(v) and not is_frozen_py(real):
            bad.append(f"a mutable container survives freezing: {(Mon.mutable_containers(real) or not_immutable_form(real))[:3]}")
        if G.norm(real) != G.norm(v):
            bad.append("freezing changed the abstract value")
        again = freeze_value(real)
        if E.enc_py(again, stt, canon=True) != impl:
            bad.append("freeze_value is not idempotent")
        if is_frozen_py(v) and E.enc_py(v, stt, canon=True) != impl:
            bad.append("an already immutable value is changed")
    else:
        bad.append(f"freeze_value raised {impl}")
    if bad:
        ctx.prop_fail("freeze_value: " + "; ".join(bad) + f" (value {v!r:.160})",
                      rp or dict(kind="freeze", value=repr(v)), None)
    elif (impl != fz or m_frozen != is_frozen_py(real) or m_supported != supported_py(v) or nv != nf):
        ctx.corr_diff("FREEZE", rp or dict(value=repr(v)), dict(frozen=impl, is_frozen=is_frozen_py(real), supported=supported_py(v)),
                      dict(frozen=fz, is_frozen=m_frozen, supported=m_supported, norm_equal=(nv == nf)))


ATOMS = [1, "a"]


def small_values(depth: int, width: int = 2):
    """All values of nesting depth ≤ depth whose containers have ≤ width members (hashable
    where Python requires it)."""
    if depth == 0:
        yield from ATOMS
        yield None
        return
    subs = list(small_values(depth - 1, width))
    yield from subs
    hashable = [s for s in subs if is_frozen_py(s)]
    for k in range(width + 1):
        for combo in itertools.product(subs, repeat=k):
            yield list(combo)
            yield tuple(combo)
        for combo in itertools.combinations(range(len(hashable)), k):
            els = [hashable[i] for i in combo]
            try:
                yield set(els)
                yield frozenset(els)
            except TypeError:
                pass
        for combo in itertools.product(subs, repeat=k):
            keys = ATOMS[:k] if k <= len(ATOMS) else None
            if keys is None:
                continue
            yield dict(zip(keys, combo))
            yield frozendict(zip(keys, combo))


def rand_value(rng, depth: int):
    r = rng.random()
    if depth == 0 or r < 0.2:
        return rng.choice([0, 1, -1, 7, "a", "b", "", "q0", None, True, 2.5, "both"])
    kind = rng.choice(["dict", "set", "list", "tuple", "frozenset", "frozendict", "dict", "list", "set"])
    n = rng.randint(0, 3)
    if kind in ("list", "tuple"):
        xs = [rand_value(rng, depth - 1) for _ in range(n)]
        return xs if kind == "list" else tuple(xs)
    if kind in ("set", "frozenset"):
        xs = [rand_hashable(rng, depth - 1) for _ in range(n)]
        return set(xs) if kind == "set" else frozenset(xs)
    keys = [rand_hashable(rng, min(depth - 1, 1)) for _ in range(n)]
    d = {k: rand_value(rng, depth - 1) for k in keys}
    return d if kind == "dict" else frozendict(d)


def rand_hashable(rng, depth: int):
    if depth == 0 or rng.random() < 0.5:
        return rng.choice([0, 1, -1, "a", "b", "", None, ("q", 0)])
    kind = rng.choice(["tuple", "frozenset"])
    xs = [rand_hashable(rng, depth - 1) for _ in range(rng.randint(0, 3))]
    return tuple(xs) if kind == "tuple" else frozenset(xs)


# ------------------------------------------------------------------ (A) new / copy / pickle
def params_line(obj, stt) -> str:
    ps = obj.input_parameters
    return " ".join([type(obj).__name__, str(len(ps))] + [f"{k} {E.enc_py(v, stt, canon=True)}" for k, v in ps.items()])


def parse_inst(line: str) -> str:
    t = line.split()
    if t[0] == "err":
        return "err " + t[1]
    cls = t[1]
    n = int(t[2])
    j = 3
    parts = []
    for _ in range(n):
        name = t[j]
        v, j = E.canon_py_line(t, j + 1)
        parts.append(f"{name} {v}")
    return " ".join([cls, str(n)] + parts)


def definition(obj) -> Dict[str, Any]:
    """The definition of an automaton read attribute by attribute through the parameter
    names of its class's __init__ (independent of input_parameters / __slots__)."""
    import inspect
    names = [p for p in inspect.signature(type(obj).__init__).parameters if p != "self"]
    return {p: getattr(obj, p, ("#missing attribute", p)) for p in names}


def same_params(a, b, strict_kinds: bool) -> bool:
    if G.norm(definition(a)) != G.norm(definition(b)):
        return False
    pa, pb = a.input_parameters, b.input_parameters
    if list(pa.keys()) != list(pb.keys()):
        return False
    if G.norm(pa) != G.norm(pb):
        return False
    if strict_kinds:
        stt = E.StrTable()
        return all(E.enc_py(pa[k], stt, canon=True) == E.enc_py(pb[k], stt, canon=True) for k in pa)
    return True


@guarded
def check_object_model(ctx: Ctx, cls: str, kw, origin: str, m0: bool, m1: bool, drop: Optional[str] = None,
                       extra: bool = False):
    """cls(**kw) under allow_mutable=m0, then copy() / pickle under m1: real vs model, and the
    property (same class, identical input_parameters) on the real objects."""
    kw = G._dc(kw)
    if drop:
        kw.pop(drop, None)
    if extra:
        kw["colour"] = "red"
    stt = E.StrTable()
    enc = f"{cls} " + E.enc_kwargs(kw, stt)
    args = G._dc(kw)   # the objects passed to the constructor (kept: mutated at the end)
    made_in_default = []
    with M.options(False, m0):  # validation is not part of this model (C19)
        try:
            obj = G.get_class(cls)(**args)
            impl_new = params_line(obj, stt)
            if set(obj.input_parameters.keys()) != set(definition(obj).keys()):
                ctx.prop_fail(f"{cls}: input_parameters {sorted(obj.input_parameters)} are not the constructor parameters "
                              f"{sorted(definition(obj))} (copy() and pickling go through them)",
                              dict(kind="object", cls=cls, kwargs=repr(kw), m0=m0, m1=m1, how="NEW"), None)
        except Exception as e:  # noqa: BLE001
            obj, impl_new = None, "err " + type(e).__name__
    model_new = parse_inst(ctx.driver(DRV).ask(f"NEW {int(m0)} " + enc))
    ctx.case(("new", cls, enc, m0, m1) if C19_nontrivial(kw) else None)
    ctx.stat(f"object:{origin}:{cls}")
    if has_list_in_tuple(kw.get("transitions")):
        ctx.stat(f"object:list_inside_tuple:{cls}")
    if impl_new != model_new:
        ctx.corr_diff("NEW", dict(cls=cls, kwargs=repr(kw), m0=m0), impl_new, model_new)
    if obj is None:
        return
    for how in ("COPY", "PICKLE"):
        with M.options(False, m1):
            try:
                other = obj.copy() if how == "COPY" else pickle.loads(pickle.dumps(obj))
                impl = params_line(other, stt)
            except Exception as e:  # noqa: BLE001
                other, impl = None, "err " + type(e).__name__
        model = parse_inst(ctx.driver(DRV).ask(f"{how} {int(m0)} {int(m1)} " + enc))
        ctx.case(None)
        ctx.stat(f"object:{how}:m0={int(m0)},m1={int(m1)}")
        rp = dict(kind="object", cls=cls, kwargs=repr(kw), m0=m0, m1=m1, how=how)
        if other is None:
            ctx.prop_fail(f"{cls}.{how.lower()} raised {impl[4:]}", rp, None)
            continue
        if type(other) is not type(obj):
            ctx.prop_fail(f"{cls}.{how.lower()} returned a {type(other).__name__}", rp, None)
        elif not same_params(obj, other, strict_kinds=(m0 == m1)):
            ctx.prop_fail(f"{cls}.{how.lower()} (built under allow_mutable={m0}, copied under {m1}): "
                          f"definitions differ: {definition(obj)!r:.200} vs {definition(other)!r:.200}",
                          rp, None)
        elif impl != model:
            ctx.corr_diff(how, rp, impl, model)
        if other is obj:
            ctx.prop_fail(f"{cls}.{how.lower()} returned the object itself", rp, None)
        elif not m1:
            # made in the DEFAULT configuration (whatever the option was when the source was built): stored in
            # immutable form, and independent of the objects once passed to the source's constructor
            bad = stored_not_immutable(other)
            if bad:
                ctx.prop_fail(f"{cls}.{how.lower()} made in the default configuration (source built under "
                              f"allow_mutable={m0}) stores {describe_bad(bad)} — not in immutable form", rp, None)
            made_in_default.append((how, other, G.snapshot(other.input_parameters), extra_definition(other), rp))
    if made_in_default and m0 and not drop and not extra:
        cs = containers_deep(args, [])
        mutate_args(ctx.rng, args)
        mutate_containers(ctx.rng, cs)
        ctx.stat("object:args_mutated_after_copy_in_default_configuration")
        for how, other, snap, ext, rp in made_in_default:
            if G.snapshot(other.input_parameters) != snap or extra_definition(other) != ext:
                ctx.prop_fail(f"{cls}.{how.lower()} made in the default configuration of an automaton built under "
                              f"allow_mutable=True: mutating the objects once passed to the constructor changed the "
                              f"{how.lower()} (it shares {describe_bad(stored_not_immutable(other)) or 'containers'} "
                              f"with the source)", rp, None)


def C19_nontrivial(kw) -> bool:
    return "states" in kw and "transitions" in kw and len(kw["states"]) >= 2 and any(
        len(r) > 0 for r in kw["transitions"].values())


# ------------------------------------------------------------------ "tuple holding list" definitions
TL_CLASSES = ("MNTM", "NTM", "DPDA", "NPDA")


def tuple_list_def(rng, cls: str) -> Dict[str, Any]:
    """A valid definition of an MNTM / NTM / DPDA / NPDA in which a *tuple holds a list*: the
    shapes freeze_value did not reach before /repo fix 3900daf (it returned tuples as they were).
      MNTM  result (state, [[sym, dir], …]) / (state, [(sym, dir), …]) / (state, ([sym, dir], …)),
            the results of a key in a list or in a tuple          (reviewer: [('q1', [['1','R']])])
      NTM   the results of a symbol as a tuple of lists ([state, sym, dir], …) instead of a set of tuples
      DPDA  result (state, [pushed symbols])                      (reviewer: ('q1', ['1','0']))
      NPDA  the results of a stack symbol as a tuple of (state, [pushed symbols])
    All are accepted by validate() and run like their all-tuple counterparts in the default
    configuration."""
    kw: Dict[str, Any] = {}
    for _ in range(30):
        kw = G.rand_def(rng, cls)
        n = 0
        for q, row in kw["transitions"].items():
            for key in list(row.keys()):
                v = row[key]
                if cls == "MNTM":
                    res = []
                    for (t, moves) in v:
                        shape = rng.randrange(3)
                        if shape == 0:
                            mv: Any = [list(m) for m in moves]
                        elif shape == 1:
                            mv = [tuple(m) for m in moves]
                        else:
                            mv = tuple(list(m) for m in moves)
                        res.append((t, mv))
                        n += 1
                    row[key] = tuple(res) if rng.random() < 0.5 else res
                elif cls == "NTM":
                    row[key] = tuple(list(r) for r in sorted(v, key=repr))
                    n += len(v)
                elif cls == "DPDA":
                    for g, (t, p) in list(v.items()):
                        v[g] = (t, list(p))
                        n += 1
                else:
                    for g, rs in list(v.items()):
                        v[g] = tuple((t, list(p)) for (t, p) in sorted(rs, key=repr))
                        n += len(rs)
        if n and len(kw["states"]) >= 2:
            return kw
    return kw


def containers_deep(x, out: list) -> list:
    """Every dict / set / list object reachable inside x — also through tuples, frozensets and
    frozendict values."""
    if isinstance(x, (dict, frozendict)):
        if not isinstance(x, frozendict):
            out.append(x)
        for v in list(x.values()):
            containers_deep(v, out)
    elif isinstance(x, (list, set)):
        out.append(x)
        for v in list(x):
            containers_deep(v, out)
    elif isinstance(x, (tuple, frozenset)):
        for v in x:
            containers_deep(v, out)
    return out


def mutate_containers(rng, cs: list):
    """Change every collected container in place (reviewer's `moves[0][1] = 'L'` included: the
    last atom of a list is overwritten)."""
    for c in cs:
        if isinstance(c, list):
            if c and isinstance(c[-1], (str, int)):
                c[-1] = "L" if c[-1] != "L" else "R"
            else:
                c.append("%")
            if rng.random() < 0.3:
                c.append("%")
        elif isinstance(c, set):
            c.add(("#added", 2))
        else:
            c[("#added", 2)] = None


# ------------------------------------------------------------------ immutable form of stored values
ATOM_TYPES = (str, int, float, complex, bytes, type(None))  # bool is an int


def not_immutable_form(v, path: str = "") -> list:
    """Independent oracle for "stored in immutable form": atoms, and tuple / frozenset / frozendict whose
    members are in immutable form.  Everything else — dict, set, list, their subclasses, and look-alikes such
    as dict views (`d.keys()`), generators, deques — is reported as (path, type name)."""
    if isinstance(v, frozendict):
        out = []
        for k, x in v.items():
            out += not_immutable_form(k, f"{path}.key({k!r})") + not_immutable_form(x, f"{path}[{k!r}]")
        return out
    if isinstance(v, (tuple, frozenset)):
        out = []
        for i, x in enumerate(v):
            out += not_immutable_form(x, f"{path}[{i}]" if isinstance(v, tuple) else f"{path}{{{x!r}}}")
        return out
    if isinstance(v, ATOM_TYPES):
        return []
    return [(path, type(v).__name__)]


def public_extras(obj) -> Dict[str, Any]:
    """Definition attributes kept in __dict__ outside the constructor parameters (GNFA.final_states)."""
    return {k: v for k, v in getattr(obj, "__dict__", {}).items() if not k.startswith("_") and not hasattr(type(obj), k)}


def stored_not_immutable(obj) -> list:
    bad = []
    for k, v in list(definition(obj).items()) + list(public_extras(obj).items()):
        bad += not_immutable_form(v, k)
    return bad


def describe_bad(bad: list) -> str:
    return ", ".join(f"{p} as a {t}" for p, t in bad[:3]) + (" …" if len(bad) > 3 else "")


ROUNDTRIPS = [
    ("copy()", lambda r: r.copy()),
    ("pickle round trip", lambda r: pickle.loads(pickle.dumps(r))),
    ("copy.copy", lambda r: _copy.copy(r)),
    ("copy.deepcopy", lambda r: _copy.deepcopy(r)),
]


def judge_result(ctx: Ctx, what: str, r, rp: dict, default_config: bool) -> bool:
    """The clauses of C18 evaluated on an automaton that an OPERATION returned (not only on automata the
    harness constructed): in the default configuration every stored container is in immutable form and
    hashable; copy(), a pickle round trip, copy.copy and copy.deepcopy give a new automaton of the same class
    with an identical definition (and, in the default configuration, again in immutable form)."""
    cls = type(r).__name__
    ok = True
    ctx.stat(f"result_judged:{'default' if default_config else 'mutable'}:{cls}")
    if default_config:
        bad = stored_not_immutable(r)
        if bad:
            ok = False
            ctx.prop_fail(f"{what}: the returned {cls} stores {describe_bad(bad)} — not in immutable form "
                          f"(default configuration)", rp, None)
        else:
            for k, v in definition(r).items():
                try:
                    hash(v)
                except TypeError as e:
                    ok = False
                    ctx.prop_fail(f"{what}: attribute {k} of the returned {cls} is not hashable ({e})", rp, None)
                    break
    want = (G.norm(definition(r)), G.norm(public_extras(r)))
    for how, f in ROUNDTRIPS:
        try:
            o = f(r)
        except RecursionError:
            raise
        except Exception as e:  # noqa: BLE001
            ok = False
            ctx.prop_fail(f"{what}: {how} of the returned {cls} raised {type(e).__name__}: {str(e)[:100]}", rp, None)
            continue
        if type(o) is not type(r):
            ok = False
            ctx.prop_fail(f"{what}: {how} of the returned {cls} gives a {type(o).__name__}", rp, None)
        elif o is r:
            ok = False
            ctx.prop_fail(f"{what}: {how} of the returned {cls} gives the object itself", rp, None)
        elif (G.norm(definition(o)), G.norm(public_extras(o))) != want:
            ok = False
            ctx.prop_fail(f"{what}: {how} of the returned {cls} has a different definition: {definition(r)!r:.160} vs "
                          f"{definition(o)!r:.160}", rp, None)
        elif default_config and how != "copy.copy":
            # (copy.copy shares the containers of its source by definition)
            bad = stored_not_immutable(o)
            if bad:
                ok = False
                ctx.prop_fail(f"{what}: {how} of the returned {cls} (default configuration) stores {describe_bad(bad)} "
                              f"— not in immutable form", rp, None)
    return ok


def _al(rng):
    return set(rng.choice([("a", "b"), ("0", "1"), ("a",), ("a", "b", "c")]))


def _word(rng, al, n=4):
    al = sorted(al)
    return "".join(rng.choice(al) for _ in range(rng.randint(0, n)))


def factory_args(rng) -> Dict[str, Any]:
    al = _al(rng)
    return dict(al=sorted(al), w=_word(rng, al, 3), lang=sorted({_word(rng, al, 3) for _ in range(rng.randint(0, 4))}),
                k=rng.randint(1, 3), b=rng.random() < 0.5, b2=rng.random() < 0.5, maxlen=rng.choice([None, 0, 2]),
                regex=rng.choice(["a*", "(a|b)*a", "ab?", "a&a*", "()", "a{1,2}b*"]), dist=rng.randint(0, 2))


def factories(fa: Dict[str, Any]):
    """Automaton-valued class methods (name, thunk) on small arguments handed over in PLAIN containers, as a
    user writes them."""
    from automata.fa.dfa import DFA
    from automata.fa.nfa import NFA
    al, w, lang, k, b, b2 = set(fa["al"]), fa["w"], set(fa["lang"]), fa["k"], fa["b"], fa["b2"]
    sym = fa["al"][0]
    mx = None if fa["maxlen"] is None else k + fa["maxlen"]
    return [
        ("DFA.from_finite_language(as_partial=False)", lambda: DFA.from_finite_language(set(al), set(lang), as_partial=False)),
        ("DFA.from_finite_language(as_partial=True)", lambda: DFA.from_finite_language(set(al), set(lang), as_partial=True)),
        ("DFA.from_prefix", lambda: DFA.from_prefix(set(al), w, contains=b, as_partial=b2)),
        ("DFA.from_suffix", lambda: DFA.from_suffix(set(al), w or sym, contains=b)),
        ("DFA.from_substring", lambda: DFA.from_substring(set(al), w, contains=b, must_be_suffix=b2)),
        ("DFA.from_substrings", lambda: DFA.from_substrings(set(al), set(lang) | {w or sym}, contains=b)),
        ("DFA.from_subsequence", lambda: DFA.from_subsequence(set(al), w, contains=b)),
        ("DFA.of_length", lambda: DFA.of_length(set(al), min_length=k - 1, max_length=mx)),
        ("DFA.count_mod", lambda: DFA.count_mod(set(al), k + 1, remainders={0, k} if b else None)),
        ("DFA.universal_language", lambda: DFA.universal_language(set(al))),
        ("DFA.empty_language", lambda: DFA.empty_language(set(al))),
        ("DFA.nth_from_start", lambda: DFA.nth_from_start(set(al), sym, k)),
        ("DFA.nth_from_end", lambda: DFA.nth_from_end(set(al), sym, k)),
        ("NFA.from_regex", lambda: NFA.from_regex(fa["regex"], input_symbols=set(al) | {"a", "b"})),
        ("NFA.edit_distance", lambda: NFA.edit_distance(set(al), w, fa["dist"])),
    ]


def factory_case(ctx: Ctx, fa: Dict[str, Any], only_op: Optional[str] = None):
    for name, thunk in factories(fa):
        if only_op is not None and name != only_op:
            continue
        with M.options(True, False):
            try:
                r = thunk()
            except RecursionError:
                raise
            except Exception:  # noqa: BLE001 - argument refusals are not this property's question
                ctx.stat(f"factory_refused:{name}")
                continue
            ok = judge_result(ctx, name, r, dict(kind="factory", op=name, factory_args=fa), default_config=True)
        ctx.case(("factory", name, repr(r)) if ok and len(r.states) >= 2 else None)


@guarded
def results_case(ctx: Ctx, cls: str, kw, kw2, m0: bool, rng, origin: str, only_op: Optional[str] = None, args_pack=None):
    """Operands built under allow_mutable=m0 (from plain containers that the harness keeps), every operation
    then called in the DEFAULT configuration; every automaton returned is judged by `judge_result`; finally —
    when m0 — the containers once passed to the operands' constructors are mutated in place: no result made in
    the default configuration may change."""
    a1, a2 = G._dc(kw), (G._dc(kw2) if kw2 is not None else None)
    with M.options(True, m0):
        try:
            x = G.get_class(cls)(**a1)
            y = G.get_class(cls)(**a2) if a2 is not None else None
        except Exception as e:  # noqa: BLE001
            ctx.note(f"results_case: {cls} rejected a generated definition: {type(e).__name__}"[:200])
            return
    made = []
    plan = [(n, f, 1) for n, f in M.unary_ops(cls) + roundtrip_ops(cls)] + [(n, f, 2) for n, f in M.binary_ops(cls)]
    for name, fn, ar in plan:
        if only_op is not None and name != only_op:
            continue
        if ar == 2 and y is None:
            continue
        a = args_pack if args_pack is not None else M.arg_pack(rng, kw["input_symbols"])
        with M.options(True, False):
            try:
                r = fn(x, a) if ar == 1 else fn(x, y, a)
            except RecursionError:
                raise
            except Exception:  # noqa: BLE001 - refusals / undocumented errors are C19's question
                continue
        if not M.is_automaton(r):
            continue
        rp = dict(kind="result", cls=cls, kwargs=repr(kw), rhs=repr(kw2) if ar == 2 else None, op=name, args=a, m0=m0)
        what = (f"{name} in the default configuration on "
                + ("an operand built under allow_mutable_automata=True" if m0 else "a default-configuration operand"))
        with M.options(True, False):
            ok = judge_result(ctx, what, r, rp, default_config=True)
        ctx.case(("result", cls, name, m0, E.enc_def(cls, kw)) if ok and C19_nontrivial(kw) else None)
        made.append((name, r, G.snapshot(r.input_parameters), extra_definition(r), rp))
    if m0 and made:
        for args in (a1, a2):
            if args is not None:
                cs = containers_deep(args, [])
                mutate_args(rng, args)
                mutate_containers(rng, cs)
        ctx.stat("result:args_mutated_after_operations_in_default_configuration")
        for name, r, snap, ext, rp in made:
            if G.snapshot(r.input_parameters) != snap or extra_definition(r) != ext:
                ctx.prop_fail(f"{name} called in the default configuration on an automaton built under "
                              f"allow_mutable_automata=True: mutating the objects once passed to the operand's "
                              f"constructor changed the RESULT (it shares {describe_bad(stored_not_immutable(r)) or 'containers'} "
                              f"with the operand)", rp, None)


def results_family(ctx: Ctx, rng, count: int):
    """Every automaton-valued operation / conversion / copy of every class, and the automaton-valued class
    methods, in the default configuration — on operands built in the default configuration and on operands
    built while the option was ON and switched OFF again before the calls."""
    for i in range(count):
        for cls in G.CLASSES:
            if cls not in ("DFA", "NFA", "GNFA") and i % 3:
                continue  # the machines have copy() only
            kw = G.rand_def(rng, cls)
            kw2 = G.rand_def(rng, cls, alphabet=sorted(kw["input_symbols"])) if M.binary_ops(cls) else None
            for m0 in (False, True):
                results_case(ctx, cls, kw, kw2, m0, rng, "results")
        factory_case(ctx, factory_args(rng))


# ------------------------------------------------------------------ dict / set subclasses and look-alikes
# the container flavours live in harness/lookalike.py (shared with ops/C19.py; a regular module so that
# automata holding them can be pickled)
from harness.lookalike import (FLAVOURS, INNER_FACTORY, DefaultingDict, InsertingDict,  # noqa: E402,F401
                               InsertingListDict, InsertingSetDict, SetSub, flavoured)

KEY_ASNTM_EAFP = "C18:as-ntm-read-inserts-into-defaultdict-table"


def table_shape(t) -> Any:
    """Which rows / entries a transition table HAS (what a read of a missing row / symbol may silently add)."""
    return {repr(q): sorted(map(repr, row.keys())) if hasattr(row, "keys") else None for q, row in t.items()}


@guarded
def lookalike_case(ctx: Ctx, cls: str, kw, kw2, flavour: str, rng, origin: str, only_op: Optional[str] = None,
                   args_pack=None):
    """Mutable-automata option + definitions handed over in dict / set subclasses: no operation, query, run
    or conversion may change the operand's definition — evaluated by comparing the live definition with the
    definition AS BUILT (a deep plain copy) after every call.  The argument packs contain words with symbols
    that are missing from rows, states without rows, and a symbol outside the alphabet."""
    built = G.snapshot(G._dc(kw))
    built2 = G.snapshot(G._dc(kw2)) if kw2 is not None else None
    with M.options(True, True):
        try:
            x = G.get_class(cls)(**flavoured(cls, kw, flavour))
            y = G.get_class(cls)(**flavoured(cls, kw2, flavour)) if kw2 is not None else None
        except Exception as e:  # noqa: BLE001
            ctx.note(f"lookalike_case: {cls} rejected a {flavour} definition: {type(e).__name__}"[:200])
            return
    if G.snapshot(x.input_parameters) != built:
        ctx.note(f"lookalike_case: {cls} {flavour}: the stored definition differs from the arguments at construction")
        return
    plan = [(n, f, 1) for n, f in M.unary_ops(cls) + roundtrip_ops(cls)] + [(n, f, 2) for n, f in M.binary_ops(cls)]
    rng.shuffle(plan)
    al = sorted(kw["input_symbols"])
    foreign = G.foreign_symbol(kw)
    for name, fn, ar in plan:
        if only_op is not None and name != only_op:
            continue
        if ar == 2 and y is None:
            continue
        if name.endswith("clear_cache"):
            continue
        a = args_pack
        if a is None:
            a = M.arg_pack(rng, al)
            if rng.random() < 0.25 and a["w"]:
                i = rng.randrange(len(a["w"]))
                a["w"] = a["w"][:i] + foreign + a["w"][i + 1:]
        shape_before = table_shape(x.transitions)
        with M.options(rng.random() < 0.7, True):
            try:
                fn(x, a) if ar == 1 else fn(x, y, a)
                out = "ok"
            except RecursionError:
                raise
            except Exception as e:  # noqa: BLE001 - refusals / errors are C19's question; the operand is still compared
                out = type(e).__name__
        ctx.stat(f"monitored(other):lookalike:{flavour}:{cls}")
        rp = dict(kind="lookalike", cls=cls, kwargs=repr(kw), rhs=repr(kw2) if ar == 2 else None, flavour=flavour,
                  op=name, args=a)
        ok = True
        for who, obj, want in (("operand", x, built), ("second operand", y, built2)):
            if obj is None or (who == "second operand" and ar == 1):
                continue
            now = G.snapshot(obj.input_parameters)
            if now != want:
                ok = False
                after = table_shape(obj.transitions)
                added = {q: sorted(set(v or []) - set(shape_before.get(q) or [])) for q, v in after.items()
                         if q not in shape_before or set(v or []) - set(shape_before.get(q) or [])} if who == "operand" else "?"
                # (F36, repaired by /repo 5078540: read_input_as_ntm used to subscript the table inside
                # try/except KeyError, which inserted into defaultdict tables — a plain violation again)
                key = None
                ctx.prop_fail(f"{name} ({out}) changed the definition of its {who} (allow_mutable_automata=True, "
                              f"{cls} definition handed over as {flavour}): "
                              + (f"rows / entries added: {added!r:.200}" if added and added != "?" else
                                 "the content of existing rows / sets changed"), rp, key)
                # go on from the changed state (every later call is compared with what it found)
                if who == "operand":
                    built = now
                else:
                    built2 = now
        ctx.case(("lookalike", cls, flavour, name, E.enc_def(cls, kw)) if ok and C19_nontrivial(kw) else None)


def lookalike_family(ctx: Ctx, rng, count: int):
    for _ in range(count):
        for cls in G.CLASSES:
            kw = G.rand_def(rng, cls)
            if cls == "MNTM" and rng.random() < 0.5:
                kw = G.rand_tm_def(rng, "MNTM", list_results=True)
            kw2 = G.rand_def(rng, cls, alphabet=sorted(kw["input_symbols"])) if M.binary_ops(cls) else None
            lookalike_case(ctx, cls, kw, kw2, rng.choice(FLAVOURS), rng, "lookalike")


# ------------------------------------------------------------------ every public method, discovered
def whole_definition(obj):
    """What `obj` IS: input_parameters, every constructor parameter read as an attribute, and the definition
    attributes kept in __dict__ outside the parameters (GNFA.final_states)."""
    return (G.snapshot(obj.input_parameters), G.norm(definition(obj)), extra_definition(obj))


def describe_change(before, after) -> str:
    out = []
    if before[0] != after[0]:
        out.append("input_parameters changed")
    if before[1] != after[1]:
        out.append("a constructor parameter read as an attribute changed")
    if before[2] != after[2]:
        b, a = _unnorm_map(before[2]), _unnorm_map(after[2])
        lost, added = sorted(set(b) - set(a)), sorted(set(a) - set(b))
        changed = sorted(k for k in b if k in a and b[k] != a[k])
        out.append("definition attributes kept in the instance __dict__ outside the constructor parameters: "
                   + "; ".join(x for x in (f"lost {lost}" if lost else "", f"changed {changed}" if changed else "",
                                           f"new {added}" if added else "") if x))
    return "; ".join(out)


def _unnorm_map(n) -> Dict[str, Any]:
    """{key: normed value} of a G.norm'ed dict with str keys."""
    return dict(n[1]) if isinstance(n, tuple) and n and n[0] == "map" else {}


@guarded
def method_case(ctx: Ctx, cls: str, kw, kw2, mutable: bool, method: str, a: Dict[str, Any], origin: str,
                flavour: Optional[str] = None) -> None:
    """One public method — found by introspection of the class under test, inherited ones included — called
    on a freshly built automaton: afterwards the whole definition of the operand (and of the second operand)
    is what it was.  Exceptions of the call are not this property's question; the operand is compared all
    the same."""
    from harness import introspect_ops as I
    klass = G.get_class(cls)
    sig = dict(I.discovered(klass)).get(method)
    op = I.make_op(cls, method, sig) if sig is not None else None
    if op is None:
        return
    name, ar, fn = op
    with M.options(True, mutable):
        try:
            x = klass(**(flavoured(cls, kw, flavour) if flavour else G._dc(kw)))
            y = klass(**G._dc(kw2)) if (ar == 2 and kw2 is not None) else None
        except Exception as e:  # noqa: BLE001
            ctx.note(f"method_case: {cls} rejected a generated definition: {type(e).__name__}"[:200])
            return
    if ar == 2 and y is None:
        return
    before, before2 = whole_definition(x), (whole_definition(y) if y is not None else None)
    with M.options(a.get("sv", True), mutable):
        try:
            fn(x, a) if ar == 1 else fn(x, y, a)
            out = "ok"
        except RecursionError:
            raise
        except Exception as e:  # noqa: BLE001
            out = type(e).__name__
    ctx.stat(f"monitored(other):method:{'mutable' if mutable else 'default'}:{name}:{'ok' if out == 'ok' else 'raised'}")
    rp = dict(kind="method", cls=cls, kwargs=repr(kw), rhs=repr(kw2) if ar == 2 else None, mutable=mutable,
              method=method, args=a, flavour=flavour)
    ok = True
    for who, obj, want in (("operand", x, before), ("second operand", y, before2)):
        if obj is None:
            continue
        try:
            now = whole_definition(obj)
        except Exception as e:  # noqa: BLE001 - e.g. an attribute of the definition is gone
            ok = False
            ctx.prop_fail(f"after the public call {name}() ({out}) the definition of its {who} can no longer be read: "
                          f"{type(e).__name__}: {str(e)[:100]} (allow_mutable_automata={mutable})", rp, None)
            continue
        if now != want:
            ok = False
            ctx.prop_fail(f"the public call {name}() ({out}) changed its {who} (allow_mutable_automata={mutable}"
                          + (f", definition handed over as {flavour}" if flavour else "") + f"): {describe_change(want, now)}",
                          rp, None)
    ctx.case(("method", cls, method, mutable, flavour, E.enc_def(cls, kw)) if ok and C19_nontrivial(kw) else None)


def methods_family(ctx: Ctx, rng, count: int):
    """(class × public method discovered on the class × option setting), `count` fresh definitions each;
    optional parameters filled at random from the argument pack."""
    from harness import introspect_ops as I
    for cls in G.CLASSES:
        ops, skipped = I.discovered_ops(cls)
        for n in skipped:
            ctx.stat(f"monitored(other):method:not_callable_generically:{cls}.{n}")
        ctx.stat(f"monitored(other):method:discovered:{cls}", len(ops))
        for name, ar, _ in ops:
            method = name.split(".", 1)[1]
            opt = I.optional_names(cls, method)
            for i in range(count):
                kw = G.rand_def(rng, cls)
                if cls == "MNTM" and rng.random() < 0.5:
                    kw = G.rand_tm_def(rng, "MNTM", list_results=True)
                kw2 = G.rand_def(rng, cls, alphabet=sorted(kw["input_symbols"])) if ar == 2 else None
                for mutable in (False, True):
                    a = M.arg_pack(rng, kw["input_symbols"])
                    a["fill"] = [p for p in opt if rng.random() < 0.5]
                    a["sv"] = rng.random() < 0.7
                    flavour = rng.choice(FLAVOURS) if (mutable and rng.random() < 0.3) else None
                    method_case(ctx, cls, kw, kw2, mutable, method, a, "methods", flavour=flavour)
    ctx.exhaustive("every public instance method that dir() finds on each of the 8 classes of the code under test "
                   "(inherited ones included; those whose required parameters are input_str / other / k or none) × "
                   "both settings of allow_mutable_automata: the operand's whole definition compared after the call")


# ------------------------------------------------------------------ (B) default mode probes
def mutate_args(rng, kw):
    """Change every container of the arguments in place after construction."""
    extra = ("#added", 1)
    for k in G.SET_PARAMS:
        if k in kw and isinstance(kw[k], set):
            kw[k].add(extra if k in ("states", "final_states") else "%")
            if len(kw[k]) > 1 and rng.random() < 0.5:
                kw[k].discard(next(iter(kw[k])))
    t = kw["transitions"]
    for q in list(t.keys()):
        row = t[q]
        if isinstance(row, dict):
            for a in list(row.keys()):
                v = row[a]
                if isinstance(v, set):
                    v.add(extra)
                elif isinstance(v, dict):
                    for g in list(v.keys()):
                        if isinstance(v[g], set):
                            v[g].add((extra, ""))
                        elif isinstance(v[g], list):
                            v[g].append(extra)
                    v["%"] = None
                elif isinstance(v, list):
                    for r in v:
                        if isinstance(r, list):
                            for mv in r:
                                if isinstance(mv, list):
                                    for x in mv:
                                        if isinstance(x, list):
                                            x.append("%")
                                    mv.append(["%", "R"])
                            r.append("%")
                    v.append(extra)
            row["%"] = extra
    t[extra] = {}
    if t and rng.random() < 0.5:
        del t[next(iter(t.keys()))]


@guarded
def probe_default(ctx: Ctx, cls: str, kw, rng, origin: str):
    args = G._dc(kw)
    with M.options(True, False):
        try:
            obj = G.get_class(cls)(**args)
        except Exception as e:  # noqa: BLE001
            ctx.note(f"probe_default: {cls} rejected a generated definition: {type(e).__name__}")
            return
    rp = dict(kind="default_probe", cls=cls, kwargs=repr(kw))
    ctx.case(("probe", cls, E.enc_def(cls, kw)) if C19_nontrivial(kw) and "list_results" not in origin else None)
    ctx.stat(f"monitored(other):probe_default:{cls}")
    if has_list_in_tuple(kw.get("transitions")):
        ctx.stat(f"monitored(other):probe_default:list_inside_tuple:{cls}")
    snap = G.snapshot(obj.input_parameters)
    # nested containers immutable (public parameters and __dict__ extras such as GNFA.final_states)
    mc = []
    for k, v in obj.input_parameters.items():
        mc += Mon.mutable_containers(v, k)
    for k, v in getattr(obj, "__dict__", {}).items():
        if not k.startswith("_"):
            mc += Mon.mutable_containers(v, "__dict__." + k)
    if mc:
        ctx.prop_fail(f"{cls}: a mutable container is stored in the default configuration at {mc[:3]}", rp, None)
    # later mutation of the arguments: the class-shaped edits, then every mutable container
    # reachable in the arguments (through tuples too), each changed in place
    cs = containers_deep(args, [])
    mutate_args(rng, args)
    if G.snapshot(obj.input_parameters) != snap:
        ctx.prop_fail(f"{cls}: mutating the constructor arguments afterwards changed the automaton", rp, None)
    else:
        mutate_containers(rng, cs)
        if G.snapshot(obj.input_parameters) != snap:
            ctx.prop_fail(f"{cls}: mutating a container nested in the constructor arguments afterwards changed the "
                          f"automaton: {Mon.mutable_containers(obj.input_parameters.get('transitions'), 'transitions')[:2]}",
                          rp, None)
    # attribute protocol
    names = [s for s in type(obj).__slots__] + ["brand_new", "_private", "states"]
    for name in names:
        for what in ("set", "del"):
            try:
                if what == "set":
                    setattr(obj, name, 1)
                else:
                    delattr(obj, name)
                ctx.prop_fail(f"{cls}: {what}attr({name!r}) did not raise", dict(rp, attr=name), None)
            except AttributeError:
                pass
            except Exception as e:  # noqa: BLE001
                ctx.prop_fail(f"{cls}: {what}attr({name!r}) raised {type(e).__name__}, not AttributeError",
                              dict(rp, attr=name), None)
    # nested writes
    for attempt in (lambda: obj.transitions.__setitem__(("#w", 0), {}),
                    lambda: obj.states.add(("#w", 0)) if hasattr(obj.states, "add") else (_ for _ in ()).throw(AttributeError()),
                    lambda: next(iter(obj.transitions.values())).__setitem__("%", None) if obj.transitions else (_ for _ in ()).throw(TypeError())):
        try:
            attempt()
            ctx.prop_fail(f"{cls}: a nested write succeeded in the default configuration", rp, None)
        except (TypeError, AttributeError):
            pass
    if G.snapshot(obj.input_parameters) != snap:
        ctx.prop_fail(f"{cls}: the definition changed after attribute / nested write attempts", rp, None)


# ------------------------------------------------------------------ (B) monitored histories
def extra_definition(obj):
    """Definition attributes kept outside `input_parameters`: `__dict__` entries that are neither
    private nor the per-instance caches of `cached_method` (those are keyed by the name of a method
    of the class).  At present: GNFA.final_states = {final_state}, bound by GNFA.__init__ — under
    the mutable option a plain `set` created inside the library, which no tracked container covers."""
    return G.norm({k: v for k, v in getattr(obj, "__dict__", {}).items()
                   if not k.startswith("_") and not hasattr(type(obj), k)})


class Member:
    def __init__(self, cls, obj, kw, tracked: bool):
        self.cls, self.obj, self.kw, self.tracked = cls, obj, kw, tracked
        self.snap = G.snapshot(obj.input_parameters)
        self.extra = extra_definition(obj)
        self.inserting = False  # transition table in a dict subclass whose __missing__ inserts


def _pickle_rt(m, a):
    p = a["seed"] % (pickle.HIGHEST_PROTOCOL + 2)
    return pickle.loads(pickle.dumps(m, protocol=None if p > pickle.HIGHEST_PROTOCOL else p))


def roundtrip_ops(cls: str):
    """pickle (every protocol), copy.copy, copy.deepcopy on an operand — they go through
    __reduce_ex__ / __getstate__ / __setstate__; under the mutable option copy.copy returns an
    automaton that *shares* every container with the operand, so later calls on it are watched
    through the same tracked containers."""
    return [
        (f"{cls}.pickle.loads(pickle.dumps)", _pickle_rt),
        (f"{cls}.copy.copy", lambda m, a: _copy.copy(m)),
        (f"{cls}.copy.deepcopy", lambda m, a: _copy.deepcopy(m)),
    ]


ROUNDTRIP_SUFFIXES = (".copy", ".pickle.loads(pickle.dumps)", ".copy.copy", ".copy.deepcopy")

# Refusals that are documented although they are not AutomatonExceptions (none at present besides
# the ones misc_common.is_documented knows); an exception outside this list inside a history is
# reported as a failure: an accepted automaton passed to a public operation must not crash.
def documented_refusal(name: str, e: BaseException) -> bool:
    try:
        return M.is_documented(name, e)
    except Exception:  # noqa: BLE001 - a method the documentation table does not know (found by introspection)
        return False


_DISCOVERED_NEW: Dict[str, list] = {}


def _discovered_new(cls: str):
    if cls not in _DISCOVERED_NEW:
        from harness import introspect_ops as I
        _DISCOVERED_NEW[cls] = I.discovered_ops(cls, only_new=True)[0]
    return _DISCOVERED_NEW[cls]


@guarded
def history(ctx: Ctx, rng, mutable: bool, steps: int, classes: List[str], origin: str):
    log = Mon.Log()
    pool: List[Member] = []
    alphabet = sorted(rng.choice([("a", "b"), ("0", "1"), ("a",)]))
    build: List[dict] = []
    with M.options(True, mutable):
        for cls in classes:
            for _ in range(2 if cls in ("DFA", "NFA") else 1):
                if cls in ("DFA", "NFA"):
                    kw = G.rand_def(rng, cls, junk=rng.random() < 0.3, alphabet=alphabet)
                    if cls == "NFA":
                        ensure_final_eps(rng, kw)
                elif cls in ("MNTM", "NTM") and rng.random() < 0.3:
                    kw = tuple_list_def(rng, cls)      # a tuple holding a list (tracked through the tuple)
                elif cls in ("DPDA", "NPDA") and not mutable and rng.random() < 0.3:
                    # (default mode only: with the list kept un-frozen under the mutable option the PDA
                    # configurations are unhashable — an accepted-but-unusable shape that C19 judges)
                    kw = tuple_list_def(rng, cls)
                elif cls == "MNTM":
                    kw = G.rand_tm_def(rng, "MNTM", list_results=rng.random() < 0.5)
                else:
                    kw = G.rand_def(rng, cls)
                args = Mon.track_kwargs(G._dc(kw), log) if mutable else G._dc(kw)
                flavour = None
                if mutable and rng.random() < 0.3:
                    # dict / set subclasses a user may pass (defaultdict, OrderedDict, __missing__): not tracked
                    # call by call — an effective write shows in the snapshots compared after every call
                    flavour = rng.choice(FLAVOURS)
                    args = flavoured(cls, kw, flavour)
                    ctx.stat(f"monitored(other):history:flavour:{flavour}")
                try:
                    obj = G.get_class(cls)(**args)
                except Exception as e:  # noqa: BLE001
                    ctx.note(f"history: {cls} rejected a generated definition: {type(e).__name__}: {e}"[:200])
                    continue
                pool.append(Member(cls, obj, kw, mutable))
                pool[-1].inserting = flavour in ("defaultdict", "defaultdict-outer", "missing-inserts")
                build.append(dict(cls=cls, kwargs=repr(kw), **({"flavour": flavour} if flavour else {})))
    log.clear()
    trace = []
    for step in range(steps):
        m = rng.choice(pool)
        ops1 = M.unary_ops(m.cls) + roundtrip_ops(m.cls)
        ops2 = M.binary_ops(m.cls)
        # public methods found by introspection that the hand-written tables do not cover (inherited ones too)
        for dname, dar, dfn in _discovered_new(m.cls):
            (ops1 if dar == 1 else ops2).append((dname, dfn))
        a = M.arg_pack(rng, m.obj.input_symbols)
        if ops2 and rng.random() < 0.4:
            name, fn = rng.choice(ops2)
            others = [x for x in pool if x.cls == m.cls]
            o = rng.choice(others)
            operands = (m, o)
            call = lambda: fn(m.obj, o.obj, a)  # noqa: E731
        else:
            name, fn = rng.choice(ops1)
            operands = (m,)
            call = lambda: fn(m.obj, a)  # noqa: E731
        trace.append((name, [pool.index(x) for x in operands], a))
        with M.options(rng.random() < 0.7, mutable):
            try:
                res = ("ok", call())
            except RecursionError:
                raise
            except Exception as e:  # noqa: BLE001
                res = ("err", e)
        ctx.case(("history", mutable, name, tuple(E.enc_def(x.cls, x.kw) if x.kw else id(x) for x in operands))
                 if len(m.obj.states) >= 2 else None)
        ctx.stat(f"monitored(other):history:{'mutable' if mutable else 'default'}:{name}")
        rp = dict(kind="history", mutable=mutable, pool=build, trace=[(n, i, dict(ar)) for n, i, ar in trace][-12:],
                  step=step, classes=classes)
        if res[0] == "err" and isinstance(res[1], ImportError) and name.endswith("show_diagram"):
            # pygraphviz / coloraide are not installed here: the method raises before touching the automaton
            ctx.stat("monitored(other):history:show_diagram_not_installed")
        elif res[0] == "err" and not documented_refusal(name, res[1]):
            # an operation on accepted automata raised something its documentation does not
            # announce.  That is not a failure of THIS property (C18 is about definitions never
            # changing; whether accepted automata are usable is C19's question, which runs the same
            # operations) — it is counted, and the operands are compared below all the same: an
            # operation that changed an operand before raising is still reported.
            ctx.stat("monitored(other):history:undocumented_exception")
            ctx.stat(f"monitored(other):history:undocumented_exception:{name}:{type(res[1]).__name__}")
        elif res[0] == "err":
            ctx.stat(f"monitored(other):history:documented_refusal:{type(res[1]).__name__}")
        # 0. copy() / pickle / copy.copy / copy.deepcopy: a new object of the same class with an
        #    identical definition
        if res[0] == "ok" and name.endswith(ROUNDTRIP_SUFFIXES) and name.startswith(m.cls + "."):
            r = res[1]
            if type(r) is not type(m.obj):
                ctx.prop_fail(f"history step {step}: {name} returned a {type(r).__name__}", rp, None)
            elif r is m.obj:
                ctx.prop_fail(f"history step {step}: {name} returned the operand itself", rp, None)
            elif G.norm(definition(r)) != G.norm(definition(m.obj)) or extra_definition(r) != extra_definition(m.obj):
                ctx.prop_fail(f"history step {step}: {name}: definitions differ: {definition(m.obj)!r:.200} vs "
                              f"{definition(r)!r:.200} (allow_mutable={mutable})", rp, None)
        # 0b. default configuration: every automaton an operation returns is itself an immutable value
        if not mutable and res[0] == "ok" and M.is_automaton(res[1]) and type(res[1]).__name__ in G.CLASSES:
            with M.options(True, False):
                judge_result(ctx, f"history step {step}: {name}", res[1], rp, default_config=True)
        # 1. no effective write to any tracked container
        ch = log.changes()
        if ch:
            ctx.prop_fail(f"history step {step}: {name} wrote to an operand's container: {ch[:3]} (allow_mutable={mutable})",
                          rp, None)
        if log.events and not ch:
            ctx.stat("monitored(other):noop_mutator_call", len(log.events))
        log.clear()
        # 2. deep snapshots unchanged: the operands after every call, every live automaton
        #    every 4th call and at the end of the history
        full = (step % 4 == 3) or step == steps - 1
        for idx, x in enumerate(pool):
            if not full and x not in operands:
                continue
            now = G.snapshot(x.obj.input_parameters)
            if now != x.snap:
                ctx.prop_fail(f"history step {step}: {name} changed the definition of pool member {idx} ({x.cls}) "
                              f"(allow_mutable={mutable}; operand={x in operands})", rp, None)
                x.snap = now
            extra_now = extra_definition(x.obj)
            if extra_now != x.extra:
                ctx.prop_fail(f"history step {step}: {name} changed a definition attribute kept in __dict__ of pool "
                              f"member {idx} ({x.cls}): {x.extra!r:.120} -> {extra_now!r:.120} "
                              f"(allow_mutable={mutable}; operand={x in operands})", rp, None)
                x.extra = extra_now
        # results join the pool
        if res[0] == "ok" and M.is_automaton(res[1]) and len(pool) < 14 and type(res[1]).__name__ in G.CLASSES:
            r = res[1]
            if len(r.states) <= 12:
                pool.append(Member(type(r).__name__, r, None, False))
                # copies made under the option share / re-create the operand's container classes
                pool[-1].inserting = mutable and any(getattr(x, "inserting", False) for x in operands)
                build.append(dict(cls=type(r).__name__, result_of=len(trace) - 1))


def ensure_final_eps(rng, kw):
    """Make sure some final state has an ε-entry (the table kleene_star edits)."""
    fs = [q for q in kw["final_states"] if q in kw["states"]]
    if not fs:
        return
    q = rng.choice(fs)
    row = kw["transitions"].setdefault(q, {})
    row.setdefault("", {rng.choice(list(kw["states"]))})



# ------------------------------------------------------------------ (F) look-alike containers as arguments
# Values for FREEZE are described by SPECS (JSON-able, so that a failure can be replayed): ["a", atom] or
# [kind, [member specs]] / [map kind, [[key spec, value spec], …]] / ["items-view", [[key spec, value spec], …]].
SPEC_SEQ = ("list", "tuple", "list-subclass", "namedtuple", "userlist", "deque", "abc-sequence")
SPEC_SET = ("set", "frozenset", "keys-view", "odict-keys-view", "abc-set", "set-subclass")
SPEC_MAP = ("dict", "frozendict", "mappingproxy", "userdict", "chainmap", "abc-mapping", "mappingproxy-of-userdict",
            "OrderedDict", "defaultdict", "Counter")
SPEC_PAIRS = SPEC_MAP + ("items-view",)
SPEC_HASHABLE = ("tuple", "frozenset", "namedtuple")


def spec_hashable(sp) -> bool:
    return sp[0] == "a" or (sp[0] in SPEC_HASHABLE and all(spec_hashable(x) for x in sp[1]))


def build_spec(sp, rng):
    """The Python value a spec describes (fresh objects; the caller-side owners are dropped)."""
    kind = sp[0]
    if kind == "a":
        return sp[1]
    if kind in SPEC_SEQ:
        return LA.make_seq(kind, [build_spec(x, rng) for x in sp[1]], "", rng, [])
    if kind in SPEC_SET:
        xs = []
        for x in (build_spec(x, rng) for x in sp[1]):
            if x not in xs:
                xs.append(x)
        return LA.make_set(kind, xs, "", rng, [])
    d = {build_spec(k, rng): build_spec(x, rng) for k, x in sp[1]}
    if kind == "items-view":
        return d.items()
    return LA.make_map(kind, d, "", rng, [])


SMALL_KINDS = ("list", "tuple", "set", "dict", "keys-view", "items-view", "mappingproxy", "userdict", "abc-set",
               "abc-mapping", "chainmap", "OrderedDict", "namedtuple", "userlist", "deque")


def small_lookalike_specs(depth: int):
    """All specs of nesting depth ≤ depth with ≤ 1 member per container over the atoms {1, 'a', None} and the
    container kinds SMALL_KINDS (hashable members / keys where Python requires them)."""
    if depth == 0:
        for a in (1, "a", None):
            yield ["a", a]
        return
    subs = list(small_lookalike_specs(depth - 1))
    yield from subs
    hashable = [x for x in subs if spec_hashable(x)]
    for kind in SMALL_KINDS:
        yield [kind, []]
        if kind in SPEC_PAIRS:
            for x in subs:
                yield [kind, [[["a", 1], x]]]
        elif kind == "abc-set" or kind in SPEC_SEQ:
            for x in subs:                       # a user Set class may hold anything
                yield [kind, [x]]
        else:
            for x in hashable:
                yield [kind, [x]]


def rand_lookalike_spec(rng, depth: int, hashable: bool = False):
    if depth == 0 or rng.random() < 0.2:
        return ["a", rng.choice([0, 1, -1, 7, "a", "b", "", "q0", None, True, 2.5, "both"])]
    if hashable:
        kind = rng.choice(SPEC_HASHABLE)
        return [kind, [rand_lookalike_spec(rng, depth - 1, True) for _ in range(rng.randint(0, 3 if kind != "namedtuple" else 2))]]
    kind = rng.choice(SPEC_SEQ + SPEC_SET + SPEC_PAIRS + ("keys-view", "items-view", "mappingproxy", "userdict", "abc-set",
                                                          "userlist", "deque"))
    n = rng.randint(0, 3)
    if kind in SPEC_SEQ:
        return [kind, [rand_lookalike_spec(rng, depth - 1) for _ in range(n)]]
    if kind == "abc-set":
        return [kind, [rand_lookalike_spec(rng, depth - 1) for _ in range(n)]]
    if kind in SPEC_SET:
        return [kind, [rand_lookalike_spec(rng, depth - 1, True) for _ in range(n)]]
    return [kind, [[rand_lookalike_spec(rng, min(depth - 1, 1), True), rand_lookalike_spec(rng, depth - 1)] for _ in range(n)]]


def spec_kinds(sp, out=None) -> set:
    out = set() if out is None else out
    if sp[0] != "a":
        out.add(sp[0])
        for x in sp[1]:
            if sp[0] in SPEC_PAIRS:
                spec_kinds(x[0], out)
                spec_kinds(x[1], out)
            else:
                spec_kinds(x, out)
    return out


def check_freeze_spec(ctx: Ctx, sp, origin: str):
    try:
        v = build_spec(sp, ctx.rng)
    except TypeError:      # an unhashable key / member slipped in: Python cannot build the value
        ctx.stat("freeze:spec_not_buildable")
        return
    for k in spec_kinds(sp):
        ctx.stat(f"freeze:kind:{k}")
    check_freeze(ctx, v, origin, rp=dict(kind="freeze_spec", spec=sp))


def lookalike_values(ctx: Ctx, rng):
    corpus = [
        ["keys-view", [["a", 1]]],                                                   # F37: fin.keys()
        ["items-view", [[["a", 1], ["list", [["a", 2]]]]]],                          # {1: [2]}.items(): unhashable member
        ["mappingproxy", [[["a", 0], ["mappingproxy", [[["a", "a"], ["a", 1]]]]]]],  # a proxied DFA table, rows proxied
        ["dict", [[["a", 0], ["keys-view", [["a", 1]]]]]],                           # a view inside a dict
        ["list", [["userdict", [[["a", 1], ["set", [["a", 2]]]]]]]],
        ["tuple", [["abc-set", [["list", [["a", 1]]]]]]],                            # a user Set holding a list
        ["chainmap", [[["a", "q"], ["abc-mapping", [[["a", ""], ["keys-view", [["a", "p"]]]]]]]]],
        ["OrderedDict", [[["a", 1], ["namedtuple", [["a", 1], ["list-subclass", [["a", 2]]]]]]]],
        ["Counter", [[["a", "a"], ["a", 2]]]], ["defaultdict", [[["a", 1], ["set-subclass", [["a", 2]]]]]],
        ["mappingproxy-of-userdict", [[["a", 1], ["odict-keys-view", [["a", 2]]]]]],
        # sequence-likes (fix ab97679): a UserList of MNTM results, a deque of moves, a user Sequence class
        ["dict", [[["tuple", [["a", "1"]]], ["userlist", [["tuple", [["a", "q1"], ["deque", [["list", [["a", "1"], ["a", "R"]]]]]]]]]]]],
        ["abc-sequence", [["a", 1], ["set", [["a", 2]]]]], ["keys-view", [["tuple", [["a", 1], ["a", 2]]]]],
    ]
    for sp in corpus:
        check_freeze_spec(ctx, sp, "lookalike_corpus")
    KINDS_TEXT = ("container kinds list, tuple, namedtuple, set, dict, OrderedDict and the look-alikes dict keys view, dict "
                  "items view, mappingproxy, UserDict, ChainMap, a user collections.abc.Set class, a user "
                  "collections.abc.Mapping class, UserList, deque")
    seen = 0
    for sp in small_lookalike_specs(2):
        check_freeze_spec(ctx, sp, "lookalike_exhaustive")
        seen += 1
    ctx.exhaustive("freeze_value on every value of nesting depth ≤2 over atoms {1,'a',None} with ≤1 member per container, "
                   + KINDS_TEXT)
    n = 0
    for sp in small_lookalike_specs(3):
        n += 1
        if n <= seen:
            continue          # (the enumeration of depth 3 starts with the values of depth ≤2)
        check_freeze_spec(ctx, sp, "lookalike_exhaustive")
        if n - seen >= ctx.budget(2500, 200000):
            break
    else:
        ctx.exhaustive("freeze_value on every value of nesting depth ≤3 over atoms {1,'a',None} with ≤1 member per container, "
                       + KINDS_TEXT)
    for _ in range(ctx.budget(2000, 40000)):
        check_freeze_spec(ctx, rand_lookalike_spec(rng, rng.randint(1, 4)), "lookalike_random")


class _Lister(LA.Chooser):
    """Records every container position of a definition with the kinds applicable there; wraps nothing."""

    def __init__(self):
        super().__init__(None, {})
        self.positions = []

    def pick(self, label, lookalikes, subclasses, plain):
        self.positions.append((label, tuple(lookalikes) + tuple(subclasses) + tuple(plain[1:])))
        return plain[0]


def verdict_sig(obj, cls: str, kw):
    """Verdicts on a few words (bounded runs for the machines); None for GNFA (it reads no input)."""
    if cls == "GNFA":
        return None
    al = sorted(kw["input_symbols"])
    if cls in ("DFA", "NFA"):
        return M.lang_sig(obj, al, 3 if len(al) <= 2 else 2)
    out = []
    for w in list(M.words_upto(al, 2))[:7]:
        try:
            out.append(M._verdicts(obj, w))
        except RecursionError:
            raise
        except Exception as e:  # noqa: BLE001 - whatever the machine does on the word, it must do it again afterwards
            out.append(("raised", type(e).__name__))
    return tuple(out)


LOOKALIKE_KINDS = set(LA.SET_LOOKALIKES + LA.MAP_LOOKALIKES + LA.SEQ_LOOKALIKES)


@guarded
def lookalike_args_case(ctx: Ctx, cls: str, kw, recipe: Optional[Dict[str, str]], origin: str) -> None:
    """cls(**arguments) in the DEFAULT configuration, the arguments being the plain definition `kw` rebuilt with
    look-alike containers (per `recipe`, or chosen at random and recorded): (a) every stored container is of an
    immutable kind all the way down and the stored definition is the value of the arguments at construction;
    (b) mutating every caller-side object afterwards changes neither the definition nor the verdicts."""
    rng = ctx.rng
    ch = LA.Chooser(rng, recipe)
    args, owners = LA.wrap_definition(cls, G._dc(kw), ch, rng)
    rp = dict(kind="lookalike_args", cls=cls, kwargs=repr(kw), recipe=dict(ch.recipe))
    want = G.snapshot(G._dc(kw))
    used = sorted(set(ch.recipe.values()))
    # freeze_value itself on every container argument: real vs the Lean model (kinds setlike / maplike)
    for k, v in args.items():
        if k in G.SET_PARAMS or k == "transitions":
            check_freeze(ctx, v, "lookalike_args", rp=rp)
    stt = E.StrTable()
    try:
        enc = f"{cls} " + E.enc_kwargs(args, stt)
    except Exception:  # noqa: BLE001
        enc = None
    with M.options(True, False):
        try:
            obj = G.get_class(cls)(**args)
        except RecursionError:
            raise
        except Exception as e:  # noqa: BLE001
            ok_plain = M.construct(cls, G._dc(kw))[0] == "ok"
            ctx.stat(f"lookalike_args:rejected:{cls}:{type(e).__name__}:{'plain_accepted' if ok_plain else 'plain_rejected_too'}")
            if ok_plain:
                ctx.prop_fail(f"{cls}: the definition is accepted when given in builtin containers and refused "
                              f"({type(e).__name__}: {str(e)[:80]}) when the same value is given in {used} — in the default "
                              f"configuration the arguments are converted before anything reads them", rp, None)
            return
    for kind in used:
        ctx.stat(f"lookalike_args:kind:{kind}")
    for label, kind in ch.recipe.items():
        ctx.stat(f"lookalike_args:position:{cls}:{label.split('[')[0]}:depth{LA.depth_of(label)}"
                 + (":lookalike" if kind in LOOKALIKE_KINDS else ":subclass_or_plain"))
    ctx.stat(f"lookalike_args:{origin}:{cls}")
    ok = True
    # (a) immutable kinds all the way down, hashable, and equal in value to the arguments
    bad = stored_not_immutable(obj)
    if bad:
        ok = False
        ctx.prop_fail(f"{cls} (default configuration) stores {describe_bad(bad)} — not in immutable form; arguments given "
                      f"as {dict(list(ch.recipe.items())[:4])}", rp, None)
    else:
        for k, v in definition(obj).items():
            try:
                hash(v)
            except TypeError as e:
                ok = False
                ctx.prop_fail(f"{cls}: stored attribute {k} is not hashable ({e}); arguments given as {used}", rp, None)
                break
    snap = G.snapshot(obj.input_parameters)
    if snap != want:
        ok = False
        ctx.prop_fail(f"{cls}: the stored definition is not the value of the arguments at construction (arguments given "
                      f"as {used}): {obj.input_parameters!r:.200}", rp, None)
    if enc is not None and ok:
        impl_new = params_line(obj, stt)
        model_new = parse_inst(ctx.driver(DRV).ask("NEW 0 " + enc))
        if impl_new != model_new:
            ctx.corr_diff("NEW", rp, impl_new, model_new)
    whole = whole_definition(obj)
    with M.options(True, False):
        sig = verdict_sig(obj, cls, kw)
    # (b) later mutation of every caller-side object: the plain dicts / sets / lists first (all, then one
    # comparison), then every look-alike / subclass object one at a time
    plain = [o for o in owners if o[1] in ("dict", "set", "list")]
    for label, kind, _holder, mutate in plain:
        mutate()
        ctx.stat(f"lookalike_args:owner_mutated:{kind}")
    if plain and whole_definition(obj) != whole:
        ok = False
        ctx.prop_fail(f"{cls} (default configuration): changing the caller's plain dict / set / list arguments AFTER "
                      f"construction changed the automaton's definition", rp, None)
        whole = whole_definition(obj)
    for label, kind, _holder, mutate in owners:
        if kind in ("dict", "set", "list"):
            continue
        try:
            mutate()
        except Exception as e:  # noqa: BLE001 - a caller-side object that cannot be changed this way
            ctx.stat(f"lookalike_args:owner_not_mutated:{kind}:{type(e).__name__}")
            continue
        ctx.stat(f"lookalike_args:owner_mutated:{kind}")
        try:
            now = whole_definition(obj)
        except Exception as e:  # noqa: BLE001
            now = ("unreadable", type(e).__name__)
        if now != whole:
            ok = False
            ctx.prop_fail(f"{cls} (default configuration): changing the caller's {kind} behind the argument at {label} AFTER "
                          f"construction changed the automaton's definition: "
                          f"{describe_change(whole, now) if len(now) == 3 else now}", rp, None)
            if len(now) == 3:
                whole = now
    if owners:
        with M.options(True, False):
            try:
                sig2 = verdict_sig(obj, cls, kw)
            except RecursionError:
                raise
            except Exception as e:  # noqa: BLE001
                sig2 = ("raised", type(e).__name__)
        if sig2 != sig:
            ok = False
            ctx.prop_fail(f"{cls} (default configuration): after the caller's objects behind the arguments ({used}) were "
                          f"changed, the automaton answers differently on words up to length 3", rp, None)
    nontrivial = C19_nontrivial(kw) and any(k in LOOKALIKE_KINDS for k in ch.recipe.values())
    ctx.case(("lookalike_args", cls, E.enc_def(cls, kw), tuple(sorted(ch.recipe.items()))) if ok and nontrivial else None)


def f37_definition():
    return dict(states={0, 1}, input_symbols={"a"}, transitions={0: {"a": 1}, 1: {"a": 1}}, initial_state=0,
                final_states={1}, allow_partial=False)


def lookalike_args_corpus(ctx: Ctx):
    """The input of finding F37 (DFA(..., final_states=fin.keys())) and its siblings."""
    for recipe in ({"final_states": "keys-view"}, {"states": "keys-view"}, {"transitions": "mappingproxy"},
                   {"transitions": "userdict", "transitions[0]": "mappingproxy"}, {"input_symbols": "abc-set"},
                   {"transitions": "chainmap", "transitions[1]": "abc-mapping", "final_states": "odict-keys-view"}):
        lookalike_args_case(ctx, "DFA", f37_definition(), recipe, "corpus")


def lookalike_args_family(ctx: Ctx, rng):
    # one definition per class: every container position × every applicable kind, one position at a time
    for cls in G.CLASSES:
        # (the smallest of a few generated definitions: the sweep is quadratic in the number of positions)
        best = None
        for _ in range(6):
            kw = lookalike_definition(rng, cls)
            ls = _Lister()
            LA.wrap_definition(cls, G._dc(kw), ls, rng)
            if C19_nontrivial(kw) and (best is None or len(ls.positions) < len(best[1].positions)):
                best = (kw, ls)
        if best is None:
            best = (kw, ls)
        kw, ls = best
        ctx.stat(f"lookalike_args:positions:{cls}", len(ls.positions))
        for label, kinds in ls.positions:
            for kind in kinds:
                lookalike_args_case(ctx, cls, kw, {label: kind}, "one_position")
        # … and one kind at every position at once
        for kind in LA.SET_LOOKALIKES[:3] + LA.MAP_LOOKALIKES + LA.SEQ_LOOKALIKES + LA.SEQ_SUBCLASSES:
            recipe = {label: kind for label, kinds in ls.positions if kind in kinds}
            lookalike_args_case(ctx, cls, kw, recipe, "one_kind_everywhere")
    ctx.exhaustive("for one generated definition per class (8 classes): every container position of the constructor "
                   "arguments (sets, transition table, rows, target / result sets, result tuples, MNTM result and move "
                   "lists) × every look-alike / builtin-subclass kind applicable there, one position at a time, and each "
                   "look-alike kind at all positions at once — default configuration")
    for _ in range(ctx.budget(20, 400)):
        for cls in G.CLASSES:
            lookalike_args_case(ctx, cls, lookalike_definition(rng, cls), None, "random")


def lookalike_definition(rng, cls: str):
    """A valid definition with ≥2 states and ≥1 transition (atoms as names: junk=False)."""
    kw = {}
    for _ in range(20):
        if cls == "MNTM":
            kw = G.rand_tm_def(rng, "MNTM", list_results=rng.random() < 0.5)
        elif cls in TL_CLASSES and rng.random() < 0.3:
            kw = tuple_list_def(rng, cls)
        else:
            kw = G.rand_def(rng, cls)
        if C19_nontrivial(kw):
            break
    return kw


# ------------------------------------------------------------------ run
def run(ctx: Ctx):
    rng = ctx.rng
    # ---- (A) freeze_value
    corpus_values = [
        {("1",): [["q0", [["1", "R"]]]]},                       # MNTM-style nested lists (m38)
        {"q0": {("1",): [("q0", (("1", "R"),))]}},
        {"q": {"": {"p"}}}, [[[]]], [{1: [{2}]}], {1: {2: [{3}, [4]]}},
        (1, [2], {3}), frozenset({(1, 2)}), frozendict({1: [1, 2], 2: {3}}), True, None, 2.5, "", [],
        {"a": ("x", [1])}, [("x", [1])],
        # tuples holding lists (entered since /repo fix 3900daf)
        {"q0": {("1",): [("q1", [["1", "R"]])]}},               # reviewer's MNTM table
        {"q0": {"a": {"0": ("q1", ["1", "0"])}}},               # DPDA pushing a list
        {"q0": {"1": (["q1", "1", "R"],)}},                     # NTM results as a tuple of lists
        {"q0": {"a": {"0": (("q1", ["1", "0"]),)}}},            # NPDA results as a tuple of (state, list)
        (1, (2, ([3], {4: [5]}, {6}))), ((((([],),),),),), (frozendict({1: [2]}), frozenset({1})),
        frozendict({1: (2, [3])}),
    ]
    for v in corpus_values:
        check_freeze(ctx, v, "corpus")
    n = 0
    for v in small_values(2):
        check_freeze(ctx, v, "exhaustive")
        n += 1
        if n >= ctx.budget(25000, 200000):
            break
    else:
        ctx.exhaustive("freeze_value on every Python value of nesting depth ≤2 over atoms {1,'a',None} with ≤2 members per "
                       "container (list, tuple, set, frozenset, dict, frozendict)")
    for _ in range(ctx.budget(6000, 60000)):
        check_freeze(ctx, rand_value(rng, rng.randint(1, 4)), "random")
    line = ctx.driver(DRV).ask("SETATTR")
    line2 = ctx.driver(DRV).ask("DELATTR")
    if line != "err AttributeError" or line2 != "err AttributeError":
        ctx.corr_diff("SETATTR/DELATTR", {}, "err AttributeError", line + " / " + line2)

    # ---- (A) new / copy / pickle and (B) default-mode probes
    for _ in range(ctx.budget(60, 600)):
        for cls in G.CLASSES:
            lr = cls == "MNTM" and rng.random() < 0.5
            kw = G.rand_tm_def(rng, "MNTM", list_results=True) if lr else G.rand_def(rng, cls, junk=cls in G.JUNK_CLASSES and rng.random() < 0.3)
            for (m0, m1) in ((False, False), (True, True), (True, False), (False, True)):
                check_object_model(ctx, cls, kw, "valid", m0, m1)
            r = rng.random()
            if r < 0.15:
                check_object_model(ctx, cls, kw, "missing_param", False, False, drop=rng.choice(list(kw.keys())))
            elif r < 0.25:
                check_object_model(ctx, cls, kw, "extra_param", False, False, extra=True)
            probe_default(ctx, cls, kw, rng, "valid" + (":list_results" if lr else ""))
    # tuple holding list (MNTM / NTM / DPDA / NPDA): frozen since fix 3900daf — the reviewer's
    # MNTM [('q1', [['1','R']])] and DPDA ('q1', ['1','0']) first, then the generated family
    fixed_tl = [
        ("MNTM", dict(states={"q0", "q1"}, input_symbols={"1"}, tape_symbols={"1", "."}, n_tapes=1,
                      transitions={"q0": {("1",): [("q1", [["1", "R"]])]}}, initial_state="q0", blank_symbol=".",
                      final_states={"q1"})),
        ("DPDA", dict(states={"q0", "q1"}, input_symbols={"a"}, stack_symbols={"0", "1"},
                      transitions={"q0": {"a": {"0": ("q1", ["1", "0"])}}}, initial_state="q0",
                      initial_stack_symbol="0", final_states={"q1"}, acceptance_mode="final_state")),
        ("NTM", dict(states={"q0", "q1"}, input_symbols={"1"}, tape_symbols={"1", "."},
                     transitions={"q0": {"1": (["q1", "1", "R"],)}}, initial_state="q0", blank_symbol=".",
                     final_states={"q1"})),
        ("NPDA", dict(states={"q0", "q1"}, input_symbols={"a"}, stack_symbols={"0", "1"},
                      transitions={"q0": {"a": {"0": (("q1", ["1", "0"]),)}}}, initial_state="q0",
                      initial_stack_symbol="0", final_states={"q1"}, acceptance_mode="final_state")),
    ]
    for cls, kw in fixed_tl:
        for (m0, m1) in ((False, False), (True, True), (True, False), (False, True)):
            check_object_model(ctx, cls, kw, "tuple_holding_list", m0, m1)
        probe_default(ctx, cls, kw, rng, "tuple_holding_list")
    for _ in range(ctx.budget(40, 400)):
        for cls in TL_CLASSES:
            kw = tuple_list_def(rng, cls)
            for (m0, m1) in ((False, False), (True, False), (False, True)):
                check_object_model(ctx, cls, kw, "tuple_holding_list", m0, m1)
            probe_default(ctx, cls, kw, rng, "tuple_holding_list")
    # defaults: allow_partial / acceptance_mode omitted
    for cls, p in (("DFA", "allow_partial"), ("DPDA", "acceptance_mode"), ("NPDA", "acceptance_mode")):
        for _ in range(ctx.budget(5, 50)):
            kw = G.rand_def(rng, cls)
            if cls == "DFA" and kw["allow_partial"]:
                kw = G.kwargs_of(M.construct("DFA", kw)[1].to_complete())
            check_object_model(ctx, cls, kw, "default_param", False, False, drop=p)

    # ---- (F) look-alike containers (finding F37): FREEZE on values holding them, then as constructor arguments
    import time as _time
    t0 = _time.time()
    lookalike_args_corpus(ctx)
    lookalike_values(ctx, rng)
    t1 = _time.time()
    lookalike_args_family(ctx, rng)
    ctx.stat("wall_s:lookalike_values", int(t1 - t0))
    ctx.stat("wall_s:lookalike_args_family", int(_time.time() - t1))

    # ---- results of operations as immutable values; option switched between construction and calls
    results_family(ctx, rng, ctx.budget(30, 400))
    # ---- mutable option + dict / set subclasses and look-alikes as containers
    lookalike_family(ctx, rng, ctx.budget(60, 800))

    # ---- every public method the classes have (introspection), definition compared after the call
    methods_family(ctx, rng, ctx.budget(3, 30))

    # ---- (B) monitored histories (level "other")
    all_classes = list(G.CLASSES)
    for _ in range(ctx.budget(250, 2500)):
        history(ctx, rng, True, ctx.budget(24, 40), ["DFA", "NFA", "GNFA"], "fa")
    for _ in range(ctx.budget(50, 600)):
        history(ctx, rng, True, ctx.budget(20, 40), ["DPDA", "NPDA", "DTM", "NTM", "MNTM"], "machines")
    for _ in range(ctx.budget(50, 600)):
        history(ctx, rng, False, ctx.budget(20, 40), all_classes, "default")
    ctx.note("part (B) — tracked containers under allow_mutable_automata=True, snapshots before/after every call of "
             "random histories, default-mode immutability probes — is MONITORED (level 'other'), not proved")


# ------------------------------------------------------------------ replay
def _env():
    return {"frozenset": frozenset, "set": set, "frozendict": frozendict}


def replay(ctx: Ctx, path: str) -> int:
    data = json.load(open(path))
    rp = data.get("replay", data)
    rng = ctx.rng
    kind = rp.get("kind")
    if kind == "freeze":
        env = _env()
        env["frozendict"] = type("FD", (), {"frozendict": frozendict})  # repr is frozendict.frozendict({...})
        check_freeze(ctx, eval(rp["value"], env), "replay")
    elif kind == "freeze_spec":
        check_freeze_spec(ctx, rp["spec"], "replay")
    elif kind == "lookalike_args":
        kw = eval(rp["kwargs"], _env())
        for _ in range(5):
            lookalike_args_case(ctx, rp["cls"], kw, rp["recipe"], "replay")
            if ctx.prop_fails:
                break
    elif kind == "object":
        kw = eval(rp["kwargs"], _env())
        check_object_model(ctx, rp["cls"], kw, "replay", rp["m0"], rp["m1"])
    elif kind == "default_probe":
        kw = eval(rp["kwargs"], _env())
        for _ in range(5):
            probe_default(ctx, rp["cls"], kw, rng, "replay")
    elif kind == "result":
        kw = eval(rp["kwargs"], _env())
        kw2 = eval(rp["rhs"], _env()) if rp.get("rhs") else None
        if kw2 is None and M.binary_ops(rp["cls"]):
            kw2 = kw
        results_case(ctx, rp["cls"], kw, kw2, rp["m0"], rng, "replay", only_op=rp["op"], args_pack=rp["args"])
    elif kind == "factory":
        factory_case(ctx, rp["factory_args"], only_op=rp["op"])
    elif kind == "lookalike":
        kw = eval(rp["kwargs"], _env())
        kw2 = eval(rp["rhs"], _env()) if rp.get("rhs") else None
        lookalike_case(ctx, rp["cls"], kw, kw2, rp["flavour"], rng, "replay", only_op=rp["op"], args_pack=rp["args"])
    elif kind == "method":
        kw = eval(rp["kwargs"], _env())
        kw2 = eval(rp["rhs"], _env()) if rp.get("rhs") else None
        method_case(ctx, rp["cls"], kw, kw2, rp["mutable"], rp["method"], rp["args"], "replay", flavour=rp.get("flavour"))
    elif kind == "history":
        # histories are regenerated from the recorded classes with the run's PRNG; the recorded
        # pool / trace document the failing step
        for _ in range(300):
            history(ctx, rng, rp["mutable"], 40, rp["classes"], "replay")
            if ctx.prop_fails:
                break
    if ctx.prop_fails:
        print(f"VIOLATION property=C18 replay={path}")
        print("  " + ctx.prop_fails[0]["what"])
        return 1
    print("replay: property holds on this input now")
    return 0
