"""C04 — DFA Boolean operations compute exact set operations on languages.

Correspondence: DFA_BINOP (union / intersection / difference / symmetric difference ×
retain_names × minify), DFA_COMPLEMENT, DFA_TO_PARTIAL, DFA_TO_COMPLETE — the real
result vs. the Lean model's result, compared in canonical form (isomorphism of the
reachable part, number of unreachable states, and — with retained names — the names as
sets of operand states).  Property oracle (independent of the model): the result
validates, has the operands' alphabet, and a complete product search over
(state of A, state of B, state of result) finds no word on which the result's verdict
differs from the set operation; every reported word is confirmed through the real
accepts_input.
"""
from __future__ import annotations

import itertools
import json
import random
from typing import Any

from automata.base.exceptions import InvalidStateError, SymbolMismatchError
from automata.fa.dfa import DFA

from harness import c04_large_products, gen, langoracle
from harness.common import guarded, Ctx, Names, Toks, call, enc_dfa, sym_names, toks
from harness.dfaops_common import (check_valid, lang_mismatch, parse_canon, py_canon, render_block,
                                   render_pair, renderer_atoms)

LEVEL = "proof"
RULE = ("cases = (operation, option combination, operand DFAs); quick: seeded random sample of the ordered pairs of "
        "DFAs with ≤2 states over {a,b} incl. partial ones (one combination each, a few pairs with all 16); thorough: "
        "the slice seed mod 8 of those pairs × all 4 operations × all 4 option combinations; then shaped random operands (≤5 states, "
        "adversarial name pools, partial×complete mixes), random expression trees of depth ≤3 (recorded as data, every "
        "node also compared with the model on the real intermediate operands), alphabet mismatches, "
        "to_partial/to_complete incl. custom trap names (fresh, taken, equal to the key of a junk row), DFAs over the "
        "empty alphabet, operators | & - ^ ~; sequences of 2–4 calls (to_partial, minify, complement, ~, "
        "to_complete, | & - ^, isempty, isfinite, maximum_word_length, ==, <=) on ONE object kept alive, every result "
        "evaluated; the same sequences (after 0–2 unjudged queries, one step often repeated) on operands built under "
        "allow_mutable_automata=True from PLAIN set/dict containers, every result judged against FROZEN TWINS (the "
        "definitions as built); LARGE PRODUCTS (harness/c04_large_products.py, on every run): operand pairs with "
        "closed-form languages whose product has about 130–600 reachable pairs that re-enter early pairs — counters "
        "'number of a ≡ r mod m' × 'number of b ≡ s mod n', 'length mod m' × 'length mod n' (one cycle of m·n pairs), "
        "complete and partial variants, DFA.of_length / from_finite_language / nth_from_end / count_mod operands "
        "with dozens of states × a counter — every one of the 4 operations × 4 option combinations, the operators, "
        "chains (A op B) op C, A op (B op C), ~(A op B) op C; judged by closed-form membership on ~260 words around "
        "the periods (multiples of m, n, lcm, bounds, ±1) through the real accepts_input, by the complete product "
        "search, and by the expected minimal state count where the outermost operation minifies (no model "
        "correspondence for this family); non-trivial = every operand has ≥2 "
        "reachable states and the result language is neither empty nor universal; distinct = distinct "
        "(operation, options, encoded operands)")
ASSUMPTIONS = [
    "operands are valid DFAs (constructed through the real constructor with validation on)",
    "state names are hashable, none is None; results are compared up to renaming of states",
]
EXPLANATION = ("Theorems C04_* (Props/C04.lean) prove for the model that every Boolean operation returns a valid DFA "
               "with exactly the set-operation language for all operands and options; this run ties the model to "
               "the code and evaluates the property on the real results with an independent complete product search.  "
               "The proofs are about the model of automata/fa/dfa.py; helpers it calls (automata/base/utils.py: renaming "
               "function, PartitionRefinement — listed in the notes and the uses_helper:* stats) are modelled by their "
               "specification, so size-dependent behaviour of those helpers is covered by the large-product family "
               "(products of 130–600 pairs, closed-form oracle), which runs on every run.")

SMALL_PAIR_SLICES = 8

OPS = {
    "union": (lambda a, b, **k: a.union(b, **k), lambda x, y: x or y, lambda a, b: a | b),
    "inter": (lambda a, b, **k: a.intersection(b, **k), lambda x, y: x and y, lambda a, b: a & b),
    "diff": (lambda a, b, **k: a.difference(b, **k), lambda x, y: x and not y, lambda a, b: a - b),
    "symm": (lambda a, b, **k: a.symmetric_difference(b, **k), lambda x, y: x != y, lambda a, b: a ^ b),
}


def reachable_count(d: DFA) -> int:
    seen = {d.initial_state}
    work = [d.initial_state]
    while work:
        q = work.pop()
        for t in d.transitions[q].values():
            if t not in seen:
                seen.add(t)
                work.append(t)
    return len(seen)


def nontrivial(operands, result) -> bool:
    if any(reachable_count(o) < 2 for o in operands):
        return False
    al = result.input_symbols
    if langoracle.find_word([result], al, lambda v: v[0]) is None:
        return False
    if langoracle.find_word([result], al, lambda v: not v[0]) is None:
        return False
    return True


def check_result_props(ctx, what, operands, result, spec, replay, want_complete=False, want_partial_flag=None):
    """The property itself on the real objects."""
    if not isinstance(result, DFA):
        ctx.prop_fail(f"{what}: result is not a DFA ({type(result).__name__})", replay)
        return False
    bad = check_valid(result)
    if bad:
        ctx.prop_fail(f"{what}: result does not validate ({bad})", replay)
        return False
    if result.input_symbols != operands[0].input_symbols:
        ctx.prop_fail(f"{what}: result alphabet differs from the operands'", replay)
        return False
    w = lang_mismatch(operands, result, result.input_symbols, spec)
    if w is not None:
        ctx.prop_fail(f"{what}: result and set operation disagree on word {w!r} "
                      f"(operands accept: {[o.accepts_input(w) for o in operands]}, result accepts: {result.accepts_input(w)})",
                      dict(replay, word=w))
        return False
    if want_complete:
        if any(set(row) != set(result.input_symbols) for row in result.transitions.values()):
            ctx.prop_fail(f"{what}: complete form has an undefined transition", replay)
            return False
    return True


@guarded
def do_binop(ctx: Ctx, opname: str, A: DFA, B: DFA, retain: bool, minify: bool, origin: str, use_operator=False):
    drv = ctx.driver("drv_dfa_ops")
    impl_f, spec, oper = OPS[opname]
    encA, stA, sy = enc_dfa(A)
    encB, stB, _ = enc_dfa(B, sy=sym_names(A.input_symbols) if A.input_symbols == B.input_symbols else None)
    replay = dict(op=opname, retain_names=retain, minify=minify, A=repr(A), B=repr(B), operator=use_operator)
    if use_operator:
        res = call(lambda: oper(A, B))
        retain, minify = False, True
    else:
        res = call(lambda: impl_f(A, B, retain_names=retain, minify=minify))
    seed = ctx.rng.randrange(1000)
    ctx.stat(f"binop_{opname}")
    ctx.stat(f"opts_retain{int(retain)}_minify{int(minify)}")
    ctx.stat(origin)
    if A.input_symbols != B.input_symbols:
        ctx.case(("mismatch", encA, encB))
        ctx.stat("alphabet_mismatch")
        line = drv.ask(toks("DFA_BINOP", opname, retain, minify, seed, encA, enc_dfa(B)[0]))
        if res != ("err", "SymbolMismatchError"):
            ctx.prop_fail(f"{opname} of DFAs over different alphabets was answered instead of refused: {res[0]} {res[1] if res[0]=='err' else ''}", replay)
        # the encodings use per-operand symbol ranks, the model only sees whether the sets are equal
        return
    line = drv.ask(toks("DFA_BINOP", opname, retain, minify, seed, encA, encB))
    if res[0] == "err":
        ctx.case(None)
        ctx.prop_fail(f"{opname}(retain_names={retain}, minify={minify}) raised {res[1]} on valid operands", replay)
        return
    R = res[1]
    ok = check_result_props(ctx, f"{opname}(retain_names={retain}, minify={minify})", [A, B], R, spec, replay)
    nt = ok and nontrivial([A, B], R)
    ctx.case((opname, retain, minify, encA, encB) if nt else None)
    if A.allow_partial != B.allow_partial:
        ctx.stat("partial_x_complete")
    if R.allow_partial:
        ctx.stat("result_partial")
    if not line.startswith("ok "):
        ctx.corr_diff("DFA_BINOP", replay, "ok", line)
        return
    mod = parse_canon(Toks(line[3:]))
    ra = renderer_atoms(stA)
    rb = renderer_atoms(stB)
    rend = None
    if retain:
        rend = render_block(render_pair(ra, rb)) if minify else render_pair(ra, rb)
    imp = py_canon(R, sy, rend)
    if ctx.evaluations % 499 == 1:
        ctx.sample(dict(op=opname, retain_names=retain, minify=minify, A=repr(A), B=repr(B), result=repr(R),
                        canonical=imp))
    if imp != mod and ok:
        ctx.corr_diff("DFA_BINOP", replay, imp, mod)


@guarded
def do_complement(ctx: Ctx, A: DFA, retain: bool, minify: bool, origin: str, use_operator=False):
    drv = ctx.driver("drv_dfa_ops")
    encA, stA, sy = enc_dfa(A)
    replay = dict(op="complement", retain_names=retain, minify=minify, A=repr(A), operator=use_operator)
    if use_operator:
        res = call(lambda: ~A)
        retain, minify = False, True
    else:
        res = call(lambda: A.complement(retain_names=retain, minify=minify))
    ctx.stat("complement")
    ctx.stat(origin)
    if res[0] == "err":
        ctx.case(None)
        ctx.prop_fail(f"complement raised {res[1]} on a valid DFA", replay)
        return
    R = res[1]
    ok = check_result_props(ctx, f"complement(retain_names={retain}, minify={minify})", [A], R, lambda x: not x, replay)
    ctx.case(("compl", retain, minify, encA) if ok and nontrivial([A], R) else None)
    trap_name = _added_state(A, R, blocks=bool(minify and retain))
    trap = stA(trap_name)  # foreign id
    line = drv.ask(toks("DFA_COMPLEMENT", retain, minify, ctx.rng.randrange(1000), encA, trap))
    if not line.startswith("ok "):
        ctx.corr_diff("DFA_COMPLEMENT", replay, "ok", line)
        return
    if minify:
        mod = parse_canon(Toks(line[3:]))
        imp = py_canon(R, sy, render_block(lambda q: str(stA(q))) if retain else None)
    else:
        mod = Toks(line[3:]).dfa()
        from harness.common import dfa_plain
        imp = dfa_plain(R, stA, sy)
    if imp != mod and ok:
        ctx.corr_diff("DFA_COMPLEMENT", replay, imp, mod)


def _added_state(A: DFA, R, blocks: bool = False) -> Any:
    """The name the code chose for the state it added (complement / to_complete of a partial DFA):
    the one state of the result that is neither a state nor a row key of the operand.  The model takes this name as
    an input — which fresh name is chosen is not specified, only that it is fresh — so the harness
    does not depend on how (or in which private helper) the code computes it."""
    atoms = set()
    for q in getattr(R, "states", ()):
        atoms.update(q if blocks and isinstance(q, frozenset) else (q,))     # minify + retain_names: blocks
    extra = [q for q in atoms if q not in A.states and q not in A.transitions]
    return extra[0] if len(extra) == 1 else ("<no added state>",)


@guarded
def do_to_partial(ctx: Ctx, A: DFA, retain: bool, minify: bool, origin: str):
    drv = ctx.driver("drv_dfa_ops")
    encA, stA, sy = enc_dfa(A)
    replay = dict(op="to_partial", retain_names=retain, minify=minify, A=repr(A))
    res = call(lambda: A.to_partial(retain_names=retain, minify=minify))
    ctx.stat("to_partial")
    ctx.stat(origin)
    if res[0] == "err":
        ctx.case(None)
        ctx.prop_fail(f"to_partial raised {res[1]} on a valid DFA", replay)
        return
    R = res[1]
    ok = check_result_props(ctx, f"to_partial(retain_names={retain}, minify={minify})", [A], R, lambda x: x, replay)
    ctx.case(("to_partial", retain, minify, encA) if ok and nontrivial([A], R) else None)
    line = drv.ask(toks("DFA_TO_PARTIAL", retain, minify, ctx.rng.randrange(1000), encA))
    if minify:
        mod = parse_canon(Toks(line[3:]))
        imp = py_canon(R, sy, render_block(lambda q: str(stA(q))) if retain else None)
    else:
        mod = Toks(line[3:]).dfa()
        from harness.common import dfa_plain
        imp = dfa_plain(R, stA, sy)
    if imp != mod and ok:
        ctx.corr_diff("DFA_TO_PARTIAL", replay, imp, mod)


@guarded
def do_to_complete(ctx: Ctx, A: DFA, mode: str, origin: str):
    """mode: default | custom_fresh | custom_taken | custom_junk (a key of a transition row that is not a state:
    allowed as a trap name — the check is `trap_state in self.states` — and the trap row then REPLACES that row)"""
    drv = ctx.driver("drv_dfa_ops")
    encA, stA, sy = enc_dfa(A)
    from harness.common import dfa_plain
    ctx.stat("to_complete_" + mode)
    ctx.stat(origin)
    if mode == "default":
        res = call(lambda: A.to_complete())
        trap_name, custom = _added_state(A, res[1] if res[0] == "ok" else None), False
    elif mode == "custom_fresh":
        trap_name, custom = ("trap", len(A.states)), True
        res = call(lambda: A.to_complete(trap_name))
    elif mode == "custom_junk":
        junk = [k for k in A.transitions if k not in A.states]
        if not junk:
            return
        trap_name, custom = ctx.rng.choice(junk), True
        res = call(lambda: A.to_complete(trap_name))
    else:
        trap_name, custom = ctx.rng.choice(sorted(A.states, key=repr)), True
        res = call(lambda: A.to_complete(trap_name))
    replay = dict(op="to_complete", mode=mode, trap=repr(trap_name), A=repr(A))
    line = drv.ask(toks("DFA_TO_COMPLETE", encA, stA(trap_name), custom))
    t = Toks(line)
    mod = t.res(t.dfa)
    really_partial = any(len(row) != len(A.input_symbols) for row in A.transitions.values())
    if res[0] == "err":
        ctx.case(None)
        if not (mode == "custom_taken" and really_partial and res[1] == "InvalidStateError"):
            ctx.prop_fail(f"to_complete({mode}) raised {res[1]}", replay)
        elif mod != ("err", "InvalidStateError"):
            ctx.corr_diff("DFA_TO_COMPLETE", replay, res, mod)
        return
    R = res[1]
    ok = check_result_props(ctx, f"to_complete({mode})", [A], R, lambda x: x, replay, want_complete=True)
    ctx.case(("to_complete", mode, encA) if ok and nontrivial([A], R) else None)
    imp = ("ok", dfa_plain(R, stA, sy))
    if imp != mod and ok:
        ctx.corr_diff("DFA_TO_COMPLETE", replay, imp, mod)


def gen_tree(rng, n_leaves: int, depth: int):
    """Random expression tree as plain data (JSON-able, recorded in replays):
    ["leaf", i] | [binop, left, right, retain, minify, use_operator] | ["compl", sub, retain, minify, use_operator]
    | ["to_partial", sub, retain, minify] | ["to_complete", sub]"""
    if depth == 0 or rng.random() < 0.25:
        return ["leaf", rng.randrange(n_leaves)]
    kind = rng.choice(["union", "inter", "diff", "symm", "compl", "to_partial", "to_complete"])
    if kind in OPS:
        return [kind, gen_tree(rng, n_leaves, depth - 1), gen_tree(rng, n_leaves, depth - 1),
                rng.random() < 0.5, rng.random() < 0.5, rng.random() < 0.3]
    sub = gen_tree(rng, n_leaves, depth - 1)
    if kind == "compl":
        return ["compl", sub, rng.random() < 0.5, rng.random() < 0.5, rng.random() >= 0.7]
    if kind == "to_partial":
        return ["to_partial", sub, rng.random() < 0.5, rng.random() < 0.5]
    return ["to_complete", sub]


def eval_tree(ctx: Ctx, leaves, tree, correspond: bool):
    """→ (real DFA, predicate over leaf verdicts, text).  With `correspond`, every operation node is also
    sent through the model correspondence (and the per-node oracle) of that operation with the REAL
    intermediate operands — the tree correspondence, node by node."""
    kind = tree[0]
    if kind == "leaf":
        i = tree[1]
        return leaves[i], (lambda v, i=i: v[i]), f"L{i}"
    if kind in OPS:
        _, lt, rt, retain, minify, use_op = tree
        l, fl, tl = eval_tree(ctx, leaves, lt, correspond)
        r, fr, tr = eval_tree(ctx, leaves, rt, correspond)
        impl_f, spec, oper = OPS[kind]
        res = oper(l, r) if use_op else impl_f(l, r, retain_names=retain, minify=minify)
        if correspond:
            do_binop(ctx, kind, l, r, retain, minify, "expression_node", use_operator=use_op)
        return res, (lambda v: spec(fl(v), fr(v))), (f"({tl} {kind}* {tr})" if use_op else f"{kind}[r{int(retain)}m{int(minify)}]({tl},{tr})")
    if kind == "compl":
        _, st, retain, minify, use_op = tree
        l, fl, tl = eval_tree(ctx, leaves, st, correspond)
        res = ~l if use_op else l.complement(retain_names=retain, minify=minify)
        if correspond:
            do_complement(ctx, l, retain, minify, "expression_node", use_operator=use_op)
        return res, (lambda v: not fl(v)), f"~{tl}"
    if kind == "to_partial":
        _, st, retain, minify = tree
        l, fl, tl = eval_tree(ctx, leaves, st, correspond)
        if correspond:
            do_to_partial(ctx, l, retain, minify, "expression_node")
        return l.to_partial(retain_names=retain, minify=minify), fl, f"partial({tl})"
    _, st = tree
    l, fl, tl = eval_tree(ctx, leaves, st, correspond)
    if correspond:
        do_to_complete(ctx, l, "default", "expression_node")
    return l.to_complete(), fl, f"complete({tl})"


@guarded
def do_expr(ctx: Ctx, leaves, depth: int, tree=None):
    ctx.stat("expression_tree")
    if tree is None:
        tree = gen_tree(ctx.rng, len(leaves), depth)
    replay = dict(op="expression", leaves=[repr(x) for x in leaves], tree=tree)
    try:
        R, pred, text = eval_tree(ctx, leaves, tree, correspond=True)
    except Exception as e:  # noqa: BLE001
        ctx.case(None)
        ctx.prop_fail(f"expression tree raised {type(e).__name__}: {e}", replay)
        return
    replay["expr"] = text
    ok = check_result_props(ctx, f"expression {text}", leaves, R, lambda *v: pred(v), replay)
    ctx.case(("expr", text, tuple(repr(x) for x in leaves)) if ok and nontrivial(leaves, R) else None)


def seq_on_dfa(ctx):
    def on_dfa(what, srcs, spec, R, replay, minified):
        return check_result_props(ctx, what, srcs, R, spec, replay)
    return on_dfa


@guarded
def do_sequence(ctx: Ctx, d: DFA, b: DFA, steps, origin: str):
    from harness import dfa_sequences
    dfa_sequences.run_sequence(ctx, d, b, steps, origin, seq_on_dfa(ctx))


def run_sequences(ctx: Ctx, n: int):
    """2–4 calls on ONE object in random order, every result evaluated (see harness/dfa_sequences.py)."""
    from harness import dfa_sequences
    rng = ctx.rng
    for _ in range(n):
        al = rng.choice(gen.ALPHABETS)
        # complete DFAs with sinks (reachable dead states) are the interesting operands: half of the draws
        d = gen.rand_dfa(rng, 5, al, partial=False if rng.random() < 0.5 else None)
        b = gen.rand_dfa(rng, 4, al)
        do_sequence(ctx, d, b, dfa_sequences.draw_steps(rng), "sequence_on_one_object")


@guarded
def do_mutable_sequence(ctx: Ctx, ref_d: DFA, ref_b: DFA, pre, steps, option_during_calls: bool, origin: str):
    from harness import dfa_sequences
    dfa_sequences.run_mutable_sequence(ctx, ref_d, ref_b, pre, steps, option_during_calls, origin, seq_on_dfa(ctx))


def run_mutable_option(ctx: Ctx, n: int):
    """Operands built under allow_mutable_automata=True from PLAIN set/dict containers (the library then keeps
    the caller's containers); 0–2 unjudged queries, then 1–4 operations / conversions on the same objects, every
    result judged (valid, language = the set operation) against the FROZEN twins — the definitions as built."""
    from harness import dfa_sequences
    rng = ctx.rng
    for _ in range(n):
        al = rng.choice(gen.ALPHABETS)
        d = gen.rand_dfa(rng, 6, al, partial=True if rng.random() < 0.5 else None)
        b = gen.rand_dfa(rng, 4, al)
        pre, steps, on = dfa_sequences.draw_mutable_history(rng)
        do_mutable_sequence(ctx, d, b, pre, steps, on, "mutable_option_sequence")


def run_junk_trap(ctx: Ctx, n: int):
    """to_complete(trap_state=<key of a junk row>) and the other operations on DFAs with junk rows."""
    rng = ctx.rng
    for _ in range(n):
        al = rng.choice(gen.ALPHABETS)
        a = gen.rand_dfa(rng, 4, al, partial=True if rng.random() < 0.8 else None, junk_rows=True)
        do_to_complete(ctx, a, "custom_junk", "junk_key_trap")
        if rng.random() < 0.3:
            b = gen.rand_dfa(rng, 3, al, junk_rows=rng.random() < 0.5)
            do_binop(ctx, rng.choice(list(OPS)), a, b, rng.random() < 0.5, rng.random() < 0.5, "junk_rows")
            do_complement(ctx, a, rng.random() < 0.5, rng.random() < 0.5, "junk_rows")


def empty_alphabet_dfas():
    out = []
    for fin in (set(), {0}):
        for partial in (False, True):
            out.append(DFA(states={0}, input_symbols=set(), transitions={0: {}}, initial_state=0,
                           final_states=fin, allow_partial=partial))
    out.append(DFA(states={0, 1}, input_symbols=set(), transitions={0: {}, 1: {}}, initial_state=1,
                   final_states={0}, allow_partial=True))
    out.append(DFA(states={0, 1}, input_symbols=set(), transitions={0: {}, 1: {}, "junk": {}}, initial_state=1,
                   final_states={0, 1}, allow_partial=False))
    return out


def run_empty_alphabet(ctx: Ctx):
    """Every operation × every option combination on every DFA over the empty alphabet in the corpus."""
    ea = empty_alphabet_dfas()
    opts = [(r, m) for r in (False, True) for m in (False, True)]
    for a in ea:
        for r, m in opts:
            do_complement(ctx, a, r, m, "empty_alphabet")
            do_to_partial(ctx, a, r, m, "empty_alphabet")
            for b in ea:
                for opname in OPS:
                    do_binop(ctx, opname, a, b, r, m, "empty_alphabet")
        do_complement(ctx, a, False, True, "empty_alphabet", use_operator=True)
        for mode in ("default", "custom_fresh", "custom_taken", "custom_junk"):
            do_to_complete(ctx, a, mode, "empty_alphabet")
    ctx.exhaustive(f"{len(ea)} DFAs over the empty alphabet: all 4 operations × 4 option combinations on all ordered pairs, "
                   "complement / to_partial × 4 option combinations, ~, to_complete (4 trap modes)")


def small_dfas():
    out = []
    for n in (1, 2):
        out.extend(gen.all_dfas(n, ("a", "b")))
    return out


def corpus():
    """Triggers of repaired defects that reach this property (DESIGN.md §8 F1, F19)."""
    from harness.ops.C05 import corpus as c05_corpus
    return c05_corpus()


def run_corpus(ctx: Ctx):
    # F21: junk row named like the trap id
    J = DFA(states={0}, input_symbols={"a"}, transitions={0: {}, -1: {"a": 0}}, initial_state=0,
            final_states={0}, allow_partial=True)
    E2 = DFA(states={0}, input_symbols={"a"}, transitions={0: {"a": 0}}, initial_state=0, final_states=set())
    for opname in OPS:
        for r in (False, True):
            for m in (False, True):
                do_binop(ctx, opname, E2, J, r, m, "corpus")
                do_binop(ctx, opname, J, E2, r, m, "corpus")
    do_to_complete(ctx, J, "default", "corpus")
    do_complement(ctx, J, False, False, "corpus")
    for A in corpus():
        U = DFA.universal_language(A.input_symbols)
        for r in (False, True):
            do_to_partial(ctx, A, r, True, "corpus")
            do_complement(ctx, A, r, True, "corpus")
            for opname in OPS:
                do_binop(ctx, opname, A, U, r, True, "corpus")
                do_binop(ctx, opname, U, A, r, True, "corpus")


def search(ctx: Ctx):
    """Deeper failing-input search (called when an obligation or the correspondence is broken
    and run() found no failing input): a larger shaped-random sweep biased to partial operands
    with dead states and to the minify=True paths."""
    rng = ctx.rng
    opts = [(r, m) for r in (False, True) for m in (False, True)]
    for _ in range(ctx.budget(12000, 60000)):
        if ctx.n_prop_fails:
            return
        al = rng.choice(gen.ALPHABETS)
        a = gen.rand_dfa(rng, 6, al, partial=True if rng.random() < 0.7 else None)
        b = gen.rand_dfa(rng, 4, al)
        r, m = opts[rng.randrange(4)]
        k = rng.random()
        if k < 0.1:
            run_sequences(ctx, 1)
            run_mutable_option(ctx, 1)
        elif k < 0.4:
            do_binop(ctx, rng.choice(list(OPS)), a, b, r, True, "search")
        elif k < 0.6:
            do_complement(ctx, a, r, True, "search")
        elif k < 0.9:
            do_to_partial(ctx, a, r, True, "search")
        else:
            do_to_complete(ctx, a, "default", "search")


def run(ctx: Ctx):
    rng = ctx.rng
    pool = small_dfas()
    opts = [(r, m) for r in (False, True) for m in (False, True)]
    run_corpus(ctx)
    run_empty_alphabet(ctx)
    run_junk_trap(ctx, ctx.budget(150, 3000))
    # 0. large products (size thresholds of the product construction and of the helpers it uses): EVERY run
    c04_large_products.run_large_products(ctx)
    # 1. pairs of small DFAs.  thorough: the pairs with index ≡ seed (mod SLICES) get ALL 4 operations × ALL 4
    #    option combinations (the seeds 0..SLICES-1 together cover every pair completely); every other pair gets
    #    one random combination.  quick: a seeded random sample (nothing exhaustive is claimed).
    if ctx.thorough():
        n_pairs = len(pool) ** 2
        scale = ctx.budget(1, 1000) / 1000.0  # VERIF_BUDGET_SCALE / changed-function scaling
        slices = max(1, int(round(SMALL_PAIR_SLICES / max(scale, 1e-9)))) if scale < 1 else SMALL_PAIR_SLICES
        mine = ctx.seed % slices
        full = 0
        for i, (a, b) in enumerate((a, b) for a in pool for b in pool):
            if i % slices == mine:
                full += 1
                for opname in OPS:
                    for r, m in opts:
                        do_binop(ctx, opname, a, b, r, m, "small_pairs_all16")
            elif i % 4 == (mine + 1) % 4:
                r, m = opts[rng.randrange(4)]
                do_binop(ctx, rng.choice(list(OPS)), a, b, r, m, "small_pairs")
        ctx.exhaustive(f"slice {mine} of {slices} of the {n_pairs} ordered pairs of DFAs with ≤2 states over {{a,b}} "
                       f"(pairs with index ≡ {mine} mod {slices}: {full} pairs) × all 4 operations × all 4 "
                       f"(retain_names, minify) combinations; VERIF_SEED = 0..{slices - 1} together cover every pair")
    else:
        for _ in range(ctx.budget(6000, 0)):
            a, b = rng.choice(pool), rng.choice(pool)
            r, m = opts[rng.randrange(4)]
            do_binop(ctx, rng.choice(list(OPS)), a, b, r, m, "small_pairs")
        # a few pairs completely
        for _ in range(ctx.budget(60, 0)):
            a, b = rng.choice(pool), rng.choice(pool)
            for opname in OPS:
                for r, m in opts:
                    do_binop(ctx, opname, a, b, r, m, "small_pairs_all16")
    # every small DFA: complement / to_partial / to_complete in all option combinations
    step = 1 if ctx.thorough() else 4
    for i, a in enumerate(pool):
        if i % step:
            continue
        for r, m in opts:
            do_complement(ctx, a, r, m, "small_unary")
            do_to_partial(ctx, a, r, m, "small_unary")
        for mode in ("default", "custom_fresh", "custom_taken"):
            do_to_complete(ctx, a, mode, "small_unary")
        do_complement(ctx, a, False, True, "small_unary", use_operator=True)
    if step == 1:
        ctx.exhaustive("all DFAs with ≤2 states over {a,b}: complement / to_partial (4 option combinations), to_complete (3 trap modes)")
    # sequences of calls on one object
    run_sequences(ctx, ctx.budget(700, 12000))
    run_mutable_option(ctx, ctx.budget(500, 10000))
    # 2. shaped random
    for _ in range(ctx.budget(4000, 60000)):
        al = rng.choice(gen.ALPHABETS)
        a = gen.rand_dfa(rng, 5, al)
        b = gen.rand_dfa(rng, 5, al)
        r, m = opts[rng.randrange(4)]
        k = rng.random()
        if k < 0.55:
            do_binop(ctx, rng.choice(list(OPS)), a, b, r, m, "random")
        elif k < 0.62:
            do_binop(ctx, rng.choice(list(OPS)), a, b, r, m, "random_operator", use_operator=True)
        elif k < 0.72:
            do_complement(ctx, a, r, m, "random", use_operator=rng.random() < 0.2)
        elif k < 0.80:
            do_to_partial(ctx, a, r, m, "random")
        elif k < 0.88:
            do_to_complete(ctx, a, rng.choice(["default", "custom_fresh", "custom_taken", "custom_junk"]), "random")
        elif k < 0.93:
            other = gen.rand_dfa(rng, 3, rng.choice([x for x in gen.ALPHABETS if set(x) != set(al)]))
            do_binop(ctx, rng.choice(list(OPS)), a, other, r, m, "random_mismatch")
        else:
            leaves = [a, b, gen.rand_dfa(rng, 3, al)]
            do_expr(ctx, leaves, 3)


def replay(ctx: Ctx, path: str) -> int:
    data = json.load(open(path))
    rp = data.get("replay", data)
    env = {"DFA": DFA, "frozenset": frozenset}
    op = rp["op"]
    if op in OPS:
        do_binop(ctx, op, eval(rp["A"], env), eval(rp["B"], env), rp["retain_names"], rp["minify"], "replay",
                 use_operator=rp.get("operator", False))
    elif op == "complement":
        do_complement(ctx, eval(rp["A"], env), rp["retain_names"], rp["minify"], "replay", rp.get("operator", False))
    elif op == "to_partial":
        do_to_partial(ctx, eval(rp["A"], env), rp["retain_names"], rp["minify"], "replay")
    elif op == "to_complete":
        do_to_complete(ctx, eval(rp["A"], env), rp["mode"], "replay")
    elif op == "sequence" and rp.get("mutable"):
        do_mutable_sequence(ctx, eval(rp["A"], env), eval(rp["B"], env), rp.get("pre", []), rp["steps"],
                            rp.get("option_during_calls", True), "replay")
    elif op == "sequence":
        do_sequence(ctx, eval(rp["A"], env), eval(rp["B"], env), rp["steps"], "replay")
    elif op == "large_product":
        c04_large_products.replay_case(ctx, rp)
    elif op == "expression" and "tree" in rp:
        do_expr(ctx, [eval(x, env) for x in rp["leaves"]], 0, tree=rp["tree"])
    else:
        print("replay: expression-tree replays recorded before the tree was stored are re-run by seed only")
        return 0
    if ctx.prop_fails:
        print(f"VIOLATION property=C04 replay={path}")
        print("  " + ctx.prop_fails[0]["what"])
        return 1
    print("replay: property holds on this input now")
    return 0
