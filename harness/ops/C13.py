"""C13 — word counting, enumeration, lengths and random sampling match the language.

Correspondence (driver drv_dfa_query): COUNT / WORDS (values for every k ≤ K and the complete
per-state DP tables of every level), MINMAX (minimum/maximum_word_length, isempty, isfinite),
CARD (cardinality, len), ITER (prefixes of iter(dfa), exhaustion), RANDOM (random_word with
the RNG's randint results recorded by patching automata.fa.dfa.Random from outside and
handed to the model).  Every query runs on a *fresh* copy of the DFA (histories are C20).

Property oracle, independent of the model: brute-force enumeration of all words up to the
needed length through the real accepts_input; length analysis by subset simulation over the
transition table; for random_word (a) the word dictated by cumulative-count unranking of the
recorded randint results where the counts are brute-force prefix counts, and (b) on small
cases the *exact* output distribution obtained by exhausting the outcome tree of the RNG
(every accepted word of length k must have probability exactly 1/N).

Round 2 (review gaps): DAGLEN — networkx `dag_longest_path_length(subgraph)` / NetworkXUnfeasible
on random digraphs (10–40 nodes, self-loops, 2-cycles, back edges) against the model's contract
function AND an independent DFS oracle; DFAs over the empty alphabet (exhaustive ≤3 states);
DFAs with 10–14 states (counts/cardinality by forward path counting); cardinalities ≥ 2^63.
Two probe families reproduce the OPEN findings on every run: `len(dfa)` raises OverflowError
from 2^63 words on (key C13:len-overflow-2^63; the model's `lenBuiltin` has that branch and
theorem C13_len_full_fails proves it) and cached queries on an unbound temporary raise
RuntimeError (key C06:cached-query-on-temporary, owned by C06).

Round 4 (seeded change C13_w4m1): DERIVED-AFTER-QUERY — see the comment above `run_derived`.

Round 5 (seeded change C13_w5m2): DEEP automata — simple paths of 1000–5000 useful states, closed-form answers, no
model round trip; see the comment above `deep_do` and harness/dfa_query_deep.py.

Round 3 (seeded changes C13_w3m1 / C13_w3m2): SESSIONS — 4–16 C13 queries asked one after the other of ONE
live object (count, words, partially consumed words generator, iteration prefix, min/max/empty/finite,
cardinality/len, random_word, clear_cache, the same queries on `live.copy()`), every enumeration / count
asked at least twice and interleaved with the others.  The live object is built under the default options
or under `allow_mutable_automata = True` from plain `set` / `dict` containers (also: containers shared where
a caller may share them; a `.copy()` that shares them).  EVERY answer is judged by the oracles above
evaluated on the frozen twin (the definition AS BUILT), and — when the oracle accepts it — compared with the
model's stateless answer for that definition.  A failing session is minimised (greedy removal of earlier
steps) and recorded as a concrete replay.
"""
from __future__ import annotations

import itertools
import json
from fractions import Fraction

from automata.fa.dfa import DFA

from harness import gen
from harness import dfa_query_lib as L
from harness import dfa_query_lib2 as L2
from harness import dfa_query_lib3 as L3
from harness import dfa_history_lib as H
from harness import dfa_query_deep as DP
from harness.common import guarded as case_guard
from harness.common import Ctx, Toks, call, enc_dfa, toks

LEVEL = "proof"
RULE = ("cases = (valid DFA, query, parameters) with query ∈ {count k, words k, min/max/empty/finite, "
        "cardinality/len, iteration prefix n, random_word k with recorded RNG outcomes}; corpus (F3 trigger, "
        "mutant killers), all DFAs with ≤2 states over {a,b} × every k ≤ 5, then shaped random DFAs "
        "(≤6 states; random / acyclic / from_finite_language / empty / universal / extra rows), every DFA over "
        "the empty alphabet with ≤3 states, DFAs with 10–14 states (light: counts by forward path counting), "
        "of_length languages with up to 2^71 words (cardinality/len), random digraphs of 10–40 nodes for the "
        "networkx contract, probes of the two open findings; sessions = sequences of 4–16 queries on ONE object (every "
        "enumeration / count asked twice, interleaved) × object built under the default options / under "
        "allow_mutable_automata=True from plain, aliased or copied containers: fixed batteries on a corpus and on all DFAs "
        "with ≤2 states over {a,b}, random sessions on shaped random DFAs, every answer judged against the language of the "
        "definition as built; round 4: derivation cases = C13 queries on a source object, THEN a new DFA made from it by a "
        "library operation (complement with both minify values / ~ / copy / to_complete / to_partial / minify / union, "
        "intersection, difference, symmetric difference with itself or a second DFA on either side, as methods and "
        "operators; optionally a second derivation from the first result), then the C13 queries on the DERIVED object(s) "
        "and on the source again, every answer judged on the definition of the object that was asked (corpus × every "
        "operation × source queried or not; random sources, half of them complete); round 5: DEEP automata = simple "
        "paths of 1000–5000 useful states built by the library's constructors from a small spec (of_length with min = max "
        "in the thousands / min = 0 / no upper bound = chain ending in a self-loop, from_finite_language with a word of "
        "1000+ symbols next to a one-letter word, hand-written partial chains: with a short side branch, ending in a live "
        "cycle, ending in a dead cycle, without final state; sizes drawn from the seed) × every query (min / max / isfinite "
        "/ isempty and short prefixes / small k on 1500–5000 states, one fresh copy each; count, random_word, cardinality, "
        "len, words_of_length, iteration AT the depth of the chain on 1030–1120 states, several on one object), answers "
        "known in closed form from the spec — no model round trip; the same specs scaled down to ≤ 12 states are judged "
        "by the closed form and by the brute-force oracle together; a case is "
        "non-trivial when the language is non-empty and the DFA has ≥2 states; distinct = distinct "
        "(definition, query, parameters)")
ASSUMPTIONS = [
    "lengths k are naturals (negative lengths index the caches from the end: finding F18, outside the domain)",
    "symbols are single characters compared by code point (domain restriction, DESIGN §3: words are Python "
    "strings, so with a multi-character symbol such as 'ab' words_of_length(1) == ['ab'] is read back by "
    "accepts_input as two symbols; such alphabets are usable with list inputs only and are outside this "
    "property; the empty string as a symbol is refused by validate since /repo 07f4843); association lists "
    "represent dicts (unique keys)",
    "uniformity and independence of CPython's Random.randint are trusted; C13_random_uniform_output computes "
    "the probability of the event `randomWord k cs = ok w` over the loop's own draw tree (each result uniform "
    "on its range)",
    "networkx dag_longest_path_length / topological_sort are modelled by their contract; the contract function "
    "is compared with networkx itself and with an independent DFS oracle on random digraphs (DAGLEN family)",
    "allow_mutable_automata=True: the caller does not modify the containers it handed to the constructor (the option's "
    "documented condition; the harness never does); the language that the answers must match is that of the "
    "definition as built (frozen twin).  Whether the live object's definition drifted is counted, not judged (C18)",
    "len(dfa): sys.maxsize = 2^63 - 1 (64-bit CPython); queries are made on bound objects (a cached query on an "
    "unbound temporary raises RuntimeError: open finding C06:cached-query-on-temporary, probed on every run)",
]
EXPLANATION = ("Theorems C13_* characterise the model's tables, lengths, cardinality, iteration and "
               "random_word by the language of the DFA for every DFA and k; this run ties the model to "
               "the code by differential execution and evaluates the property on the real code by brute force.  The "
               "theorems hold for DFAs of every size; the differential part stops at 14 states, so the DEEP family asks "
               "the real code about automata with paths of 1000–5000 states whose answers are known in closed form "
               "(RecursionError / no answer within 20 s on such an input is a failure of the property on the real code).")

FAIL_KEY = None


def K_for(d: DFA) -> int:
    return {0: 3, 1: 8, 2: 6, 3: 5}.get(len(d.input_symbols), 4)


def fresh(d: DFA) -> DFA:
    return d.copy()


def on_fresh(d: DFA, f):
    """Run f on a fresh copy that stays referenced during the call (cached_method keeps
    only a weak reference to the receiver: `d.copy().isempty()` raises RuntimeError)."""
    c = d.copy()
    return L.guarded(lambda: f(c))


# --------------------------------------------------------------- observing the real object
def real_tables(d: DFA, st, sy, k: int):
    c = fresh(d)
    v = call(lambda: c.count_words_of_length(k))
    ct = [[lvl.get(q, 0) for q in st.order] for lvl in c._count_cache]
    w = fresh(d)
    ws = call(lambda: list(w.words_of_length(k)))
    wt = [[L.words_to_ints(sy, lvl.get(q, [])) for q in st.order] for lvl in w._word_cache]
    return v, ct, ws, wt


def model_count(ctx, enc, k):
    t = Toks(ctx.driver(L.DRV).ask(toks("COUNT", enc, k)))
    v = t.int()
    levels = t.many(lambda: t.ints())
    return v, levels


def model_words(ctx, enc, k):
    t = Toks(ctx.driver(L.DRV).ask(toks("WORDS", enc, k)))
    ws = L.rd_words(t)
    levels = t.many(lambda: t.many(lambda: L.rd_words(t)))
    return ws, levels


def fail(ctx: Ctx, d: DFA, op: str, params: dict, what: str):
    ctx.prop_fail(f"{op}{params}: {what}", dict(automaton=repr(d), op=op, params=params, what=what), FAIL_KEY)


# --------------------------------------------------------------- property evaluation (real code only)
def prop_count_words(d: DFA, k: int, bw):
    """count_words_of_length(k) / words_of_length(k) on fresh copies vs brute force."""
    out = []
    v = on_fresh(d, lambda c: c.count_words_of_length(k))
    ws = on_fresh(d, lambda c: list(c.words_of_length(k)))
    if v != ("ok", len(bw[k])):
        out.append(f"count_words_of_length({k}) = {v}, language has {len(bw[k])} words of that length")
    if ws != ("ok", bw[k]):
        out.append(f"words_of_length({k}) = {str(ws)[:200]}, expected the sorted list {str(bw[k])[:200]}")
    return out


def prop_minmax(d: DFA, shape):
    out = []
    mn = on_fresh(d, lambda c: c.minimum_word_length())
    mx = on_fresh(d, lambda c: c.maximum_word_length())
    em = on_fresh(d, lambda c: c.isempty())
    fi = on_fresh(d, lambda c: c.isfinite())
    if shape["empty"]:
        exp_mn = exp_mx = ("err", "EmptyLanguageException")
    else:
        exp_mn = ("ok", shape["min"])
        exp_mx = ("ok", shape["max"] if shape["finite"] else None)
    if mn != exp_mn:
        out.append(f"minimum_word_length = {mn}, language dictates {exp_mn}")
    if mx != exp_mx:
        out.append(f"maximum_word_length = {mx}, language dictates {exp_mx}")
    if em != ("ok", shape["empty"]):
        out.append(f"isempty = {em}, language empty = {shape['empty']}")
    if fi != ("ok", shape["finite"]):
        out.append(f"isfinite = {fi}, language finite = {shape['finite']}")
    return out, dict(min=mn, max=mx, empty=em, finite=fi)


def prop_card(d: DFA, shape, bw_full, n_words=None):
    """(failures, observations, failures that are the open finding C13:len-overflow-2^63).
    `n_words`: the number of words when it was obtained without enumeration."""
    out, known = [], []
    ca = on_fresh(d, lambda c: c.cardinality())
    ln = on_fresh(d, lambda c: len(c))
    if not shape["finite"]:
        exp = ("err", "InfiniteLanguageException")
    else:
        exp = ("ok", n_words if n_words is not None else sum(len(v) for v in bw_full.values()))
    if ca != exp:
        out.append(f"cardinality = {ca}, language dictates {exp}")
    if ln != exp:
        msg = f"len = {ln}, language dictates {exp}"
        if exp[0] == "ok" and exp[1] >= L2.SSIZE_LIMIT and ln == ("err", "OverflowError"):
            known.append(msg)
        else:
            out.append(msg)
    return out, dict(card=ca, len=ln), known


def model_card(ctx, enc):
    t = Toks(ctx.driver(L.DRV).ask(toks("CARD", enc)))
    t.expect("card"); m_card = t.res(t.int)
    t.expect("len"); m_len = t.res(t.int)
    return dict(card=m_card, len=m_len)


def prop_iter(d: DFA, n: int, expected):
    """expected = the first n words in (length, code point) order, or all of them if fewer."""
    got = on_fresh(d, lambda c: list(itertools.islice(iter(c), n)))
    out = []
    if got != ("ok", expected):
        out.append(f"first {n} words of iter() = {str(got)[:200]}, expected {str(expected)[:200]}")
    return out, got


def unrank_oracle(d: DFA, k: int, choices, bwk):
    """The word selected by the recorded randint results when every edge is weighted by the
    brute-force number of accepted length-k words that extend the prefix through it."""
    prefix = ""
    state = d.initial_state
    for c in choices:
        chosen = None
        for a, t in d.transitions[state].items():
            wgt = sum(1 for w in bwk if w.startswith(prefix + a))
            if c < wgt:
                chosen = (a, t)
                break
            c -= wgt
        if chosen is None:
            return None
        prefix += chosen[0]
        state = chosen[1]
    return prefix


def prop_random(d: DFA, k: int, seed: int, bwk):
    """Property level: the result is an accepted word of length k / ValueError iff none exists.
    Implementation level (returned separately, a correspondence matter): the recorded randint
    draws have the expected shape and select the word dictated by count-weighted unranking."""
    out, impl = [], []
    r, choices, log = L.random_word_recorded(fresh(d), k, seed)
    other_api = L.RecordingRandom.other_api
    if not bwk:
        if r != ("err", "ValueError"):
            out.append(f"random_word({k}) = {r} although no word of length {k} is accepted (ValueError expected)")
    else:
        if r[0] != "ok":
            out.append(f"random_word({k}, seed={seed}) raised {r[1]} although {len(bwk)} words of length {k} exist")
        else:
            w = r[1]
            if len(w) != k or not d.accepts_input(w):
                out.append(f"random_word({k}, seed={seed}) = {w!r} is not an accepted word of length {k}")
            elif other_api:
                impl.append(f"random_word({k}) draws through an RNG method other than randint")
            else:
                exp = unrank_oracle(d, k, choices, bwk)
                if exp != w:
                    impl.append(f"random_word({k}, seed={seed}) with randint results {choices} = {w!r}; "
                                f"count-weighted unranking over the language gives {exp!r}")
                if any(not (a == 0 and r_ <= b) for a, b, r_ in log) or len(log) != k:
                    impl.append(f"random_word({k}) drew {log} (expected {k} draws from ranges starting at 0)")
    return out, r, choices, impl


def prop_uniform(d: DFA, k: int, bwk):
    dist = L.exact_distribution(fresh(d), k)
    if dist is None:
        return None, None
    out = []
    if not bwk:
        if set(dist) != {("err", "ValueError")}:
            out.append(f"random_word({k}) outcomes {dist} although no word of length {k} exists")
    else:
        exp = {("ok", w): Fraction(1, len(bwk)) for w in bwk}
        if dist != exp:
            shown = {str(kk): str(v) for kk, v in dist.items()}
            out.append(f"random_word({k}) exact distribution over all RNG outcomes is {shown}, "
                       f"uniform would be 1/{len(bwk)} on each of {bwk}")
    return out, dist


# --------------------------------------------------------------- one DFA
@case_guard
def check_dfa(ctx: Ctx, d: DFA, origin: str, *, uniform: bool = False, light: bool = False):
    rng = ctx.rng
    enc, st, sy = enc_dfa(d)
    K = K_for(d)
    if light:
        K = min(K, 5)
    shape = L.language_shape(d)
    hi = K if (not shape["finite"] or shape["empty"]) else max(K, shape["max"])
    bw = L.brute_words(d, hi)
    nontrivial = (not shape["empty"]) and len(d.states) >= 2
    ctx.stat(f"origin:{origin}")
    ctx.stat("lang:empty" if shape["empty"] else ("lang:finite" if shape["finite"] else "lang:infinite"))
    ctx.stat(f"states:{len(d.states)}")
    ctx.stat("partial" if d.allow_partial else "complete")
    if ctx.evaluations % 499 == 0:
        ctx.sample(dict(automaton=repr(d), shape=shape, words_by_length={k: v[:6] for k, v in bw.items() if k <= 3}))

    # ---- COUNT / WORDS: values for every k and all tables
    mv, mct = model_count(ctx, enc, K)
    mws, mwt = model_words(ctx, enc, K)
    v, ct, ws, wt = real_tables(d, st, sy, K)
    for k in range(K + 1):
        ctx.case(("count-words", enc, k) if nontrivial else None)
        bad = prop_count_words(d, k, bw)
        for b in bad:
            fail(ctx, d, "count_words", dict(k=k), b)
        ctx.stat("count:zero" if not bw[k] else "count:positive")
        if not bad:
            # value-level correspondence with the model
            if mct[k][st(d.initial_state)] != len(bw[k]) or [tuple(x) for x in mwt[k][st(d.initial_state)]] != L.words_to_ints(sy, bw[k]):
                ctx.corr_diff("COUNT/WORDS", dict(automaton=repr(d), k=k), dict(count=len(bw[k]), words=bw[k]),
                              dict(count=mct[k][st(d.initial_state)], words=mwt[k][st(d.initial_state)]))
    if (v, ct) != (("ok", mv), mct):
        ctx.corr_diff("COUNT tables", dict(automaton=repr(d), k=K), dict(v=v, tables=ct), dict(v=mv, tables=mct))
    mwt_t = [[[tuple(w) for w in cell] for cell in lvl] for lvl in mwt]
    if ws != ("ok", ["".join(sy.back(c) for c in w) for w in mws]) or wt != mwt_t:
        ctx.corr_diff("WORDS tables", dict(automaton=repr(d), k=K), dict(ws=ws, tables=wt), dict(ws=mws, tables=mwt))

    # ---- MINMAX
    ctx.case(("minmax", enc) if nontrivial else None)
    bad, obs = prop_minmax(d, shape)
    for b in bad:
        fail(ctx, d, "minmax", {}, b)
    t = Toks(ctx.driver(L.DRV).ask(toks("MINMAX", enc)))
    t.expect("min"); m_min = t.res(t.int)
    t.expect("max"); m_max = t.res(t.optint)
    t.expect("empty"); m_empty = ("ok", bool(t.int()))
    t.expect("finite"); m_fin = t.res(lambda: bool(t.int()))
    mod = dict(min=m_min, max=m_max, empty=m_empty, finite=m_fin)
    if mod != obs and not bad:
        ctx.corr_diff("MINMAX", dict(automaton=repr(d)), obs, mod)

    # ---- CARD
    ctx.case(("card", enc) if nontrivial else None)
    bad, obs, known = prop_card(d, shape, bw if shape["finite"] else {})
    for b in bad:
        fail(ctx, d, "card", {}, b)
    for b in known:
        ctx.prop_fail(f"card{{}}: {b}", dict(automaton=repr(d), op="card", params={}, what=b), L2.KEY_LEN)
    mod = model_card(ctx, enc)
    if mod != obs and not bad:
        ctx.corr_diff("CARD", dict(automaton=repr(d)), obs, mod)

    # ---- ITER
    ordered = [w for k in sorted(bw) for w in bw[k]]
    total = len(ordered)
    ns = {0, 1, total, total + 2} if shape["finite"] else {0, 1, min(total, 7), total}
    ns.add(rng.randint(0, max(1, total)))
    for n in sorted(ns):
        if not shape["finite"] and n > total:
            continue
        ctx.case(("iter", enc, n) if nontrivial else None)
        expected = ordered[:n]
        bad, got = prop_iter(d, n, expected)
        for b in bad:
            fail(ctx, d, "iter", dict(n=n), b)
        ctx.stat("iter:exhausted" if shape["finite"] and n > total else "iter:prefix")
        t = Toks(ctx.driver(L.DRV).ask(toks("ITER", enc, n, hi + 3)))
        m = t.res(lambda: (L.rd_words(t), t.next()))
        if m[0] == "ok":
            mwords, mend = m[1]
            mm = ("ok", ["".join(sy.back(c) for c in w) for w in mwords])
            if mend == "outOfFuel":
                ctx.stat("iter:model_out_of_fuel")
                raise L.InfraError(f"ITER model out of fuel on {d!r} n={n}")
            if (mend == "finished") != (shape["finite"] and n > total) and not bad:
                ctx.corr_diff("ITER end", dict(automaton=repr(d), n=n), got, m)
        else:
            mm = m
        if mm != got and not bad:
            ctx.corr_diff("ITER", dict(automaton=repr(d), n=n), got, mm)

    # ---- RANDOM
    ks = list(range(min(K, 4) + 1)) if not light else [rng.randint(0, K)]
    for k in ks:
        for trial in range(1 if light else 2):
            seed = rng.randrange(1 << 30)
            ctx.case(("random", enc, k, seed) if nontrivial else None)
            bad, r, choices, impl = prop_random(d, k, seed, bw[k])
            for b in bad:
                fail(ctx, d, "random", dict(k=k, seed=seed), b)
            for b in impl:
                ctx.stat("random:implementation_level_difference")
                ctx.corr_diff("RANDOM draws", dict(automaton=repr(d), k=k, seed=seed), b, "randint per step, count-weighted edge choice in row order")
            t = Toks(ctx.driver(L.DRV).ask(toks("RANDOM", enc, k, len(choices), choices)))
            m = t.res(lambda: "".join(sy.back(c) for c in t.ints()))
            ctx.stat("random:valueerror" if r[0] == "err" else "random:word")
            if m != r and not bad:
                ctx.corr_diff("RANDOM", dict(automaton=repr(d), k=k, choices=choices), r, m)
        if uniform and len(bw[k]) <= 9 and k <= 3:
            bad, dist = prop_uniform(d, k, bw[k])
            if bad is not None:
                ctx.case(("uniform", enc, k) if nontrivial else None)
                ctx.stat("uniform:exact_distribution_checked")
                for b in bad:
                    fail(ctx, d, "uniform", dict(k=k), b)


# --------------------------------------------------------------- corpus
def big_lengths(ctx: Ctx):
    """random_word / count_words_of_length for lengths whose word counts exceed every float
    (2**1100 words of length 1100 over two symbols): Python ints are exact, so the answer must
    still be an accepted word of that length / the exact count.  Oracle only (no model call)."""
    cases = [
        ("universal{a,b}", DFA.universal_language({"a", "b"}), 1100, lambda k: 2 ** k),
        ("no 'bb'", DFA.from_substring({"a", "b"}, "bb", contains=False), 1600, None),
        ("4 symbols", DFA.universal_language({"a", "b", "c", "d"}), 620, lambda k: 4 ** k),
    ]
    for name, d, k, cnt in cases:
        ctx.case(("big", name, k))
        ctx.stat("big_length_case")
        keep = d.copy()
        r = call(lambda: keep.random_word(k, seed=ctx.seed + 7))
        if r[0] != "ok" or len(r[1]) != k or not keep.accepts_input(r[1]):
            fail(ctx, d, "random_word", dict(k=k, seed=ctx.seed + 7),
                 f"random_word({k}) on {name} = {r[0]} {r[1] if r[0] == 'err' else 'a word of length ' + str(len(r[1]))}; "
                 f"expected an accepted word of length {k}")
        if cnt is not None:
            c = call(lambda: keep.count_words_of_length(k))
            if c != ("ok", cnt(k)):
                fail(ctx, d, "count_words_of_length", dict(k=k), f"count_words_of_length({k}) on {name} is not the exact count")


# --------------------------------------------------------------- round 2: open findings, contract, blind spots
def prop_card_counted(d: DFA):
    """cardinality() / len() / __len__() against the number of words obtained by FORWARD path
    counting (no enumeration, so the language may have 2^70 words)."""
    shape = L.language_shape(d)
    n_words = None
    if shape["finite"]:
        n_words = 0 if shape["empty"] else sum(L2.forward_counts(d, shape["max"]))
    bad, obs, known = prop_card(d, shape, {}, n_words=n_words)
    if shape["finite"]:
        me = on_fresh(d, lambda c: c.__len__())
        if me != ("ok", n_words):
            bad.append(f"__len__() = {me}, the language has {n_words} words")
    return bad, obs, known


@case_guard
def len_probes(ctx: Ctx):
    """G1 + G5: finite languages with up to 2^71 words.  cardinality() must be exact; len() must
    be the same number — which it is NOT from 2^63 on (OverflowError raised by the interpreter's
    Py_ssize_t conversion): open finding, reported under its key on every run.  The model's CARD
    answer (lenBuiltin) is compared as well: it has the overflow branch."""
    for expr, why in L2.LEN_PROBES:
        d = L2.eval_dfa(expr)
        ctx.case(("len_big", expr))
        ctx.stat("len_probe")
        bad, obs, known = prop_card_counted(d)
        for b in bad:
            ctx.prop_fail(f"{expr}: {b}", dict(automaton=expr, op="len_big", params={}, what=b), FAIL_KEY)
        for b in known:
            ctx.stat("len_probe:overflow_reproduced")
            ctx.prop_fail(f"len({expr}): {b}", dict(automaton=expr, op="len_big", params={}, what=b), L2.KEY_LEN)
        enc, _, _ = enc_dfa(d)
        mod = model_card(ctx, enc)
        if mod != obs and not bad:
            ctx.corr_diff("CARD(big)", dict(automaton=expr, why=why), obs, mod)


def prop_temporary(expr: str, meth: str):
    """A query on an unbound temporary must answer what the same query answers on a bound object.
    (failures, failures that are the open finding C06:cached-query-on-temporary)"""
    exp = L2.on_bound(expr, meth)
    got = L2.on_temporary(expr, meth)
    if got == exp:
        return [], []
    msg = f"({expr}).{meth}() on an unbound temporary = {got}; the same call on a bound object = {exp}"
    if got == ("err", "RuntimeError"):
        return [], [msg]
    return [msg], []


@case_guard
def temporaries_probe(ctx: Ctx):
    """X2: `DFA.universal_language({'a'}).cardinality()` — cached_method keeps only a weak reference
    to the receiver, so a cached query on a temporary raises RuntimeError.  Open finding owned by
    C06; reproduced here for C13's cached queries on every run."""
    for expr in L2.TEMP_EXPRS:
        for meth in L2.TEMP_METHODS:
            ctx.case(("temporary", expr, meth))
            ctx.stat("temporary_probe")
            bad, known = prop_temporary(expr, meth)
            for b in bad:
                ctx.prop_fail(b, dict(automaton=expr, op="temporary", params=dict(method=meth), what=b), FAIL_KEY)
            for b in known:
                ctx.stat("temporary_probe:runtime_error_reproduced")
                ctx.prop_fail(b, dict(automaton=expr, op="temporary", params=dict(method=meth), what=b), L2.KEY_TMP)


@case_guard
def dag_case(ctx: Ctx, nodes, edges, V, kind: str):
    """G3: the part of maximum_word_length that is modelled by contract.  networkx itself
    (the exact calls of the code) vs the model's contract function (driver DAGLEN) vs an
    independent DFS oracle."""
    ctx.case(("dag", tuple(edges), tuple(V)))
    ctx.stat(f"dag:{kind}")
    real = L2.networkx_longest(edges, nodes, V)
    orc = L2.longest_path_oracle(edges, V)
    ctx.stat("dag:unfeasible" if real is None else "dag:length")
    m = Toks(ctx.driver(L.DRV).ask(toks("DAGLEN", L2.enc_digraph(edges, V)))).optint()
    case = dict(nodes=len(nodes), edges=list(edges), V=list(V))
    if real != orc:
        ctx.corr_diff("networkx-contract", case, real, dict(dfs_oracle=orc))
    if m != real:
        ctx.corr_diff("DAGLEN", case, real, m)


def dag_family(ctx: Ctx):
    fixed = [
        ([0], [], [0], "single"), ([0], [(0, 0)], [0], "self_loop"), ([0, 1], [(0, 1), (1, 0)], [0, 1], "two_cycle"),
        ([0, 1], [(0, 1), (1, 0)], [0], "two_cycle+subset"), ([0, 1, 2], [(0, 1), (1, 2), (0, 2)], [2, 0, 1], "dag"),
        ([0, 1, 2], [(0, 1), (1, 2), (2, 2)], [0, 1], "self_loop+subset"),
    ]
    for nodes, edges, V, kind in fixed:
        dag_case(ctx, nodes, edges, V, kind)
    for _ in range(ctx.budget(150, 3000)):
        nodes, edges, V, kind = L2.rand_digraph(ctx.rng)
        dag_case(ctx, nodes, edges, V, kind)


def prop_count_counted(d: DFA, k: int, fck: int):
    v = on_fresh(d, lambda c: c.count_words_of_length(k))
    if v != ("ok", fck):
        return [f"count_words_of_length({k}) = {v}, forward path counting over the table gives {fck}"]
    return []


def prop_random_counted(d: DFA, k: int, seed: int, fck: int):
    r, choices, log = L.random_word_recorded(fresh(d), k, seed)
    out = []
    if fck == 0:
        if r != ("err", "ValueError"):
            out.append(f"random_word({k}) = {r} although no word of length {k} is accepted (ValueError expected)")
    elif r[0] != "ok":
        out.append(f"random_word({k}, seed={seed}) raised {r[1]} although {fck} words of length {k} exist")
    elif len(r[1]) != k or not d.accepts_input(r[1]):
        out.append(f"random_word({k}, seed={seed}) = {r[1]!r} is not an accepted word of length {k}")
    return out, r, choices


@case_guard
def check_big_dfa(ctx: Ctx, d: DFA, kind: str):
    """G5: DFAs with 10–14 states.  Words by brute force for the short lengths only; counts for
    every length ≤ 2n and the cardinality by forward path counting; min/max by subset simulation."""
    rng = ctx.rng
    enc, st, sy = enc_dfa(d)
    shape = L.language_shape(d)
    n = len(d.states)
    nontrivial = not shape["empty"]
    ctx.stat("origin:big")
    ctx.stat(f"kind:{kind}")
    ctx.stat(f"states:{n}")
    ctx.stat("lang:empty" if shape["empty"] else ("lang:finite" if shape["finite"] else "lang:infinite"))
    KB = 3 if len(d.input_symbols) > 1 else 6
    top = 2 * n
    bw = L.brute_words(d, KB)
    fc = L2.forward_counts(d, top)
    if [len(bw[k]) for k in range(KB + 1)] != fc[: KB + 1]:
        raise L.InfraError(f"oracles disagree (brute force vs forward counting) on {d!r}")
    mv, mct = model_count(ctx, enc, top)
    ks = sorted(set(range(KB + 1)) | {rng.randint(KB + 1, top) for _ in range(3)} | {top})
    for k in ks:
        ctx.case(("big-count", enc, k) if nontrivial else None)
        bad = prop_count_counted(d, k, fc[k])
        for b in bad:
            fail(ctx, d, "count_big", dict(k=k), b)
        if k <= KB:
            for b in prop_count_words(d, k, bw):
                bad.append(b)
                fail(ctx, d, "count_words", dict(k=k), b)
        ctx.stat("count:zero" if not fc[k] else "count:positive")
        if not bad and mct[k][st(d.initial_state)] != fc[k]:
            ctx.corr_diff("COUNT(big)", dict(automaton=repr(d), k=k), fc[k], mct[k][st(d.initial_state)])
    c = fresh(d)
    v = call(lambda: c.count_words_of_length(top))
    ct = [[lvl.get(q, 0) for q in st.order] for lvl in c._count_cache]
    if (v, ct) != (("ok", mv), mct):
        ctx.corr_diff("COUNT tables(big)", dict(automaton=repr(d), k=top), dict(v=v), dict(v=mv))
    # MINMAX
    ctx.case(("minmax", enc) if nontrivial else None)
    bad, obs = prop_minmax(d, shape)
    for b in bad:
        fail(ctx, d, "minmax", {}, b)
    t = Toks(ctx.driver(L.DRV).ask(toks("MINMAX", enc)))
    t.expect("min"); m_min = t.res(t.int)
    t.expect("max"); m_max = t.res(t.optint)
    t.expect("empty"); m_empty = ("ok", bool(t.int()))
    t.expect("finite"); m_fin = t.res(lambda: bool(t.int()))
    mod = dict(min=m_min, max=m_max, empty=m_empty, finite=m_fin)
    if mod != obs and not bad:
        ctx.corr_diff("MINMAX(big)", dict(automaton=repr(d)), obs, mod)
    # CARD
    ctx.case(("card", enc) if nontrivial else None)
    bad, obs, known = prop_card_counted(d)
    for b in bad:
        fail(ctx, d, "len_big", {}, b)
    for b in known:
        ctx.prop_fail(f"len: {b}", dict(automaton=repr(d), op="len_big", params={}, what=b), L2.KEY_LEN)
    mod = model_card(ctx, enc)
    if mod != obs and not bad:
        ctx.corr_diff("CARD(big)", dict(automaton=repr(d)), obs, mod)
    # ITER: the words of length ≤ KB are a prefix of the iteration
    ordered = [w for k in range(KB + 1) for w in bw[k]]
    npre = min(len(ordered), 6)
    ctx.case(("iter", enc, npre) if nontrivial else None)
    bad, got = prop_iter(d, npre, ordered[:npre])
    for b in bad:
        fail(ctx, d, "iter_big", dict(n=npre, KB=KB), b)
    ctx.stat("iter:prefix")
    # RANDOM
    for k in {rng.randint(0, KB), rng.randint(KB + 1, top)}:
        seed = rng.randrange(1 << 30)
        ctx.case(("random", enc, k, seed) if nontrivial else None)
        bad, r, choices = prop_random_counted(d, k, seed, fc[k])
        for b in bad:
            fail(ctx, d, "random_big", dict(k=k, seed=seed), b)
        t = Toks(ctx.driver(L.DRV).ask(toks("RANDOM", enc, k, len(choices), choices)))
        m = t.res(lambda: "".join(sy.back(c) for c in t.ints()))
        ctx.stat("random:valueerror" if r[0] == "err" else "random:word")
        if m != r and not bad:
            ctx.corr_diff("RANDOM(big)", dict(automaton=repr(d), k=k, choices=choices), r, m)


# --------------------------------------------------------------- round 3: several queries on ONE object
# A *session* is a list of C13 queries asked of one live object, one after the other (JSON-able steps):
#   count k | words k | words_part k n (generator opened, n words taken, left suspended) | iter n |
#   min | max | empty | finite | card | len | random k seed | clear (clear_cache) |
#   on_copy <step> (the step is asked of `live.copy()`, made at that moment and kept alive)
# The live object is built by L3.build_live (default options, or allow_mutable_automata=True with plain /
# aliased containers).  EVERY answer is judged by the oracles of this module evaluated on the frozen
# twin `ref` (the definition as built), never on the live object.
SESSION_TIMEOUT_S = 4
MINIMISE_BUDGET_S = 12


def sessions_hanging(ctx: Ctx, limit: int = 3) -> bool:
    """A query that no longer returns costs a full time-out: after a few of them the family stops (the
    failing inputs found so far are reported)."""
    if L.TIMEOUTS >= limit:
        if not any("session family cut short" in n for n in ctx.notes):
            ctx.note(f"{L.TIMEOUTS} real calls did not return within their time limit; session family cut short")
        return True
    return False


def show_step(s: dict) -> str:
    q = s["q"]
    if q == "on_copy":
        return "copy()." + show_step(s["sub"])
    return {"count": lambda: f"count_words_of_length({s['k']})", "words": lambda: f"list(words_of_length({s['k']}))",
            "words_part": lambda: f"first {s['n']} of words_of_length({s['k']})", "iter": lambda: f"first {s['n']} of iter()",
            "min": lambda: "minimum_word_length()", "max": lambda: "maximum_word_length()", "empty": lambda: "isempty()",
            "finite": lambda: "isfinite()", "card": lambda: "cardinality()", "len": lambda: "len()",
            "random": lambda: f"random_word({s['k']}, seed={s['seed']})", "clear": lambda: "clear_cache()"}[q]()


class Session:
    """Executes steps on one live object; keeps every generator / copy it made alive."""

    def __init__(self, live: DFA):
        self.x = live
        self.keep = []

    def do(self, s: dict, x: DFA = None):
        """(observation, recorded randint results or None)"""
        x = self.x if x is None else x
        q = s["q"]
        g = lambda f: L.guarded(f, SESSION_TIMEOUT_S)
        if q == "on_copy":
            c = call(lambda: x.copy())
            if c[0] == "err":
                return c, None
            self.keep.append(c[1])
            return self.do(s["sub"], c[1])
        if q == "count":
            return g(lambda: x.count_words_of_length(s["k"])), None
        if q == "words":
            return g(lambda: list(x.words_of_length(s["k"]))), None
        if q == "words_part":
            def part():
                it = x.words_of_length(s["k"])
                self.keep.append(it)
                return list(itertools.islice(it, s["n"]))
            return g(part), None
        if q == "iter":
            def pre():
                it = iter(x)
                self.keep.append(it)
                return list(itertools.islice(it, s["n"]))
            return g(pre), None
        if q == "random":
            signal_guard = L.guarded(lambda: L.random_word_recorded(x, s["k"], s["seed"]), SESSION_TIMEOUT_S)
            if signal_guard[0] == "err":
                return signal_guard, None
            r, choices, _ = signal_guard[1]
            return r, choices
        if q == "clear":
            return g(lambda: x.clear_cache()), None
        f = {"min": lambda: x.minimum_word_length(), "max": lambda: x.maximum_word_length(), "empty": lambda: x.isempty(),
             "finite": lambda: x.isfinite(), "card": lambda: x.cardinality(), "len": lambda: len(x)}[q]
        return g(f), None


class SessionOracle:
    """What the language of `ref` dictates for every step (brute force through ref.accepts_input, subset
    simulation for the lengths) — computed once per DFA."""

    def __init__(self, ref: DFA, K: int = None):
        self.ref = ref
        self.K = K_for(ref) if K is None else K
        self.shape = L.language_shape(ref)
        sh = self.shape
        self.hi = self.K if (not sh["finite"] or sh["empty"]) else max(self.K, sh["max"])
        self.bw = L.brute_words(ref, self.hi)
        self.ordered = [w for k in sorted(self.bw) for w in self.bw[k]]

    def in_range(self, s: dict) -> bool:
        """Can the oracle judge this step?  (lengths ≤ hi; a prefix of the iteration of an infinite language
        only as far as the enumerated words reach)"""
        if s["q"] == "on_copy":
            return self.in_range(s["sub"])
        if "k" in s and not 0 <= s["k"] <= self.hi:
            return False
        if s["q"] == "iter" and not self.shape["finite"] and s["n"] > len(self.ordered):
            return False
        return True

    def judge(self, s: dict, got):
        """None, or what is wrong with the observation `got` of step `s`."""
        q = s["q"]
        sh, bw = self.shape, self.bw
        if q == "on_copy":
            return self.judge(s["sub"], got)
        if q == "random":
            bwk = bw[s["k"]]
            if not bwk:
                return None if got == ("err", "ValueError") else \
                    f"= {got} although no word of length {s['k']} is accepted (ValueError expected)"
            if got[0] != "ok":
                return f"raised {got[1]} although {len(bwk)} words of length {s['k']} exist"
            w = got[1]
            if not isinstance(w, str) or len(w) != s["k"] or not self.ref.accepts_input(w):
                return f"= {w!r} is not an accepted word of length {s['k']}"
            return None
        if q == "count":
            exp, why = ("ok", len(bw[s["k"]])), f"the language has {len(bw[s['k']])} words of length {s['k']}"
        elif q == "words":
            exp, why = ("ok", bw[s["k"]]), "the sorted list of the accepted words of that length"
        elif q == "words_part":
            exp, why = ("ok", bw[s["k"]][: s["n"]]), "a prefix of the sorted list of the accepted words of that length"
        elif q == "iter":
            exp, why = ("ok", self.ordered[: s["n"]]), "the accepted words in (length, code point) order"
        elif q == "clear":
            exp, why = ("ok", None), "clear_cache() returns None"
        elif q in ("min", "max"):
            if sh["empty"]:
                exp = ("err", "EmptyLanguageException")
            else:
                exp = ("ok", sh["min"] if q == "min" else (sh["max"] if sh["finite"] else None))
            why = "the language dictates it"
        elif q == "empty":
            exp, why = ("ok", sh["empty"]), f"the language is {'empty' if sh['empty'] else 'not empty'}"
        elif q == "finite":
            exp, why = ("ok", sh["finite"]), f"the language is {'finite' if sh['finite'] else 'infinite'}"
        else:   # card / len
            exp = ("ok", len(self.ordered)) if sh["finite"] else ("err", "InfiniteLanguageException")
            why = "the number of accepted words" if sh["finite"] else "the language is infinite"
        if got == exp:
            return None
        return f"= {str(got)[:160]}, expected {str(exp)[:160]} ({why})"


def run_session(ref: DFA, mode: str, steps, orc: SessionOracle = None):
    """Build the live object, ask the steps, judge every answer.  Returns (observations, recorded RNG
    results, failures [(index, message)], definition drifted?)."""
    orc = orc or SessionOracle(ref, max([K_for(ref)] + [s.get("sub", s).get("k", 0) for s in steps]))
    obs, rec, bad = [], [], []
    with L3.mutable_option(mode):
        keep = []
        live = L3.build_live(ref, mode, keep)
        ses = Session(live)
        ses.keep.extend(keep)
        for i, s in enumerate(steps):
            got, choices = ses.do(s)
            obs.append(got)
            rec.append(choices)
            msg = orc.judge(s, got)
            if msg is not None:
                bad.append((i, "gave no answer within %d s" % SESSION_TIMEOUT_S if got == ("err", "_Timeout") else msg))
                break       # the first wrong answer ends the session
        drift = L3.definition_of(live) != L3.definition_of(ref)
    return obs, rec, bad, drift


def minimise_session(ref: DFA, mode: str, steps, index: int, orc: SessionOracle):
    """Shortest sub-sequence (greedy, one step at a time, within a time budget) that still ends in a wrong answer
    to steps[index]."""
    import time
    t0 = time.time()
    cur = list(steps[: index + 1])
    fails_at_end = lambda st: any(i == len(st) - 1 for i, _ in run_session(ref, mode, st, orc)[2])
    if not fails_at_end(cur):
        return cur      # not reproducible from a new object (left as recorded)
    j = len(cur) - 2
    while j >= 0 and len(cur) > 1 and time.time() - t0 < MINIMISE_BUDGET_S:
        cand = cur[:j] + cur[j + 1:]
        if fails_at_end(cand):
            cur = cand
        j -= 1
    return cur


def session_model(ctx: Ctx, ref: DFA, orc: SessionOracle, steps, obs, rec):
    """Correspondence on the live object: every answer the oracle accepted must also be the model's answer
    for the definition as built (stateless commands COUNT / WORDS / MINMAX / CARD / ITER / RANDOM)."""
    enc, st, sy = enc_dfa(ref)
    q0 = st(ref.initial_state)
    kinds = {s.get("sub", s)["q"] if s["q"] == "on_copy" else s["q"] for s in steps}
    w2s = lambda w: "".join(sy.back(c) for c in w)
    K = orc.hi
    mct = mwt = mm = mc = None
    if kinds & {"count"}:
        mct = model_count(ctx, enc, K)[1]
    if kinds & {"words", "words_part"}:
        mwt = model_words(ctx, enc, K)[1]
    if kinds & {"min", "max", "empty", "finite"}:
        t = Toks(ctx.driver(L.DRV).ask(toks("MINMAX", enc)))
        t.expect("min"); m_min = t.res(t.int)
        t.expect("max"); m_max = t.res(t.optint)
        t.expect("empty"); m_empty = ("ok", bool(t.int()))
        t.expect("finite"); m_fin = t.res(lambda: bool(t.int()))
        mm = dict(min=m_min, max=m_max, empty=m_empty, finite=m_fin)
    if kinds & {"card", "len"}:
        mc = model_card(ctx, enc)
    for s0, got, choices in zip(steps, obs, rec):
        s = s0["sub"] if s0["q"] == "on_copy" else s0
        q = s["q"]
        if q == "count":
            m = ("ok", mct[s["k"]][q0])
        elif q == "words":
            m = ("ok", [w2s(w) for w in mwt[s["k"]][q0]])
        elif q == "words_part":
            m = ("ok", [w2s(w) for w in mwt[s["k"]][q0]][: s["n"]])
        elif q in ("min", "max", "empty", "finite"):
            m = mm[q]
        elif q in ("card", "len"):
            m = mc[q]
        elif q == "iter":
            t = Toks(ctx.driver(L.DRV).ask(toks("ITER", enc, s["n"], orc.hi + 3)))
            r = t.res(lambda: (L.rd_words(t), t.next()))
            if r[0] == "ok" and r[1][1] == "outOfFuel":
                ctx.stat("session:iter_model_out_of_fuel")
                continue
            m = ("ok", [w2s(w) for w in r[1][0]]) if r[0] == "ok" else r
        elif q == "random":
            t = Toks(ctx.driver(L.DRV).ask(toks("RANDOM", enc, s["k"], len(choices or []), choices or [])))
            m = t.res(lambda: w2s(t.ints()))
        else:
            continue
        ctx.stat("session:answer_compared_with_model")
        if m != got:
            ctx.corr_diff("SESSION " + q, dict(automaton=repr(ref), step=s0), got, m)


@case_guard
def check_session(ctx: Ctx, ref: DFA, mode: str, steps, origin: str, orc: SessionOracle = None, model: bool = True):
    if sessions_hanging(ctx):
        return
    orc = orc or SessionOracle(ref)
    steps = [s for s in steps if orc.in_range(s)]
    obs, rec, bad, drift = run_session(ref, mode, steps, orc)
    nontrivial = (not orc.shape["empty"]) and len(ref.states) >= 2 and len(steps) >= 2
    for s in steps[: len(obs)]:
        ctx.case(None)
        ctx.stat("session_q:" + (s["q"] if s["q"] != "on_copy" else "on_copy." + s["sub"]["q"]))
    ctx.case(("session", mode, enc_dfa(ref)[0], json.dumps(steps, sort_keys=True)) if nontrivial else None)
    ctx.stat(f"session:{origin}:{mode}")
    ctx.stat(f"session_len:{min(len(steps) // 4 * 4, 16)}+")
    if drift:
        # not judged here (C18 owns "no call changes an operand"); the ANSWERS are what C13 is about
        ctx.stat("session:definition_of_live_object_changed")
    if ctx.stats.get(f"session:{origin}:{mode}", 0) % 150 == 1:
        ctx.sample(dict(automaton=repr(ref), mode=mode, session=[show_step(s) for s in steps[:8]],
                        answers=[str(o)[:50] for o in obs[:8]]))
    if bad:
        i, msg = bad[0]
        small = steps[: i + 1] if obs[i] == ("err", "_Timeout") else minimise_session(ref, mode, steps, i, orc)
        hist = "; ".join(show_step(s) for s in small[:-1])
        what = (f"{show_step(steps[i])} {msg} — asked of ONE object ({describe_mode(mode)}) after [{hist}]"
                if small[:-1] else f"{show_step(steps[i])} {msg} — first query on an object ({describe_mode(mode)})")
        ctx.prop_fail(what, dict(automaton=repr(ref), op="session", params=dict(mode=mode, steps=small), what=what), FAIL_KEY)
        return
    if model:
        session_model(ctx, ref, orc, steps, obs, rec)


def describe_mode(mode: str) -> str:
    return {"frozen": "default options", "plain": "allow_mutable_automata=True, plain set/dict containers",
            "aliased": "allow_mutable_automata=True, plain containers, equal containers shared",
            "copy_of_plain": "allow_mutable_automata=True, copy() of an object with plain containers"}[mode]


def rand_step(rng, orc: SessionOracle, allow_copy: bool = True) -> dict:
    K = orc.K
    k = rng.choice([0, 1, 2, K, rng.randint(0, K), rng.randint(0, K)])
    total = len(orc.ordered)
    r = rng.random()
    if r < 0.14:
        return dict(q="count", k=k)
    if r < 0.28:
        return dict(q="words", k=k)
    if r < 0.34:
        return dict(q="words_part", k=k, n=rng.randint(0, max(1, len(orc.bw[k]))))
    if r < 0.48:
        n = rng.choice([total + 2, total, rng.randint(0, total + 1), min(total, 5)])
        return dict(q="iter", n=n if orc.shape["finite"] else min(n, total))
    if r < 0.54:
        return dict(q="min")
    if r < 0.62:
        return dict(q="max")
    if r < 0.65:
        return dict(q="empty")
    if r < 0.71:
        return dict(q="finite")
    if r < 0.78:
        return dict(q="card")
    if r < 0.83:
        return dict(q="len")
    if r < 0.92:
        return dict(q="random", k=k, seed=rng.randrange(1 << 30))
    if r < 0.95 or not allow_copy:
        return dict(q="clear")
    return dict(q="on_copy", sub=rand_step(rng, orc, allow_copy=False))


def rand_session(rng, orc: SessionOracle):
    """2–5 base queries, then the same queries once more in another order (every query is asked at least
    twice, interleaved with the others), plus up to three extra ones anywhere."""
    base = [rand_step(rng, orc) for _ in range(rng.randint(2, 5))]
    again = [dict(s) for s in base]
    rng.shuffle(again)
    seq = base + again
    for _ in range(rng.randint(0, 3)):
        seq.insert(rng.randrange(len(seq) + 1), rand_step(rng, orc))
    return seq


def battery_session(orc: SessionOracle, variant: int = 0):
    """A fixed sequence: enumeration / counting first, then the length queries, then every enumeration /
    counting / sampling query AGAIN (variant 1: the length queries first)."""
    total = len(orc.ordered)
    n_it = total + 2 if orc.shape["finite"] else min(total, 6)
    ks = list(range(min(orc.K, 3) + 1))
    enum = [dict(q="words", k=k) for k in ks] + [dict(q="iter", n=n_it)] + [dict(q="count", k=k) for k in ks]
    lens = [dict(q="max"), dict(q="finite"), dict(q="min"), dict(q="card"), dict(q="len"), dict(q="empty")]
    rnd = [dict(q="random", k=k, seed=11 + k) for k in ks]
    if variant == 0:
        return enum + lens + [dict(s) for s in enum] + rnd + [dict(q="iter", n=n_it), dict(q="card")]
    if variant == 1:
        return lens + enum + rnd + [dict(s) for s in enum] + [dict(s) for s in lens]
    return [dict(q="iter", n=n_it), dict(q="on_copy", sub=dict(q="card")), dict(q="iter", n=n_it)] + enum + \
        [dict(q="clear")] + [dict(s) for s in enum] + lens


def session_corpus():
    abc = {"a", "b", "c"}
    ab = {"a", "b"}
    yield DFA(states={0, 1, 2, 3}, input_symbols=abc, transitions={0: {"a": 1}, 1: {"b": 2}, 2: {"c": 3}, 3: {}},
              initial_state=0, final_states={1, 3}, allow_partial=True)                      # {a, abc}
    yield DFA(states={0, 1, 2}, input_symbols=ab, transitions={0: {"a": 1}, 1: {"b": 2}, 2: {"a": 1}},
              initial_state=0, final_states={2}, allow_partial=True)                          # a(ba)*b
    yield DFA.from_finite_language(ab, {"ab", "ba", "abab"})
    yield DFA.from_substring({"0", "1"}, "11", contains=False)
    yield DFA.of_length(ab, min_length=1, max_length=3)
    yield DFA(states={0, 1}, input_symbols={"a"}, transitions={0: {"a": 0}, 1: {"a": 1}}, initial_state=0, final_states={1})
    yield DFA.universal_language(ab)      # all states final: `aliased` shares ONE set for states and final_states
    yield DFA(states={0, 1}, input_symbols=ab, transitions={0: {"a": 1, "b": 1}, 1: {"a": 1, "b": 1}}, initial_state=0,
              final_states={0, 1})        # equal rows and all states final


def session_family(ctx: Ctx):
    rng = ctx.rng
    for ref in session_corpus():
        orc = SessionOracle(ref)
        for mode in L3.LIVE_MODES:
            for v in (0, 1, 2):
                check_session(ctx, ref, mode, battery_session(orc, v), "corpus", orc)
    every = 1 if ctx.thorough() else 3
    i = 0
    for n_states in (1, 2):
        for ref in gen.all_dfas(n_states, ("a", "b")):
            i += 1
            orc = SessionOracle(ref, 4)
            for j, mode in enumerate(L3.LIVE_MODES):
                if every == 1 or (i + j) % every == 0:
                    check_session(ctx, ref, mode, battery_session(orc, (i + j) % 3), "exhaustive", orc,
                                  model=ctx.thorough())
    ctx.exhaustive("all DFAs with ≤2 states over {a,b}: a fixed battery of ≈25 queries on ONE object (every enumeration / "
                   "count asked twice around the length queries), object built under the default options and under "
                   "allow_mutable_automata=True from plain / aliased containers / as a copy"
                   + ("" if ctx.thorough() else " (each DFA in one or two of the four modes)"))
    for _ in range(ctx.budget(450, 9000)):
        ref, kind = L.shaped_dfa(rng, 6)
        orc = SessionOracle(ref)
        ctx.stat(f"session_kind:{kind}")
        for mode in rng.sample(L3.LIVE_MODES, 2):
            check_session(ctx, ref, mode, rand_session(rng, orc), "random", orc)


# --------------------------------------------------------------- round 4: objects DERIVED from a queried object
# A *derivation case*: C13 queries are asked of a live source object (`pre`, judged like any session), THEN a new
# DFA is made from it by a library operation (H.DERIVE: complement with both minify values / ~ / copy /
# to_complete / to_partial / minify / the boolean operations with the object itself or with a second DFA on
# either side), and the C13 queries are asked of the DERIVED object; optionally a second object is derived from the
# first derived one, and at the end the source is asked again.  Every answer is judged by the oracles of this
# module on the definition of the object that was ASKED — for a derived object: a twin built from its own
# states / transitions / initial / final states right after the derivation (whether the operation computed the
# right language is C04/C05's business; here the derived object must answer for ITSELF, not for its parent).
DERIVED_ORACLE_WORDS = 20000


def bounded_oracle(ref: DFA):
    """SessionOracle(ref), or None when enumerating the words it needs would be too expensive."""
    sh = L.language_shape(ref)
    K = K_for(ref)
    hi = K if (not sh["finite"] or sh["empty"]) else max(K, sh["max"])
    m = len(ref.input_symbols)
    if sum(m ** k for k in range(hi + 1)) > DERIVED_ORACLE_WORDS:
        return None
    return SessionOracle(ref)


def _ask(ses: Session, orc: SessionOracle, steps, who: str):
    """Ask the steps, judge each; (index, message) of the first wrong answer or None."""
    for i, s in enumerate(steps):
        if not orc.in_range(s):
            continue
        got, _ = ses.do(s)
        msg = orc.judge(s, got)
        if msg is not None:
            return i, ("gave no answer within %d s" % SESSION_TIMEOUT_S if got == ("err", "_Timeout") else msg)
    return None


def run_derived(src_ref: DFA, other_ref, case: dict, oracles: dict = None):
    """Execute a derivation case from new objects.  Returns dict(fail=(where, index, message) or None,
    derive_error=..., defs=[definitions of the derived objects], skipped=bool).  `oracles`: cache
    {definition repr -> SessionOracle or None} shared between the first run and the minimiser."""
    oracles = {} if oracles is None else oracles
    mode = case.get("mode", "frozen")

    def oracle_for(ref):
        key = repr(ref)
        if key not in oracles:
            oracles[key] = bounded_oracle(ref)
        return oracles[key]

    out = dict(fail=None, derive_error=None, defs=[], skipped=False)
    with L3.mutable_option(mode):
        keep = []
        src = L3.build_live(src_ref, mode, keep)
        other = L3.build_live(other_ref, mode, keep) if other_ref is not None else None
        ses_src = Session(src)
        orc_src = oracle_for(src_ref)
        if orc_src is None:
            out["skipped"] = True
            return out
        r = _ask(ses_src, orc_src, case["pre"], "source")
        if r:
            out["fail"] = ("pre", r[0], r[1])
            return out
        if other is not None and case.get("other_pre"):
            orc_o = oracle_for(other_ref)
            if orc_o is not None:
                ses_o = Session(other)
                keep.append(ses_o)
                r = _ask(ses_o, orc_o, case["other_pre"], "other")
                if r:
                    out["fail"] = ("other_pre", r[0], r[1])
                    return out
        cur = src
        for j, st in enumerate(case["stages"]):
            d = call(lambda: H.derive(st["derive"], cur, other))
            if d[0] == "err":
                out["derive_error"] = (j, d[1])
                return out
            D = d[1]
            keep.append(D)
            with L3.mutable_option("frozen"):
                dref = H.twin_of(D)
            out["defs"].append(dref)
            orc = oracle_for(dref)
            if orc is None:
                out["skipped"] = True
                return out
            r = _ask(Session(D), orc, st["steps"], f"D{j + 1}")
            if r:
                out["fail"] = (j, r[0], r[1])
                return out
            cur = D
        r = _ask(ses_src, orc_src, case.get("src_post", []), "source")
        if r:
            out["fail"] = ("src_post", r[0], r[1])
    return out


def show_derivation(case: dict, upto_stage) -> str:
    parts = []
    if case["pre"]:
        parts.append("queried the source d: " + "; ".join(show_step(s) for s in case["pre"]))
    if case.get("other_pre"):
        parts.append("queried other: " + "; ".join(show_step(s) for s in case["other_pre"]))
    prev = "d"
    stages = case["stages"] if not isinstance(upto_stage, int) else case["stages"][: upto_stage + 1]
    for j, st in enumerate(stages):
        name = st["derive"]
        expr = name.replace("d", prev) if name in ("~d", "d ^ d", "d | other", "d & other", "other - d", "d ^ other") else \
            (name.replace("(d", f"({prev}") if name.startswith("other.") else f"{prev}." + name.replace("(d,", f"({prev},"))
        parts.append(f"D{j + 1} = {expr}")
        prev = f"D{j + 1}"
    return "; then ".join(parts)


def minimise_derived(src_ref, other_ref, case: dict, fail, oracles):
    """Drop pre-queries / earlier queries on the derived object / later stages while the same answer stays wrong."""
    import copy
    import time
    t0 = time.time()
    where, idx, _ = fail
    cur = copy.deepcopy(case)
    # cut everything after the failing step
    if isinstance(where, int):
        cur["stages"] = cur["stages"][: where + 1]
        cur["stages"][where]["steps"] = cur["stages"][where]["steps"][: idx + 1]
        cur["src_post"] = []
    elif where == "src_post":
        cur["src_post"] = cur["src_post"][: idx + 1]
    else:
        return cur

    def target(c):
        return c["stages"][where]["steps"] if isinstance(where, int) else c["src_post"]

    def still(c):
        f = run_derived(src_ref, other_ref, c, oracles)["fail"]
        return f is not None and f[0] == where and f[1] == len(target(c)) - 1
    if not still(cur):
        return cur
    lists = [("pre", None), ("other_pre", None)] + [("stages", j) for j in range(len(cur["stages"]))]
    for name, j in lists:
        get = (lambda c: c["stages"][j]["steps"]) if name == "stages" else (lambda c: c.get(name, []))
        i = len(get(cur)) - (2 if (name == "stages" and j == where) else 1)
        while i >= 0 and time.time() - t0 < MINIMISE_BUDGET_S:
            cand = copy.deepcopy(cur)
            del get(cand)[i]
            if still(cand):
                cur = cand
            i -= 1
    return cur


@case_guard
def check_derived(ctx: Ctx, src_ref: DFA, other_ref, case: dict, origin: str):
    if sessions_hanging(ctx):
        return
    oracles = {}
    out = run_derived(src_ref, other_ref, case, oracles)
    ctx.stat(f"derived:{origin}:{case.get('mode', 'frozen')}")
    for st in case["stages"]:
        ctx.stat("derived_by:" + st["derive"])
    n_asked = len(case["pre"]) + sum(len(st["steps"]) for st in case["stages"]) + len(case.get("src_post", []))
    for _ in range(n_asked):
        ctx.case(None)
    nontrivial = len(src_ref.states) >= 2 and bool(out["defs"]) and any(
        oracles.get(repr(d)) is not None and not oracles[repr(d)].shape["empty"] for d in out["defs"])
    ctx.case(("derived", repr(src_ref), repr(other_ref), json.dumps(case, sort_keys=True)) if nontrivial else None)
    if out["skipped"]:
        ctx.stat("derived:skipped_oracle_too_large")
        return
    if out["derive_error"]:
        j, exc = out["derive_error"]
        ctx.stat("derived:derivation_raised")
        ctx.corr_diff("DERIVE", dict(automaton=repr(src_ref), other=repr(other_ref), case=case),
                      f"{case['stages'][j]['derive']} raised {exc}", "a DFA (C04/C05 own the operation)")
        return
    for d in out["defs"]:
        o = oracles.get(repr(d))
        if o is not None:
            ctx.stat("derived_lang:" + ("empty" if o.shape["empty"] else ("finite" if o.shape["finite"] else "infinite")))
    if out["fail"]:
        small = minimise_derived(src_ref, other_ref, case, out["fail"], oracles)
        f = run_derived(src_ref, other_ref, small, oracles)["fail"] or out["fail"]
        if f is out["fail"]:
            small = case
        where, idx, msg = f
        steps = small["stages"][where]["steps"] if isinstance(where, int) else small[where]
        who = f"D{where + 1}" if isinstance(where, int) else ("other" if where == "other_pre" else "the source d")
        what = (f"{show_step(steps[idx])} asked of {who} {msg} — history: {show_derivation(small, where)}"
                + (f"; earlier queries on {who}: " + "; ".join(show_step(s) for s in steps[:idx]) if idx else ""))
        ctx.prop_fail(what, dict(automaton=repr(src_ref), op="derived",
                                 params=dict(other=(repr(other_ref) if other_ref is not None else None), case=small),
                                 what=what), FAIL_KEY)


LEN_STEPS = [dict(q="empty"), dict(q="finite"), dict(q="min"), dict(q="max"), dict(q="card"), dict(q="len")]


def derived_steps(rng, orc: SessionOracle, n_extra: int):
    """The length / cardinality / iteration queries (shuffled sample) plus counting / enumeration / sampling ones."""
    total = len(orc.ordered)
    steps = [dict(s) for s in rng.sample(LEN_STEPS, rng.randint(3, 6))]
    steps.append(dict(q="iter", n=(total + 2 if orc.shape["finite"] else min(total, 6))))
    steps += [rand_step(rng, orc, allow_copy=False) for _ in range(n_extra)]
    rng.shuffle(steps)
    return steps


def rand_derivation(rng, src_ref: DFA):
    """(other_ref or None, case) — post steps are drawn with the help of a scratch derivation from an unqueried
    copy (only to know which lengths are worth asking about); the run derives again from the queried object."""
    al = sorted(src_ref.input_symbols)
    names = [rng.choice(H.DERIVE_NAMES)]
    if rng.random() < 0.3:
        names.append(rng.choice(H.DERIVE_NAMES))
    other_ref = gen.rand_dfa(rng, 3, al) if any(H.DERIVE[n][0] for n in names) else None
    orc_src = bounded_oracle(src_ref)
    if orc_src is None:
        return None
    pre_pool = LEN_STEPS + [dict(q="iter", n=min(len(orc_src.ordered), 4))]
    pre = [dict(s) for s in rng.sample(pre_pool, rng.randint(1, 4))]
    if rng.random() < 0.4:
        pre.insert(rng.randrange(len(pre) + 1), rand_step(rng, orc_src, allow_copy=False))
    case = dict(mode=("frozen" if rng.random() < 0.75 else "plain"), pre=pre, stages=[], src_post=[])
    if other_ref is not None and rng.random() < 0.5:
        orc_o = bounded_oracle(other_ref)
        if orc_o is not None:
            case["other_pre"] = [dict(s) for s in rng.sample(LEN_STEPS, rng.randint(1, 3))]
    cur = src_ref.copy()
    for n in names:
        d = call(lambda: H.derive(n, cur, other_ref))
        if d[0] == "err":
            break
        cur = d[1]
        orc = bounded_oracle(H.twin_of(cur))
        if orc is None:
            break
        case["stages"].append(dict(derive=n, steps=derived_steps(rng, orc, rng.randint(0, 2))))
    if not case["stages"]:
        return None
    case["src_post"] = [dict(s) for s in rng.sample(LEN_STEPS, rng.randint(1, 3))] + \
        ([dict(q="iter", n=min(len(orc_src.ordered), 4))] if rng.random() < 0.5 else [])
    return other_ref, case


def derived_corpus():
    ab = {"a", "b"}
    # words of length ≤ 2 (complement: length ≥ 3); no two consecutive b; everything; nothing; a finite language
    yield DFA.of_length(ab, min_length=0, max_length=2).to_complete()
    yield DFA.from_substring(ab, "bb", contains=False).to_complete()
    yield DFA.universal_language(ab)
    yield DFA.empty_language(ab)
    yield DFA.from_finite_language(ab, {"ab", "ba", "abab"})
    yield DFA(states={0, 1}, input_symbols={"a"}, transitions={0: {"a": 1}, 1: {"a": 0}}, initial_state=0, final_states={1})


def new_fails(ctx: Ctx) -> int:
    """Failures recorded so far that are not hits of an open finding."""
    return sum(1 for f in ctx.prop_fails if f["key"] is None)


def derived_family(ctx: Ctx, n_random: int):
    rng = ctx.rng
    other = DFA.from_finite_language({"a", "b"}, {"a", "bb"})
    warm = [dict(q="empty"), dict(q="finite"), dict(q="min"), dict(q="max"), dict(q="len")]
    for src in derived_corpus():
        al = set(src.input_symbols)
        o = other if al == {"a", "b"} else DFA.of_length(al, min_length=1, max_length=2)
        for name in H.DERIVE_NAMES:
            scratch = call(lambda: H.derive(name, src.copy(), o))
            if scratch[0] == "err":
                continue
            orc = bounded_oracle(H.twin_of(scratch[1]))
            if orc is None:
                continue
            total = len(orc.ordered)
            post = [dict(s) for s in LEN_STEPS] + [dict(q="iter", n=(total + 2 if orc.shape["finite"] else min(total, 6))),
                                                   dict(q="count", k=2), dict(q="words", k=1)]
            for pre in ([], warm):
                check_derived(ctx, src, o if H.DERIVE[name][0] else None,
                              dict(mode="frozen", pre=[dict(s) for s in pre], stages=[dict(derive=name, steps=post)],
                                   src_post=[dict(s) for s in warm]), "corpus")
        if new_fails(ctx) >= 3:
            return
    for _ in range(n_random):
        r = rng.random()
        if r < 0.5:
            src = gen.rand_dfa(rng, 5, partial=False)
        else:
            src = L.shaped_dfa(rng, 5)[0]
        rd = rand_derivation(rng, src)
        if rd is None:
            ctx.stat("derived:not_generated")
            continue
        check_derived(ctx, src, rd[0], rd[1], "random")
        if new_fails(ctx) >= 6:
            return


# --------------------------------------------------------------- round 5: DEEP DFAs (size thresholds of the algorithms)
# The property quantifies over ALL valid DFAs; every generator above stops at 14 states, so nothing ever walked a
# simple path of more than a dozen useful states.  An implementation of a query that is right on every small DFA
# can still fail from some SIZE on: a recursive search / recursive DP hits Python's recursion limit near 1000
# frames (RecursionError instead of the answer), a quadratic or worse traversal no longer answers in reasonable
# time.  This family builds a handful of automata with simple paths of 1000–5000 states through the library's own
# constructors — DFA.of_length with min = max in the thousands, with min = 0 (every state final), without upper
# bound (a chain that ends in a cycle), DFA.from_finite_language with a word of 1000+ symbols and a one-letter
# word next to it, hand-written partial chains: plain, with a short side branch, ending in a live cycle, ending in
# a DEAD cycle, without any final state — and asks every C13 query.  The languages are known in CLOSED FORM from
# the construction parameters (harness/dfa_query_deep.py), so the answers need neither the library nor the Lean
# model: NO model round trip is made for these cases (stat `deep:closed_form_oracle_no_model_round_trip`).  The
# closed form is tied to the real objects twice: (1) `selfcheck`: its membership predicate is compared with the
# real accepts_input on the boundary words of each deep automaton; (2) `deep_small_twins`: the same specs scaled
# down to ≤ 12 states are judged by the closed form AND by the brute-force SessionOracle (every answer of the
# two oracles must coincide).
# Cost: the linear queries (min / max / isfinite / isempty, short prefixes / small k on huge automata) are asked
# of automata with 1500–5000 states, one fresh copy per query; the queries whose DP tables are inherently
# (length × states) — count / random_word / cardinality / len at the depth of the chain, words_of_length and
# iteration of words that deep — are asked of automata with 1030–1120 states, several of them of ONE object so that
# the tables are built once.  A failing step is re-asked alone on a newly built object (and the recorded replay
# shrinks to that one step when it fails alone).
DEEP_TIMEOUT_S = 20


def deep_do(x: DFA, s: dict, keep: list):
    """One query on the live object x: ("ok", value) / ("err", class name) / ("err", "_Timeout")."""
    q = s["q"]
    g = lambda f: L.guarded(f, DEEP_TIMEOUT_S)
    if q == "count":
        return g(lambda: x.count_words_of_length(s["k"]))
    if q == "words":
        return g(lambda: list(x.words_of_length(s["k"])))
    if q == "iter":
        def pre():
            it = iter(x)
            keep.append(it)
            return list(itertools.islice(it, s["n"]))
        return g(pre)
    if q == "random":
        return g(lambda: x.random_word(s["k"], seed=s["seed"]))
    f = {"min": lambda: x.minimum_word_length(), "max": lambda: x.maximum_word_length(), "empty": lambda: x.isempty(),
         "finite": lambda: x.isfinite(), "card": lambda: x.cardinality(), "len": lambda: len(x)}[q]
    return g(f)


def run_deep(lang: "DP.DeepLang", steps, built: DFA = None):
    """Ask the steps of ONE fresh object built from the spec; (index, message, observation) of the first wrong
    answer, or None."""
    d = (built if built is not None else lang.build()).copy()
    keep = [d]
    for i, s in enumerate(steps):
        got = deep_do(d, s, keep)
        msg = DP.judge(lang, s, got)
        if msg is not None:
            if got == ("err", "_Timeout"):
                msg = f"gave no answer within {DEEP_TIMEOUT_S} s (expected {DP.short(DP.expected(lang, s)[1])})"
            return i, msg, got
    return None


def deep_what(lang, steps, i, msg) -> str:
    hist = "; ".join(show_step(s) for s in steps[:i])
    return (f"{show_step(steps[i])} {msg} — on {lang.expr()} ({lang.n_states_expected()}+ states on one simple path)"
            + (f", asked of ONE object after [{hist}]" if hist else ", first query on a fresh object"))


def deep_selfcheck(ctx: Ctx, lang, d: DFA) -> bool:
    """The closed-form membership predicate vs the real accepts_input on the boundary words."""
    for w in lang.probe_words(ctx.rng):
        ctx.stat("deep:selfcheck_words_through_accepts_input")
        real = call(lambda: d.accepts_input(w))
        if real != ("ok", lang.member(w)):
            ctx.stat("deep:selfcheck_disagreement")
            ctx.corr_diff("deep-closed-form", dict(automaton=lang.expr(), spec=lang.spec, word=DP.short(w)),
                          dict(accepts_input=real), dict(closed_form_member=lang.member(w)))
            return False
    return True


@case_guard
def check_deep(ctx: Ctx, spec: dict, groups, origin: str):
    """groups: lists of steps; every group is asked of ONE fresh copy of the automaton built from `spec`."""
    if L.TIMEOUTS >= 2 or new_fails(ctx) >= 4:
        ctx.stat("deep:skipped_after_failures")
        return
    lang = DP.DeepLang(spec)
    b = call(lang.build)
    if b[0] == "err":
        # whether the constructor works on such sizes is C15's statement
        ctx.stat("deep:construction_raised")
        ctx.corr_diff("deep-construction", dict(automaton=lang.expr(), spec=spec), f"raised {b[1]}", "a DFA")
        return
    d = b[1]
    ctx.stat(f"deep:{origin}:{lang.kind}")
    ctx.stat(f"deep:{origin}:lang:{lang.shape_name()}")
    if origin == "deep":
        ctx.stat(f"deep:states:{len(d.states) // 500 * 500}+")
        ctx.stat("deep:closed_form_oracle_no_model_round_trip")
    if not deep_selfcheck(ctx, lang, d):
        return
    if ctx.stats.get(f"deep:{origin}:{lang.kind}", 0) == 1:
        ctx.sample(dict(automaton=lang.expr(), states=len(d.states), closed_form=dict(
            min=lang.min(), max=lang.max(), finite=lang.finite(), cardinality=DP.short(lang.card()),
            first_words=DP.short(lang.first(3))), groups=[[show_step(s) for s in g] for g in groups[:6]]))
    for steps in groups:
        for s in steps:
            ctx.case(("deep", json.dumps(spec, sort_keys=True), json.dumps(s, sort_keys=True))
                     if not lang.empty() else None)
            ctx.stat(f"{origin}_q:{s['q']}")
        if len(steps) > 1:
            ctx.stat(f"deep:{origin}:several_queries_on_one_object")
        r = run_deep(lang, steps, d)
        if r is None:
            continue
        i, msg, got = r
        # re-confirm on a newly built object: the step alone, else the recorded prefix
        small = None
        for cand in ([steps[i]], steps[: i + 1]):
            r2 = run_deep(lang, cand)
            if r2 is not None and r2[0] == len(cand) - 1:
                small, msg = cand, r2[1]
                break
        if small is None:
            ctx.stat("deep:failure_not_reproduced")
            if got == ("err", "_Timeout"):
                ctx.note(f"deep family: {show_step(steps[i])} on {lang.expr()} timed out once and answered on the second try")
            else:
                ctx.corr_diff("deep-not-reproduced", dict(automaton=lang.expr(), spec=spec, steps=steps[: i + 1]),
                              DP.short(got), DP.short(DP.expected(lang, steps[i])[1]))
            continue
        what = deep_what(lang, small, len(small) - 1, msg)
        ctx.prop_fail(what, dict(automaton=lang.expr(), op="deep", params=dict(spec=spec, steps=small), what=what), FAIL_KEY)
        if L.TIMEOUTS >= 2 or new_fails(ctx) >= 4:
            return


def singles(*steps):
    return [[dict(s)] for s in steps]


Q = dict(min=dict(q="min"), max=dict(q="max"), finite=dict(q="finite"), empty=dict(q="empty"), card=dict(q="card"),
         len=dict(q="len"))
LINEAR = [Q["max"], Q["finite"], Q["min"], Q["empty"]]


def deep_plan(rng, thorough: bool):
    """[(spec, groups)] — sizes are drawn from rng, the shapes are fixed (each query is covered every run)."""
    ab, a = ["a", "b"], ["a"]
    sd = lambda: rng.randrange(1 << 30)
    big = lambda: rng.randint(3000, 5000)
    mid = lambda: rng.randint(1500, 2500)
    quad = lambda: rng.randint(1030, 1120)      # just above the recursion limit: the (length × states) tables
    plan = []
    # A1: all words of length exactly N over two symbols (the chain has N+1 useful states)
    n = big()
    plan.append((dict(kind="of_length", syms=ab, lo=n, hi=n),
                 singles(*LINEAR, dict(q="count", k=rng.randint(0, 6)), dict(q="words", k=2),
                         dict(q="random", k=rng.randint(0, 5), seed=sd()))))
    # A2: all words of length ≤ N (every state final): short prefixes / small k on a huge automaton
    n = big()
    plan.append((dict(kind="of_length", syms=ab, lo=0, hi=n),
                 singles(*LINEAR, dict(q="iter", n=rng.randint(4, 9)), dict(q="count", k=rng.randint(5, 10)),
                         dict(q="words", k=3), dict(q="random", k=rng.randint(4, 9), seed=sd()))))
    # A3: a^N a* — a chain ending in a cycle (self-loop)
    n = big()
    plan.append((dict(kind="of_length", syms=a, lo=n, hi=None),
                 singles(*LINEAR, Q["card"], Q["len"], dict(q="count", k=rng.randint(0, 6)),
                         dict(q="random", k=rng.randint(0, 5), seed=sd()))))
    # A4: {b, (ab)^M}: a word of 1500–2500 symbols next to a one-letter word
    m = mid() // 2
    plan.append((dict(kind="finite_language", syms=ab, words=[["b", 1, ""], ["ab", m, ""]]),
                 singles(*LINEAR, dict(q="iter", n=1), dict(q="count", k=1), dict(q="words", k=1),
                         dict(q="random", k=1, seed=sd()))))
    # A5: hand-written chain with a short side branch near its start
    n, j, ln = mid(), rng.randint(2, 9), rng.randint(1, 3)
    sp = dict(kind="chain", syms=ab, n=n, pat="ab", finals=[n], back=None, branch=[j, "ab"[(j + 1) % 2], ln])
    plan.append((sp, singles(*LINEAR, dict(q="iter", n=1), dict(q="count", k=j + ln), dict(q="words", k=j + ln),
                             dict(q="random", k=j + ln, seed=sd()))))
    # A6: hand-written chain ending in a live cycle of 2–5 states
    n, c = mid(), rng.randint(2, 5)
    plan.append((dict(kind="chain", syms=ab, n=n, pat="aab", finals=[n], back=n - c + 1, branch=None),
                 singles(*LINEAR, Q["card"], Q["len"], dict(q="random", k=rng.randint(0, 5), seed=sd()))))
    # A7: chain whose last states form a DEAD cycle (no final state on it): the language is finite
    n, c = mid(), rng.randint(1, 4)
    t = n - c + 1
    plan.append((dict(kind="chain", syms=a, n=n, pat="a", finals=[t - 1], back=t, branch=None),
                 singles(*LINEAR)))
    # A8: a deep automaton with the EMPTY language
    n = mid()
    plan.append((dict(kind="chain", syms=ab, n=n, pat="ab", finals=[], back=None, branch=None),
                 singles(*LINEAR, Q["card"], Q["len"], dict(q="iter", n=2), dict(q="count", k=0),
                         dict(q="random", k=0, seed=sd()))))
    # Q1: a^N exactly — count / random_word / cardinality / len AT the depth of the chain (one count table)
    n = quad()
    plan.append((dict(kind="of_length", syms=a, lo=n, hi=n),
                 [[dict(q="count", k=n), dict(q="count", k=n - 1), dict(q="random", k=n, seed=sd()), Q["card"], Q["len"],
                   dict(q="random", k=n - 1, seed=sd())]]))
    # Q2: {b, (ab)^M} with 2M just above 1000: the whole iteration and words_of_length of the long word
    m = quad() // 2
    plan.append((dict(kind="finite_language", syms=ab, words=[["b", 1, ""], ["ab", m, ""]]),
                 [[dict(q="iter", n=3), dict(q="words", k=2 * m)]]))
    # Q3: chain ending in a cycle: the first words of the iteration are N, N+c, N+2c symbols long
    n, c = quad(), 2
    plan.append((dict(kind="chain", syms=ab, n=n, pat="ab", finals=[n], back=n - c + 1, branch=None),
                 [[dict(q="iter", n=3)]]))
    if thorough:
        n = rng.randint(1300, 1800)
        j = rng.randint(n // 3, n // 2)
        sp = dict(kind="chain", syms=ab, n=n, pat="ab", finals=[n], back=None, branch=[j, "ab"[(j + 1) % 2], 2])
        plan.append((sp, [[Q["card"], Q["len"], dict(q="count", k=j + 2), dict(q="random", k=n, seed=sd())],
                          [dict(q="iter", n=3)], [dict(q="words", k=n)]] + singles(*LINEAR)))
        n = rng.randint(1300, 1800)
        plan.append((dict(kind="of_length", syms=ab, lo=n, hi=n),
                     [[dict(q="count", k=n), dict(q="random", k=n, seed=sd()), Q["card"]]] + singles(*LINEAR)))
        m = rng.randint(700, 900)
        plan.append((dict(kind="finite_language", syms=ab, words=[["b", 1, ""], ["ab", m, ""], ["ab", m // 2, "b"]]),
                     [[Q["card"], Q["len"], dict(q="random", k=2 * m, seed=sd())], [dict(q="iter", n=4)]] + singles(*LINEAR)))
    return plan


def shrink_spec(spec: dict, rng) -> dict:
    """The same shape with 5–9 states on its path."""
    s = json.loads(json.dumps(spec))
    n = rng.randint(5, 9)
    if s["kind"] == "of_length":
        s["lo"] = 0 if spec["lo"] == 0 else n
        s["hi"] = None if spec["hi"] is None else n
    elif s["kind"] == "finite_language":
        s["words"] = [[u, (r if r == 1 else max(1, n // 2)), t] for u, r, t in s["words"]]
    else:
        c = (spec["n"] - spec["back"] + 1) if spec["back"] is not None else None
        s["n"] = n
        if spec["finals"]:
            s["finals"] = [n] if spec["finals"] == [spec["n"]] else [n - c]
        if c is not None:
            s["back"] = n - c + 1
        if spec["branch"] is not None:
            j = rng.randint(1, 3)
            s["branch"] = [j, "ab"[(j + 1) % 2], spec["branch"][2]]
    return s


@case_guard
def deep_small_twin(ctx: Ctx, spec: dict):
    """The closed form against the brute-force oracle (accepts_input enumeration, subset simulation) on a scaled
    down automaton of the same shape: both oracles must dictate the same answer to every step — and the library
    must give it."""
    lang = DP.DeepLang(spec)
    d = lang.build()
    orc = SessionOracle(d, min(12, lang.n_states_expected() + 2))      # ≤ 2^13 words through accepts_input
    top = orc.hi
    steps = [dict(Q[q]) for q in ("min", "max", "finite", "empty", "card", "len")]
    steps += [dict(q="count", k=k) for k in range(top + 1)] + [dict(q="words", k=k) for k in range(top + 1)]
    total = len(orc.ordered)
    steps += [dict(q="iter", n=n) for n in sorted({0, 1, 3, total, total + 2} if lang.finite() else
                                                  {0, min(total, 1), min(total, 3), min(total, 6)})]
    ctx.stat("deep:small_twin")
    for s in steps:
        ctx.stat("deep:small_twin_answers_judged_by_both_oracles")
        mode, exp = DP.expected(lang, s)
        got = deep_do(d.copy(), s, [])
        brute = orc.judge(s, exp)          # the closed-form answer, judged by the brute-force oracle
        if brute is not None:
            raise L.InfraError(f"C13 deep family: closed form and brute force disagree on {lang.expr()} "
                               f"{show_step(s)}: closed form {exp} {brute}")
        if DP.judge(lang, s, got) is not None:
            what = f"{show_step(s)} {DP.judge(lang, s, got)} — on {lang.expr()}"
            ctx.prop_fail(what, dict(automaton=lang.expr(), op="deep", params=dict(spec=spec, steps=[s]), what=what), FAIL_KEY)
            return
    for k in range(top + 1):
        for w in orc.bw[k]:
            if not lang.member(w):
                raise L.InfraError(f"C13 deep family: closed-form membership rejects accepted word {w!r} of {lang.expr()}")
    ctx.case(("deep-twin", json.dumps(spec, sort_keys=True)) if not lang.empty() else None)


def deep_family(ctx: Ctx):
    rng = ctx.rng
    plan = deep_plan(rng, ctx.thorough())
    for spec, _ in plan:
        deep_small_twin(ctx, shrink_spec(spec, rng))
    for spec, groups in plan:
        check_deep(ctx, spec, groups, "deep")


def corpus():
    ab = {"a", "b"}
    yield "F3_empty_language", DFA.empty_language(ab)
    yield "F3_empty_language_1sym", DFA.empty_language({"a"})
    yield "unreachable_final", DFA(states={0, 1}, input_symbols=ab, transitions={0: {"a": 0, "b": 0}, 1: {"a": 1, "b": 1}},
                                    initial_state=0, final_states={1})
    # m45 killer: DFS order finds the far final state first
    yield "m45_bfs_vs_dfs", DFA(states={0, 1, 2, 3}, input_symbols=ab,
                                transitions={0: {"a": 1, "b": 3}, 1: {"a": 2}, 2: {"a": 3}, 3: {}},
                                initial_state=0, final_states={3}, allow_partial=True)
    yield "m45_bfs_vs_dfs_2", DFA(states={0, 1, 2}, input_symbols=ab,
                                  transitions={0: {"b": 1, "a": 2}, 1: {"a": 2, "b": 1}, 2: {"a": 2, "b": 2}},
                                  initial_state=0, final_states={2})
    # m27 killer: second edge must be reached by subtracting the first count
    yield "m27_unrank", DFA(states={0, 1, 2}, input_symbols=ab,
                            transitions={0: {"a": 1, "b": 2}, 1: {"a": 1, "b": 1}, 2: {"a": 2}},
                            initial_state=0, final_states={1, 2}, allow_partial=True)
    yield "finite_abc", DFA.from_finite_language({"a", "b", "c"}, {"", "a", "ab", "abc", "cb", "ccc", "b"})
    yield "universal", DFA.universal_language(ab)
    yield "only_empty_word", DFA(states={0}, input_symbols={"a"}, transitions={0: {}}, initial_state=0,
                                 final_states={0}, allow_partial=True)
    yield "dead_cycle", DFA(states={0, 1, 2}, input_symbols=ab,
                            transitions={0: {"a": 1, "b": 2}, 1: {}, 2: {"a": 2, "b": 2}},
                            initial_state=0, final_states={1}, allow_partial=True)
    yield "gap_lengths", DFA.of_length({"a"}, min_length=3, max_length=5)
    yield "count_mod", DFA.count_mod(ab, 3, remainders={1})


def run(ctx: Ctx):
    rng = ctx.rng
    def hanging():
        if L.TIMEOUTS >= 3:
            ctx.note(f"{L.TIMEOUTS} real calls did not return within {L.TIMEOUT_S}s; run cut short")
            return True
        return False
    for name, d in corpus():
        check_dfa(ctx, d, "corpus", uniform=True)
        if hanging():
            return
    deep_family(ctx)
    if hanging():
        return
    session_family(ctx)
    if hanging():
        return
    derived_family(ctx, ctx.budget(220, 4000))
    if hanging():
        return
    big_lengths(ctx)
    len_probes(ctx)
    temporaries_probe(ctx)
    dag_family(ctx)
    for d in L2.empty_alphabet_dfas(3):
        check_dfa(ctx, d, "empty_alphabet", uniform=True)
    ctx.exhaustive("all DFAs over the EMPTY alphabet with ≤3 states (every initial state and final set, complete and "
                   "partial): the full battery (the only possible word is '')")
    # bounded-exhaustive
    for n_states in (1, 2):
        for d in gen.all_dfas(n_states, ("a", "b")):
            check_dfa(ctx, d, "exhaustive", uniform=(ctx.thorough() or ctx.evaluations % 5 == 0), light=not ctx.thorough())
            if hanging():
                return
    ctx.exhaustive("all DFAs (complete and partial, all final sets) with ≤2 states over {a,b} × every k ≤ "
                   + ("6" if ctx.thorough() else "5") + " (count, words, all DP tables), min/max/empty/finite, cardinality/len, "
                   "iteration prefixes, random_word" + (" incl. exact output distribution for k ≤ 3" if ctx.thorough() else ""))
    for i in range(ctx.budget(900, 18000)):
        if i % 12 == 11:
            d, kind = L2.bigger_dfa(rng)
            check_big_dfa(ctx, d, kind)
        else:
            d, kind = L.shaped_dfa(rng, 6)
            ctx.stat(f"kind:{kind}")
            check_dfa(ctx, d, "random", uniform=rng.random() < 0.15)
        if hanging():
            return


def replay(ctx: Ctx, path: str) -> int:
    data = json.load(open(path))
    rp = data.get("replay", data)
    op, params = rp["op"], rp.get("params", {})
    if op == "derived":
        src = L2.eval_dfa(rp["automaton"])
        other = L2.eval_dfa(params["other"]) if params.get("other") else None
        case = params["case"]
        out = run_derived(src, other, case)
        if out["fail"] or out["derive_error"]:
            print(f"VIOLATION property=C13 replay={path}")
            if out["fail"]:
                where, idx, msg = out["fail"]
                steps = case["stages"][where]["steps"] if isinstance(where, int) else case[where]
                who = f"D{where + 1}" if isinstance(where, int) else ("other" if where == "other_pre" else "the source d")
                print(f"  {show_step(steps[idx])} asked of {who} {msg} — history: {show_derivation(case, where)}")
            else:
                print(f"  derivation #{out['derive_error'][0] + 1} of the recorded case raised {out['derive_error'][1]}")
            return 1
        print("replay: property holds on this input now")
        return 0
    if op == "deep":
        lang = DP.DeepLang(params["spec"])
        r = run_deep(lang, params["steps"])
        if r is not None:
            print(f"VIOLATION property=C13 replay={path}")
            print("  " + deep_what(lang, params["steps"], r[0], r[1]))
            return 1
        print("replay: property holds on this input now")
        return 0
    if op == "session":
        ref = L2.eval_dfa(rp["automaton"])
        obs, rec, bad, drift = run_session(ref, params["mode"], params["steps"])
        if bad:
            i, msg = bad[0]
            print(f"VIOLATION property=C13 replay={path}")
            print(f"  {show_step(params['steps'][i])} {msg} — step #{i + 1} of the recorded sequence on one object "
                  f"({describe_mode(params['mode'])})")
            return 1
        print("replay: property holds on this input now")
        return 0
    if op in ("temporary", "len_big", "count_big", "random_big", "iter_big"):
        # round-2 families: no brute-force enumeration of the whole language
        if op == "temporary":
            r = prop_temporary(rp["automaton"], params["method"])
            bad = r[0] + r[1]
        else:
            d = L2.eval_dfa(rp["automaton"])
            if op == "len_big":
                r = prop_card_counted(d)
                bad = r[0] + r[2]
            elif op == "count_big":
                bad = prop_count_counted(d, params["k"], L2.forward_counts(d, params["k"])[params["k"]])
            elif op == "random_big":
                bad = prop_random_counted(d, params["k"], params["seed"], L2.forward_counts(d, params["k"])[params["k"]])[0]
            else:
                bw = L.brute_words(d, params["KB"])
                ordered = [w for k in sorted(bw) for w in bw[k]]
                bad = prop_iter(d, params["n"], ordered[: params["n"]])[0]
        if bad:
            print(f"VIOLATION property=C13 replay={path}")
            print("  " + bad[0])
            return 1
        print("replay: property holds on this input now")
        return 0
    d = eval(rp["automaton"], {"DFA": DFA, "frozenset": frozenset})
    shape = L.language_shape(d)
    K = max(K_for(d), params.get("k", 0))
    hi = K if (not shape["finite"] or shape["empty"]) else max(K, shape["max"])
    bw = L.brute_words(d, hi)
    bad = []
    if op == "count_words":
        bad = prop_count_words(d, params["k"], bw)
    elif op == "minmax":
        bad = prop_minmax(d, shape)[0]
    elif op == "card":
        r = prop_card(d, shape, bw if shape["finite"] else {})
        bad = r[0] + r[2]
    elif op == "iter":
        ordered = [w for k in sorted(bw) for w in bw[k]]
        bad = prop_iter(d, params["n"], ordered[: params["n"]])[0]
    elif op == "random":
        bad = prop_random(d, params["k"], params["seed"], bw[params["k"]])[0]
    elif op == "uniform":
        bad = prop_uniform(d, params["k"], bw[params["k"]])[0] or []
    if bad:
        print(f"VIOLATION property=C13 replay={path}")
        print("  " + bad[0])
        return 1
    print("replay: property holds on this input now")
    return 0
