"""C13 — word counting, enumeration, lengths and random sampling match the language.

Correspondence (driver drv_dfa_query): COUNT / WORDS (values for every k ≤ K and the complete
per-state DP tables of every level), MINMAX (minimum/maximum_word_length, isempty, isfinite),
CARD (cardinality, len), ITER (prefixes of iter(dfa), exhaustion), RANDOM (random_word with
the RNG's randint results recorded by patching automata.fa.dfa.Random from outside and
handed to the model).  Every query runs on a *fresh* copy of the DFA (histories are C20).

Property oracle, independent of the model: brute-force enumeration of all words up to the
needed length through the real accepts_input; length analysis by subset simulation over the
transition table; for random_word (a) the word dictated by cumulative-count unranking of the
recorded randint results where the counts are brute-force prefix counts, and (b) on small
cases the *exact* output distribution obtained by exhausting the outcome tree of the RNG
(every accepted word of length k must have probability exactly 1/N).
"""
from __future__ import annotations

import itertools
import json
from fractions import Fraction

from automata.fa.dfa import DFA

from harness import gen
from harness import dfa_query_lib as L
from harness.common import guarded as case_guard
from harness.common import Ctx, Toks, call, enc_dfa, toks

LEVEL = "proof"
RULE = ("cases = (valid DFA, query, parameters) with query ∈ {count k, words k, min/max/empty/finite, "
        "cardinality/len, iteration prefix n, random_word k with recorded RNG outcomes}; corpus (F3 trigger, "
        "mutant killers), all DFAs with ≤2 states over {a,b} × every k ≤ 5, then shaped random DFAs "
        "(≤6 states; random / acyclic / from_finite_language / empty / universal / extra rows); a case is "
        "non-trivial when the language is non-empty and the DFA has ≥2 states; distinct = distinct "
        "(definition, query, parameters)")
ASSUMPTIONS = [
    "lengths k are naturals (negative lengths index the caches from the end: finding F18, outside the domain)",
    "symbols are single characters compared by code point; association lists represent dicts (unique keys)",
    "uniformity of CPython's Random.randint is trusted; the theorem counts RNG outcomes",
    "networkx dag_longest_path_length / topological_sort are modelled by their contract",
]
EXPLANATION = ("Theorems C13_* characterise the model's tables, lengths, cardinality, iteration and "
               "random_word by the language of the DFA for every DFA and k; this run ties the model to "
               "the code by differential execution and evaluates the property on the real code by brute force.")

FAIL_KEY = None


def K_for(d: DFA) -> int:
    return {0: 3, 1: 8, 2: 6, 3: 5}.get(len(d.input_symbols), 4)


def fresh(d: DFA) -> DFA:
    return d.copy()


def on_fresh(d: DFA, f):
    """Run f on a fresh copy that stays referenced during the call (cached_method keeps
    only a weak reference to the receiver: `d.copy().isempty()` raises RuntimeError)."""
    c = d.copy()
    return L.guarded(lambda: f(c))


# --------------------------------------------------------------- observing the real object
def real_tables(d: DFA, st, sy, k: int):
    c = fresh(d)
    v = call(lambda: c.count_words_of_length(k))
    ct = [[lvl.get(q, 0) for q in st.order] for lvl in c._count_cache]
    w = fresh(d)
    ws = call(lambda: list(w.words_of_length(k)))
    wt = [[L.words_to_ints(sy, lvl.get(q, [])) for q in st.order] for lvl in w._word_cache]
    return v, ct, ws, wt


def model_count(ctx, enc, k):
    t = Toks(ctx.driver(L.DRV).ask(toks("COUNT", enc, k)))
    v = t.int()
    levels = t.many(lambda: t.ints())
    return v, levels


def model_words(ctx, enc, k):
    t = Toks(ctx.driver(L.DRV).ask(toks("WORDS", enc, k)))
    ws = L.rd_words(t)
    levels = t.many(lambda: t.many(lambda: L.rd_words(t)))
    return ws, levels


def fail(ctx: Ctx, d: DFA, op: str, params: dict, what: str):
    ctx.prop_fail(f"{op}{params}: {what}", dict(automaton=repr(d), op=op, params=params, what=what), FAIL_KEY)


# --------------------------------------------------------------- property evaluation (real code only)
def prop_count_words(d: DFA, k: int, bw):
    """count_words_of_length(k) / words_of_length(k) on fresh copies vs brute force."""
    out = []
    v = on_fresh(d, lambda c: c.count_words_of_length(k))
    ws = on_fresh(d, lambda c: list(c.words_of_length(k)))
    if v != ("ok", len(bw[k])):
        out.append(f"count_words_of_length({k}) = {v}, language has {len(bw[k])} words of that length")
    if ws != ("ok", bw[k]):
        out.append(f"words_of_length({k}) = {str(ws)[:200]}, expected the sorted list {str(bw[k])[:200]}")
    return out


def prop_minmax(d: DFA, shape):
    out = []
    mn = on_fresh(d, lambda c: c.minimum_word_length())
    mx = on_fresh(d, lambda c: c.maximum_word_length())
    em = on_fresh(d, lambda c: c.isempty())
    fi = on_fresh(d, lambda c: c.isfinite())
    if shape["empty"]:
        exp_mn = exp_mx = ("err", "EmptyLanguageException")
    else:
        exp_mn = ("ok", shape["min"])
        exp_mx = ("ok", shape["max"] if shape["finite"] else None)
    if mn != exp_mn:
        out.append(f"minimum_word_length = {mn}, language dictates {exp_mn}")
    if mx != exp_mx:
        out.append(f"maximum_word_length = {mx}, language dictates {exp_mx}")
    if em != ("ok", shape["empty"]):
        out.append(f"isempty = {em}, language empty = {shape['empty']}")
    if fi != ("ok", shape["finite"]):
        out.append(f"isfinite = {fi}, language finite = {shape['finite']}")
    return out, dict(min=mn, max=mx, empty=em, finite=fi)


def prop_card(d: DFA, shape, bw_full):
    out = []
    ca = on_fresh(d, lambda c: c.cardinality())
    ln = on_fresh(d, lambda c: len(c))
    if not shape["finite"]:
        exp = ("err", "InfiniteLanguageException")
    else:
        exp = ("ok", sum(len(v) for v in bw_full.values()))
    if ca != exp:
        out.append(f"cardinality = {ca}, language dictates {exp}")
    if ln != exp:
        out.append(f"len = {ln}, language dictates {exp}")
    return out, dict(card=ca, len=ln)


def prop_iter(d: DFA, n: int, expected):
    """expected = the first n words in (length, code point) order, or all of them if fewer."""
    got = on_fresh(d, lambda c: list(itertools.islice(iter(c), n)))
    out = []
    if got != ("ok", expected):
        out.append(f"first {n} words of iter() = {str(got)[:200]}, expected {str(expected)[:200]}")
    return out, got


def unrank_oracle(d: DFA, k: int, choices, bwk):
    """The word selected by the recorded randint results when every edge is weighted by the
    brute-force number of accepted length-k words that extend the prefix through it."""
    prefix = ""
    state = d.initial_state
    for c in choices:
        chosen = None
        for a, t in d.transitions[state].items():
            wgt = sum(1 for w in bwk if w.startswith(prefix + a))
            if c < wgt:
                chosen = (a, t)
                break
            c -= wgt
        if chosen is None:
            return None
        prefix += chosen[0]
        state = chosen[1]
    return prefix


def prop_random(d: DFA, k: int, seed: int, bwk):
    """Property level: the result is an accepted word of length k / ValueError iff none exists.
    Implementation level (returned separately, a correspondence matter): the recorded randint
    draws have the expected shape and select the word dictated by count-weighted unranking."""
    out, impl = [], []
    r, choices, log = L.random_word_recorded(fresh(d), k, seed)
    other_api = L.RecordingRandom.other_api
    if not bwk:
        if r != ("err", "ValueError"):
            out.append(f"random_word({k}) = {r} although no word of length {k} is accepted (ValueError expected)")
    else:
        if r[0] != "ok":
            out.append(f"random_word({k}, seed={seed}) raised {r[1]} although {len(bwk)} words of length {k} exist")
        else:
            w = r[1]
            if len(w) != k or not d.accepts_input(w):
                out.append(f"random_word({k}, seed={seed}) = {w!r} is not an accepted word of length {k}")
            elif other_api:
                impl.append(f"random_word({k}) draws through an RNG method other than randint")
            else:
                exp = unrank_oracle(d, k, choices, bwk)
                if exp != w:
                    impl.append(f"random_word({k}, seed={seed}) with randint results {choices} = {w!r}; "
                                f"count-weighted unranking over the language gives {exp!r}")
                if any(not (a == 0 and r_ <= b) for a, b, r_ in log) or len(log) != k:
                    impl.append(f"random_word({k}) drew {log} (expected {k} draws from ranges starting at 0)")
    return out, r, choices, impl


def prop_uniform(d: DFA, k: int, bwk):
    dist = L.exact_distribution(fresh(d), k)
    if dist is None:
        return None, None
    out = []
    if not bwk:
        if set(dist) != {("err", "ValueError")}:
            out.append(f"random_word({k}) outcomes {dist} although no word of length {k} exists")
    else:
        exp = {("ok", w): Fraction(1, len(bwk)) for w in bwk}
        if dist != exp:
            shown = {str(kk): str(v) for kk, v in dist.items()}
            out.append(f"random_word({k}) exact distribution over all RNG outcomes is {shown}, "
                       f"uniform would be 1/{len(bwk)} on each of {bwk}")
    return out, dist


# --------------------------------------------------------------- one DFA
@case_guard
def check_dfa(ctx: Ctx, d: DFA, origin: str, *, uniform: bool = False, light: bool = False):
    rng = ctx.rng
    enc, st, sy = enc_dfa(d)
    K = K_for(d)
    if light:
        K = min(K, 5)
    shape = L.language_shape(d)
    hi = K if (not shape["finite"] or shape["empty"]) else max(K, shape["max"])
    bw = L.brute_words(d, hi)
    nontrivial = (not shape["empty"]) and len(d.states) >= 2
    ctx.stat(f"origin:{origin}")
    ctx.stat("lang:empty" if shape["empty"] else ("lang:finite" if shape["finite"] else "lang:infinite"))
    ctx.stat(f"states:{len(d.states)}")
    ctx.stat("partial" if d.allow_partial else "complete")
    if ctx.evaluations % 499 == 0:
        ctx.sample(dict(automaton=repr(d), shape=shape, words_by_length={k: v[:6] for k, v in bw.items() if k <= 3}))

    # ---- COUNT / WORDS: values for every k and all tables
    mv, mct = model_count(ctx, enc, K)
    mws, mwt = model_words(ctx, enc, K)
    v, ct, ws, wt = real_tables(d, st, sy, K)
    for k in range(K + 1):
        ctx.case(("count-words", enc, k) if nontrivial else None)
        bad = prop_count_words(d, k, bw)
        for b in bad:
            fail(ctx, d, "count_words", dict(k=k), b)
        ctx.stat("count:zero" if not bw[k] else "count:positive")
        if not bad:
            # value-level correspondence with the model
            if mct[k][st(d.initial_state)] != len(bw[k]) or [tuple(x) for x in mwt[k][st(d.initial_state)]] != L.words_to_ints(sy, bw[k]):
                ctx.corr_diff("COUNT/WORDS", dict(automaton=repr(d), k=k), dict(count=len(bw[k]), words=bw[k]),
                              dict(count=mct[k][st(d.initial_state)], words=mwt[k][st(d.initial_state)]))
    if (v, ct) != (("ok", mv), mct):
        ctx.corr_diff("COUNT tables", dict(automaton=repr(d), k=K), dict(v=v, tables=ct), dict(v=mv, tables=mct))
    mwt_t = [[[tuple(w) for w in cell] for cell in lvl] for lvl in mwt]
    if ws != ("ok", ["".join(sy.back(c) for c in w) for w in mws]) or wt != mwt_t:
        ctx.corr_diff("WORDS tables", dict(automaton=repr(d), k=K), dict(ws=ws, tables=wt), dict(ws=mws, tables=mwt))

    # ---- MINMAX
    ctx.case(("minmax", enc) if nontrivial else None)
    bad, obs = prop_minmax(d, shape)
    for b in bad:
        fail(ctx, d, "minmax", {}, b)
    t = Toks(ctx.driver(L.DRV).ask(toks("MINMAX", enc)))
    t.expect("min"); m_min = t.res(t.int)
    t.expect("max"); m_max = t.res(t.optint)
    t.expect("empty"); m_empty = ("ok", bool(t.int()))
    t.expect("finite"); m_fin = t.res(lambda: bool(t.int()))
    mod = dict(min=m_min, max=m_max, empty=m_empty, finite=m_fin)
    if mod != obs and not bad:
        ctx.corr_diff("MINMAX", dict(automaton=repr(d)), obs, mod)

    # ---- CARD
    ctx.case(("card", enc) if nontrivial else None)
    bad, obs = prop_card(d, shape, bw if shape["finite"] else {})
    for b in bad:
        fail(ctx, d, "card", {}, b)
    t = Toks(ctx.driver(L.DRV).ask(toks("CARD", enc)))
    t.expect("card"); m_card = t.res(t.int)
    t.expect("len"); m_len = t.res(t.int)
    if dict(card=m_card, len=m_len) != obs and not bad:
        ctx.corr_diff("CARD", dict(automaton=repr(d)), obs, dict(card=m_card, len=m_len))

    # ---- ITER
    ordered = [w for k in sorted(bw) for w in bw[k]]
    total = len(ordered)
    ns = {0, 1, total, total + 2} if shape["finite"] else {0, 1, min(total, 7), total}
    ns.add(rng.randint(0, max(1, total)))
    for n in sorted(ns):
        if not shape["finite"] and n > total:
            continue
        ctx.case(("iter", enc, n) if nontrivial else None)
        expected = ordered[:n]
        bad, got = prop_iter(d, n, expected)
        for b in bad:
            fail(ctx, d, "iter", dict(n=n), b)
        ctx.stat("iter:exhausted" if shape["finite"] and n > total else "iter:prefix")
        t = Toks(ctx.driver(L.DRV).ask(toks("ITER", enc, n, hi + 3)))
        m = t.res(lambda: (L.rd_words(t), t.next()))
        if m[0] == "ok":
            mwords, mend = m[1]
            mm = ("ok", ["".join(sy.back(c) for c in w) for w in mwords])
            if mend == "outOfFuel":
                ctx.stat("iter:model_out_of_fuel")
                raise L.InfraError(f"ITER model out of fuel on {d!r} n={n}")
            if (mend == "finished") != (shape["finite"] and n > total) and not bad:
                ctx.corr_diff("ITER end", dict(automaton=repr(d), n=n), got, m)
        else:
            mm = m
        if mm != got and not bad:
            ctx.corr_diff("ITER", dict(automaton=repr(d), n=n), got, mm)

    # ---- RANDOM
    ks = list(range(min(K, 4) + 1)) if not light else [rng.randint(0, K)]
    for k in ks:
        for trial in range(1 if light else 2):
            seed = rng.randrange(1 << 30)
            ctx.case(("random", enc, k, seed) if nontrivial else None)
            bad, r, choices, impl = prop_random(d, k, seed, bw[k])
            for b in bad:
                fail(ctx, d, "random", dict(k=k, seed=seed), b)
            for b in impl:
                ctx.stat("random:implementation_level_difference")
                ctx.corr_diff("RANDOM draws", dict(automaton=repr(d), k=k, seed=seed), b, "randint per step, count-weighted edge choice in row order")
            t = Toks(ctx.driver(L.DRV).ask(toks("RANDOM", enc, k, len(choices), choices)))
            m = t.res(lambda: "".join(sy.back(c) for c in t.ints()))
            ctx.stat("random:valueerror" if r[0] == "err" else "random:word")
            if m != r and not bad:
                ctx.corr_diff("RANDOM", dict(automaton=repr(d), k=k, choices=choices), r, m)
        if uniform and len(bw[k]) <= 9 and k <= 3:
            bad, dist = prop_uniform(d, k, bw[k])
            if bad is not None:
                ctx.case(("uniform", enc, k) if nontrivial else None)
                ctx.stat("uniform:exact_distribution_checked")
                for b in bad:
                    fail(ctx, d, "uniform", dict(k=k), b)


# --------------------------------------------------------------- corpus
def big_lengths(ctx: Ctx):
    """random_word / count_words_of_length for lengths whose word counts exceed every float
    (2**1100 words of length 1100 over two symbols): Python ints are exact, so the answer must
    still be an accepted word of that length / the exact count.  Oracle only (no model call)."""
    cases = [
        ("universal{a,b}", DFA.universal_language({"a", "b"}), 1100, lambda k: 2 ** k),
        ("no 'bb'", DFA.from_substring({"a", "b"}, "bb", contains=False), 1600, None),
        ("4 symbols", DFA.universal_language({"a", "b", "c", "d"}), 620, lambda k: 4 ** k),
    ]
    for name, d, k, cnt in cases:
        ctx.case(("big", name, k))
        ctx.stat("big_length_case")
        keep = d.copy()
        r = call(lambda: keep.random_word(k, seed=ctx.seed + 7))
        if r[0] != "ok" or len(r[1]) != k or not keep.accepts_input(r[1]):
            fail(ctx, d, "random_word", dict(k=k, seed=ctx.seed + 7),
                 f"random_word({k}) on {name} = {r[0]} {r[1] if r[0] == 'err' else 'a word of length ' + str(len(r[1]))}; "
                 f"expected an accepted word of length {k}")
        if cnt is not None:
            c = call(lambda: keep.count_words_of_length(k))
            if c != ("ok", cnt(k)):
                fail(ctx, d, "count_words_of_length", dict(k=k), f"count_words_of_length({k}) on {name} is not the exact count")


def corpus():
    ab = {"a", "b"}
    yield "F3_empty_language", DFA.empty_language(ab)
    yield "F3_empty_language_1sym", DFA.empty_language({"a"})
    yield "unreachable_final", DFA(states={0, 1}, input_symbols=ab, transitions={0: {"a": 0, "b": 0}, 1: {"a": 1, "b": 1}},
                                    initial_state=0, final_states={1})
    # m45 killer: DFS order finds the far final state first
    yield "m45_bfs_vs_dfs", DFA(states={0, 1, 2, 3}, input_symbols=ab,
                                transitions={0: {"a": 1, "b": 3}, 1: {"a": 2}, 2: {"a": 3}, 3: {}},
                                initial_state=0, final_states={3}, allow_partial=True)
    yield "m45_bfs_vs_dfs_2", DFA(states={0, 1, 2}, input_symbols=ab,
                                  transitions={0: {"b": 1, "a": 2}, 1: {"a": 2, "b": 1}, 2: {"a": 2, "b": 2}},
                                  initial_state=0, final_states={2})
    # m27 killer: second edge must be reached by subtracting the first count
    yield "m27_unrank", DFA(states={0, 1, 2}, input_symbols=ab,
                            transitions={0: {"a": 1, "b": 2}, 1: {"a": 1, "b": 1}, 2: {"a": 2}},
                            initial_state=0, final_states={1, 2}, allow_partial=True)
    yield "finite_abc", DFA.from_finite_language({"a", "b", "c"}, {"", "a", "ab", "abc", "cb", "ccc", "b"})
    yield "universal", DFA.universal_language(ab)
    yield "only_empty_word", DFA(states={0}, input_symbols={"a"}, transitions={0: {}}, initial_state=0,
                                 final_states={0}, allow_partial=True)
    yield "dead_cycle", DFA(states={0, 1, 2}, input_symbols=ab,
                            transitions={0: {"a": 1, "b": 2}, 1: {}, 2: {"a": 2, "b": 2}},
                            initial_state=0, final_states={1}, allow_partial=True)
    yield "gap_lengths", DFA.of_length({"a"}, min_length=3, max_length=5)
    yield "count_mod", DFA.count_mod(ab, 3, remainders={1})


def run(ctx: Ctx):
    rng = ctx.rng
    def hanging():
        if L.TIMEOUTS >= 3:
            ctx.note(f"{L.TIMEOUTS} real calls did not return within {L.TIMEOUT_S}s; run cut short")
            return True
        return False
    for name, d in corpus():
        check_dfa(ctx, d, "corpus", uniform=True)
        if hanging():
            return
    big_lengths(ctx)
    # bounded-exhaustive
    for n_states in (1, 2):
        for d in gen.all_dfas(n_states, ("a", "b")):
            check_dfa(ctx, d, "exhaustive", uniform=(ctx.thorough() or ctx.evaluations % 5 == 0), light=not ctx.thorough())
            if hanging():
                return
    ctx.exhaustive("all DFAs (complete and partial, all final sets) with ≤2 states over {a,b} × every k ≤ "
                   + ("6" if ctx.thorough() else "5") + " (count, words, all DP tables), min/max/empty/finite, cardinality/len, "
                   "iteration prefixes, random_word" + (" incl. exact output distribution for k ≤ 3" if ctx.thorough() else ""))
    for _ in range(ctx.budget(900, 18000)):
        d, kind = L.shaped_dfa(rng, 6)
        ctx.stat(f"kind:{kind}")
        check_dfa(ctx, d, "random", uniform=rng.random() < 0.15)
        if hanging():
            return


def replay(ctx: Ctx, path: str) -> int:
    data = json.load(open(path))
    rp = data.get("replay", data)
    d = eval(rp["automaton"], {"DFA": DFA, "frozenset": frozenset})
    op, params = rp["op"], rp.get("params", {})
    shape = L.language_shape(d)
    K = max(K_for(d), params.get("k", 0))
    hi = K if (not shape["finite"] or shape["empty"]) else max(K, shape["max"])
    bw = L.brute_words(d, hi)
    bad = []
    if op == "count_words":
        bad = prop_count_words(d, params["k"], bw)
    elif op == "minmax":
        bad = prop_minmax(d, shape)[0]
    elif op == "card":
        bad = prop_card(d, shape, bw if shape["finite"] else {})[0]
    elif op == "iter":
        ordered = [w for k in sorted(bw) for w in bw[k]]
        bad = prop_iter(d, params["n"], ordered[: params["n"]])[0]
    elif op == "random":
        bad = prop_random(d, params["k"], params["seed"], bw[params["k"]])[0]
    elif op == "uniform":
        bad = prop_uniform(d, params["k"], bw[params["k"]])[0] or []
    if bad:
        print(f"VIOLATION property=C13 replay={path}")
        print("  " + bad[0])
        return 1
    print("replay: property holds on this input now")
    return 0
