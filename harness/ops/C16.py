"""C16 — the edit-distance NFA accepts exactly the strings within the allowed number of edits.

Correspondence: EDIT Σ ref k flags — the real `NFA.edit_distance` against the Lean model
(Model/NFAEdit.lean); the code determines the state names `(i, e)`, so the constructed
automaton is compared exactly (states, every row, every target set, final states), and
the exception class for refused arguments (ValueError) and for reference strings outside
the alphabet (InvalidSymbolError from the constructor).

Property on the real code: an independent dynamic programme (restricted edit distance
with unit costs for the enabled kinds) decides for every word up to a length bound whether
it is within k edits of the reference string; the real `accepts_input` of the real result
must agree; words with a symbol outside the alphabet must be rejected; k < 0 or no
enabled kind must raise ValueError.  None of this may depend on the process-wide options of
automata.base.config (round 5: `global_options_family`).
"""
from __future__ import annotations

import itertools
import json
import random

import automata.base.config as global_config
from automata.fa.nfa import NFA

from harness import gen
from harness import nfa_mutable as M
from harness import nfaops_lib as L
from harness.common import Ctx, Names, call, toks

LEVEL = "proof"
RULE = ("cases = (alphabet, reference string, k, insertion, deletion, substitution); bounded-exhaustive: every "
        "reference string of length ≤3 over {a,b} (and ≤2 over {a}), k ∈ {-1,0,1,2}, all 8 flag combinations; then "
        "random alphabets (1–4 symbols), reference strings of length ≤7 with repeated letters / periodic / single "
        "letter, k ≤ 4; every case evaluates all words up to a length bound through the real accepts_input "
        "against an independent DP; for k ≤ 3, |ref| ≤ 4, |Σ| ≤ 3 additionally against an OPERATIONAL oracle (BFS over "
        "single insert/delete/replace steps from the reference string: every reached word must be accepted, every "
        "accepted word up to the bound must be reached); every case also tests 3 words obtained by j random enabled "
        "single edits for each j ∈ {k−1, k, k+1} (j ≤ k: must be accepted by construction; j = k+1: DP decides) so that "
        "long references are probed at the boundary; round 3: (i) each of 50 characters that are special elsewhere "
        "(regex / re / format metacharacters, blanks, control characters, digits, irregular-case, combining, non-BMP) as "
        "an ordinary symbol — alphabet {c,a}, references c and a·c·a, k ∈ {0,1}, 4 flag sets, all words to |ref|+k+1 — and "
        "random alphabets / references made of such characters; (ii) references of 256, 257, 300 and random 258–400 "
        "symbols (k ≤ 2) and bounds k ∈ {257, 258, 300} with short references: automaton compared exactly with the model, "
        "language judged by the DP on 13 deterministic neighbours of the reference (itself, one symbol dropped / added / "
        "replaced at either end and in the middle) whenever the enumeration bound is below |ref|, and on the random-edit "
        "words; round 4: the mutable-automata option — under allow_mutable_automata=True ONE NFA per case (as returned, or its "
        ".copy()) is asked every word up to |ref|+k+1, the neighbours of the reference, random-edit and foreign-symbol words "
        "TWICE in shuffled orders, with 0–2 other calls in between (determinise, eliminate_lambda, reverse, A/A, == copy, "
        "stepwise read), each answer judged by the DP; bounded-exhaustive for references ≤2 over {a,b} / {a}, k ≤ 2, 7 flag "
        "sets; round 5: the two global switches of automata.base.config — EVERY refused argument tuple of the bounded-exhaustive "
        "part (references ≤3 over {a,b}, ≤2 over {a}, empty over ∅; k = −1 with all 8 flag sets, k ∈ {0,1,2} with no kind "
        "enabled), bounds −2, −256, −257, −10^6, refusals whose reference string is outside the alphabet, a random stream of "
        "refused tuples (special-character alphabets, references up to 300 symbols), and a slice of the accepted cases "
        "(references ≤2 over {a,b}, k ≤ 2, 7 flag sets; random alphabets of 1–3 symbols, references ≤5, k ≤ 3) are each run "
        "under all four combinations of should_validate_automata × allow_mutable_automata (restored afterwards) and judged "
        "by the same oracle as under the defaults: ValueError for refused tuples, DP on every word up to |ref|+k+1 for "
        "accepted ones; a case is non-trivial when the reference string is non-empty and 1 ≤ k and k "
        "is smaller than the reference length + 2; distinct = distinct argument tuples")
ASSUMPTIONS = [
    "input_symbols is a set of single characters; the reference string is a str; max_edit_distance is an int",
    "the property is about arguments, so no result may depend on earlier constructions: the failure that is printed is "
    "re-run in a fresh interpreter and, if it holds there, recorded earlier edit_distance calls of the run are put in "
    "front of it (harness/fresh.py)",
    "the language clause is about reference strings over the alphabet; for any other reference string (k ≥ 0, some kind "
    "enabled) the constructor raises InvalidSymbolError — theorem C16_ref_outside_alphabet, modelled, compared and "
    "evaluated on the real code",
    "the property does not mention the library's global options (automata.base.config.should_validate_automata, "
    "allow_mutable_automata): refusals and results must be the same for every setting of both. One exception, not judged: "
    "with should_validate_automata=False a reference string outside the alphabet is not refused with InvalidSymbolError — "
    "that refusal is the definition validation which the switch documents away (counted as "
    "global_options_ref_outside_alphabet_validation_off_not_judged)",
    "no \"\" in input_symbols: the model cannot represent it (labels are Option α, ε = none). Since /repo 07f4843 the "
    "constructor refuses it with InvalidSymbolError (probed on every run). Before that fix, replay: "
    "NFA.edit_distance({\"\", \"a\"}, \"aa\", 1, insertion=False, deletion=False, substitution=True) accepted \"a\" "
    "(add_any_transition added an ε-edge: a deletion although deletion was disabled)",
]
EXPLANATION = ("Theorem C16_edit_distance states that the model NFA accepts w iff w is over Σ and some alignment "
               "with at most k enabled edits turns the reference string into w; this run ties the model to the "
               "code by exact comparison of the constructed automaton and evaluates the property on the real "
               "result against an independent DP and against an operational BFS over single edits "
               "(theorem C16_edit_distance_operational: the two readings are proved equivalent). Theorems "
               "C16_negative_bound / C16_no_edit_kind (ValueError whatever the other arguments) and the language clause "
               "are also evaluated on the real code under all four settings of the library's two global switches, which "
               "the model does not have: one model answer per argument tuple is compared with the code's answer "
               "under every setting.")


def dp_within(ref: str, w: str, k: int, ins: bool, dele: bool, sub: bool) -> bool:
    """Least number of enabled unit-cost edits turning ref into w is ≤ k (∞ when impossible)."""
    INF = 10 ** 9
    n, m = len(ref), len(w)
    d = [[INF] * (m + 1) for _ in range(n + 1)]
    d[0][0] = 0
    for i in range(n + 1):
        for j in range(m + 1):
            c = d[i][j]
            if c >= INF:
                continue
            if i < n and j < m and ref[i] == w[j]:
                d[i + 1][j + 1] = min(d[i + 1][j + 1], c)
            if sub and i < n and j < m:
                d[i + 1][j + 1] = min(d[i + 1][j + 1], c + 1)
            if dele and i < n:
                d[i + 1][j] = min(d[i + 1][j], c + 1)
            if ins and j < m:
                d[i][j + 1] = min(d[i][j + 1], c + 1)
    return d[n][m] <= k


def single_edits(s: str, alpha, ins: bool, dele: bool, sub: bool):
    """All strings one enabled edit away from s: one symbol of the alphabet inserted at any position,
    one symbol deleted, or one symbol replaced by a symbol of the alphabet (the OPERATIONAL reading of the
    property; does not share anything with the alignment DP or with the automaton)."""
    out = set()
    for i in range(len(s) + 1):
        if ins:
            for c in alpha:
                out.add(s[:i] + c + s[i:])
        if i < len(s):
            if dele:
                out.add(s[:i] + s[i + 1:])
            if sub:
                for c in alpha:
                    out.add(s[:i] + c + s[i + 1:])
    return out


def reach_within(ref: str, alpha, k: int, ins: bool, dele: bool, sub: bool, cap: int = 60000):
    """Every string obtained from ref by a sequence of at most k single enabled edits (BFS), or None if
    more than `cap` strings."""
    reach = {ref}
    frontier = {ref}
    for _ in range(k):
        nxt = set()
        for s in frontier:
            nxt |= single_edits(s, alpha, ins, dele, sub)
        frontier = nxt - reach
        reach |= frontier
        if len(reach) > cap:
            return None
        if not frontier:
            break
    return reach


def random_edits(rng, ref: str, alpha, j: int, ins: bool, dele: bool, sub: bool):
    """Apply j random enabled single edits to ref (None if no edit is applicable at some point)."""
    s = ref
    for _ in range(j):
        kinds = []
        if ins and alpha:
            kinds.append("i")
        if dele and s:
            kinds.append("d")
        if sub and s and alpha:
            kinds.append("s")
        if not kinds:
            return None
        kind = rng.choice(kinds)
        if kind == "i":
            i = rng.randint(0, len(s))
            s = s[:i] + rng.choice(alpha) + s[i:]
        elif kind == "d":
            i = rng.randrange(len(s))
            s = s[:i] + s[i + 1:]
        else:
            i = rng.randrange(len(s))
            s = s[:i] + rng.choice(alpha) + s[i + 1:]
    return s


def shown(w: str) -> str:
    """repr of a word, abbreviated when long (messages only; replays carry the full word)."""
    return repr(w) if len(w) <= 40 else f"{w[:16]!r}…{w[-12:]!r} (length {len(w)})"


def foreign_for(alpha) -> str:
    """A character outside `alpha` (the shared helper only knows five candidates)."""
    c = gen.foreign_symbol(alpha)
    if c not in alpha:
        return c
    return next(chr(i) for i in range(0x41, 0x3000) if chr(i) not in alpha)


def boundary_words(ref: str, alpha) -> list:
    """Deterministic words next to a reference string that the length-bounded enumeration cannot reach: the
    reference string itself, one symbol dropped / added / replaced at either end and in the middle."""
    if not alpha:
        return [ref]
    a = alpha[0]
    n = len(ref)
    out = [ref, ref + a, a + ref, ref[:n // 2] + a + ref[n // 2:]]
    if ref:
        def other(c):
            return next((x for x in alpha if x != c), c)
        m = n // 2
        out += [ref[1:], ref[:-1], ref[:m] + ref[m + 1:], other(ref[0]) + ref[1:], ref[:-1] + other(ref[-1]),
                ref[:m] + other(ref[m]) + ref[m + 1:], ref[1:] + a, ref[2:], ref[:-2] + other(ref[-1]) * 2]
    seen, res = set(), []
    for w in out:
        if w not in seen:
            seen.add(w)
            res.append(w)
    return res


# Every edit_distance call made by check_one in this process, in order (as replayable cases): if a failing case turns
# out to depend on the calls made before it (harness/fresh.py), they are its replay.
CALLS: list = []


def check_one(ctx: Ctx, sigma, ref: str, k: int, ins: bool, dele: bool, sub: bool, origin: str, max_words: int = 400,
              model: bool = True, extra_words=()):
    """`model=False`: property on the real code only (no driver; used when a recorded program of calls is re-run in a
    fresh interpreter).  `extra_words`: further words to judge by the DP (the recorded failing word of a replay — the
    random-edit words are not reproducible)."""
    n_fails_before = len(ctx.prop_fails)
    try:
        _check_one(ctx, sigma, ref, k, ins, dele, sub, origin, max_words, model, extra_words)
    finally:
        for f in ctx.prop_fails[n_fails_before:]:
            f["_calls"] = len(CALLS)


def _check_one(ctx: Ctx, sigma, ref: str, k: int, ins: bool, dele: bool, sub: bool, origin: str, max_words: int,
               model: bool, extra_words):
    sy = Names(sorted(set(sigma) | set(ref)))
    case = dict(input_symbols=sorted(sigma), reference_str=ref, max_edit_distance=k,
                insertion=ins, deletion=dele, substitution=sub)
    CALLS.append(case)
    res = call(lambda: NFA.edit_distance(set(sigma), ref, k, insertion=ins, deletion=dele, substitution=sub))
    if model:
        order = [sy(a) for a in set(sigma)]
        line = ctx.driver("drv_nfa_ops").ask(
            toks("EDIT", len(order), order, len(ref), [sy(c) for c in ref], k, ins, dele, sub))
        mod = L.parse_res_nfag(line)
    else:
        line, mod = "", None
    if res[0] == "ok":
        impl = ("ok", L.plain(res[1], sy, lambda q: tuple(q) if isinstance(q, tuple) else ("?", repr(q))))
    else:
        impl = res
    in_domain = all(c in sigma for c in ref)
    should_refuse = k < 0 or not (ins or dele or sub)
    # --- property on the real code
    if should_refuse:
        if res != ("err", "ValueError"):
            ctx.prop_fail(f"edit_distance with k={k}, flags={(ins, dele, sub)} was not refused with ValueError: {res[0]} "
                          f"{res[1] if res[0] == 'err' else ''}", dict(case, failure="not refused"), None)
    elif in_domain:
        if res[0] == "err":
            ctx.prop_fail(f"edit_distance raised {res[1]} on valid arguments", dict(case, failure=res[1]), None)
        else:
            R = res[1]
            alpha = sorted(sigma)
            foreign = foreign_for(alpha)
            bound = min(len(ref) + k + 1, 7)
            while bound > 1 and sum(len(alpha) ** i for i in range(bound + 1)) > max_words:
                bound -= 1
            LR = L.lang_real(R, alpha, bound)
            for w in gen.words_upto(alpha, bound):
                exp = dp_within(ref, w, k, ins, dele, sub)
                if (w in LR) != exp:
                    got = R.accepts_input(w)
                    if got != exp:
                        ctx.prop_fail(f"edit_distance({alpha!r}, {shown(ref)}, k={k}, ins={ins}, del={dele}, sub={sub}) "
                                      f"{'accepts' if got else 'rejects'} {shown(w)}, which is "
                                      f"{'within' if exp else 'not within'} {k} enabled edits",
                                      dict(case, failure="language", word=w, result_accepts=got, expected=exp), None)
                        break
            # --- the operational reading: BFS over single edits from the reference string
            if k <= 3 and len(ref) <= 4 and len(alpha) <= 3:
                reach = reach_within(ref, alpha, k, ins, dele, sub)
                if reach is not None:
                    ctx.stat("operational_bfs_oracle")
                    ctx.stat("operational_bfs_words", len(reach))
                    for w in sorted(reach, key=lambda x: (len(x), x)):     # positive side: complete
                        if not R.accepts_input(w):
                            ctx.prop_fail(f"edit_distance({alpha!r}, {shown(ref)}, k={k}, ins={ins}, del={dele}, sub={sub}) rejects {shown(w)}, "
                                          f"which is reached from the reference string by at most {k} single enabled edits",
                                          dict(case, failure="language-operational", word=w, result_accepts=False,
                                               expected=True), None)
                            break
                    else:
                        for w in LR:                                      # negative side: up to the bound
                            if w not in reach and R.accepts_input(w):
                                ctx.prop_fail(f"edit_distance({alpha!r}, {shown(ref)}, k={k}, ins={ins}, del={dele}, sub={sub}) accepts {shown(w)}, "
                                              f"which no sequence of at most {k} single enabled edits produces",
                                              dict(case, failure="language-operational", word=w, result_accepts=True,
                                                   expected=False), None)
                                break
                    # the two independent oracles (alignment DP, operational BFS) must agree: spec sanity
                    for w in gen.words_upto(alpha, bound):
                        if dp_within(ref, w, k, ins, dele, sub) != (w in reach):
                            ctx.note(f"ORACLES DISAGREE (alignment DP vs operational BFS) on ref={ref!r} k={k} "
                                     f"flags={(ins, dele, sub)} word={w!r}")
                            ctx.stat("oracle_disagreement")
                            break
            # --- targeted words near the boundary (for long references the enumeration above is far away):
            # j ∈ {k-1, k, k+1} random enabled single edits applied to the reference string
            for j in (k - 1, k, k + 1):
                if j < 0:
                    continue
                for _rep in range(3):
                    w = random_edits(ctx.rng, ref, alpha, j, ins, dele, sub)
                    if w is None:
                        break
                    exp = True if j <= k else dp_within(ref, w, k, ins, dele, sub)
                    ctx.stat(f"targeted_word_j_minus_k_{j - k}_{'in' if exp else 'out'}")
                    got = R.accepts_input(w)
                    if got != exp:
                        how = (f"was produced by {j} ≤ k single enabled edits" if j <= k else
                               f"is not within {k} enabled edits (alignment DP; produced by {j} edits)")
                        ctx.prop_fail(f"edit_distance({alpha!r}, {shown(ref)}, k={k}, ins={ins}, del={dele}, sub={sub}) "
                                      f"{'accepts' if got else 'rejects'} {shown(w)}, which {how}",
                                      dict(case, failure="language-targeted", word=w, result_accepts=got, expected=exp), None)
                        break
            # --- deterministic neighbours of the reference string, when the enumeration above stops short of it
            if len(ref) > bound or extra_words:
                for w in [x for x in extra_words if set(x) <= set(alpha)] + (boundary_words(ref, alpha) if len(ref) > bound else []):
                    exp = dp_within(ref, w, k, ins, dele, sub)
                    ctx.stat(f"boundary_word_{'in' if exp else 'out'}")
                    got = R.accepts_input(w)
                    if got != exp:
                        ctx.prop_fail(f"edit_distance({alpha!r}, {shown(ref)}, k={k}, ins={ins}, del={dele}, sub={sub}) "
                                      f"{'accepts' if got else 'rejects'} {shown(w)}, which is "
                                      f"{'within' if exp else 'not within'} {k} enabled edits (alignment DP)",
                                      dict(case, failure="language-boundary", word=w, result_accepts=got, expected=exp), None)
                        break
            # a word with a foreign symbol is never accepted
            for w in (foreign, ref + foreign, foreign + ref, ref[:1] + foreign + ref[1:]):
                if R.accepts_input(w):
                    ctx.prop_fail(f"edit_distance NFA accepts {w!r} containing a symbol outside the alphabet",
                                  dict(case, failure="foreign symbol", word=w), None)
                    break
            if call(R.validate)[0] == "err":
                ctx.prop_fail("edit_distance returned an invalid NFA", dict(case, failure="invalid"), None)
    else:
        # reference string outside the alphabet (admissible k and flags): theorem C16_ref_outside_alphabet
        if res != ("err", "InvalidSymbolError"):
            ctx.prop_fail(f"edit_distance with reference string {ref!r} not over the alphabet {sorted(sigma)!r} was not "
                          f"refused with InvalidSymbolError: {res[0]} {res[1] if res[0] == 'err' else ''}",
                          dict(case, failure="ref outside alphabet not refused"), None)
    nontrivial = in_domain and not should_refuse and len(ref) >= 1 and 1 <= k < len(ref) + 2
    ctx.case((tuple(sorted(sigma)), ref, k, ins, dele, sub) if nontrivial else None)
    ctx.stat(origin)
    ctx.stat(f"flags_{int(ins)}{int(dele)}{int(sub)}")
    ctx.stat("k_negative" if k < 0 else f"k_{min(k, 4)}")
    ctx.stat(f"ref_len_{min(len(ref), 6)}" if len(ref) <= 256 else "ref_len_gt256")
    if k > 256:
        ctx.stat("k_gt256")
    if not in_domain:
        ctx.stat("ref_outside_alphabet")
    if res[0] == "err":
        ctx.stat("impl_raised_" + res[1])
    if ctx.evaluations % 211 == 1:
        ctx.sample(dict(case, result=repr(res[1])[:600] if res[0] == "ok" else res, model_line=line[:300]))
    if model and impl != mod:
        if len(ref) + max(k, 0) > 40:       # keep the evidence readable: a 300 × 3 grid is not
            impl, mod = repr(impl)[:1500], repr(mod)[:1500]
        ctx.corr_diff("EDIT", case, impl, mod)


FLAGS = list(itertools.product([False, True], repeat=3))

# ------------------------------------------------------------------ round 4: the mutable-automata option
LIVE_MODES = ["live", "copy"]
INTERLEAVED = {
    # calls a user makes on the NFA between two membership queries; their results are not judged here (C07 / C08 / C09
    # do that) — the point is that they must not change what the NFA accepts afterwards
    "determinise": lambda R: __import__("automata.fa.dfa", fromlist=["DFA"]).DFA.from_nfa(R),
    "eliminate_lambda": lambda R: R.eliminate_lambda(),
    "reverse": lambda R: R.reverse(),
    "self_quotient": lambda R: R.right_quotient(R),
    "equals_copy": lambda R: R == R.copy(),
    "stepwise": lambda R: list(R.read_input_stepwise("")),
}


def live_words(sigma, ref: str, k: int, ins: bool, dele: bool, sub: bool, order_seed: int, max_words: int):
    """The queries of one live case, a function of the arguments and `order_seed` only: every word up to a length
    bound, the deterministic neighbours of the reference string, words made by k−1, k, k+1 random enabled edits and
    two words with a foreign symbol — asked in a shuffled order, then all of them AGAIN in another order."""
    rnd = random.Random(order_seed)
    alpha = sorted(sigma)
    bound = min(len(ref) + k + 1, 7)
    while bound > 1 and sum(len(alpha) ** i for i in range(bound + 1)) > max_words:
        bound -= 1
    ws = list(gen.words_upto(alpha, bound)) + boundary_words(ref, alpha)
    for j in (k - 1, k, k + 1):
        for _ in range(2):
            w = random_edits(rnd, ref, alpha, j, ins, dele, sub) if j >= 0 else None
            if w is not None:
                ws.append(w)
    foreign = foreign_for(alpha)
    ws += [ref + foreign, foreign]
    ws = list(dict.fromkeys(ws))
    first, second = list(ws), list(ws)
    rnd.shuffle(first)
    rnd.shuffle(second)
    return first + second, rnd


def check_live(ctx: Ctx, sigma, ref: str, k: int, ins: bool, dele: bool, sub: bool, mode: str, order_seed: int,
               interleave: int, origin: str, max_words: int = 130, model: bool = True):
    """allow_mutable_automata=True: the NFA is built ONCE (mode "live": as edit_distance returns it, holding the plain
    dicts / sets the construction made; "copy": its `.copy()` under the option, which shares every container with the
    original) and asked SEVERAL membership questions; `interleave` other calls are made on it in between.  Every
    answer is judged by the alignment DP on the ARGUMENTS — an answer must not depend on the queries made before.
    Arguments are valid ones (k ≥ 0, some kind enabled, reference over the alphabet)."""
    step = dict(kind="mutable_option", input_symbols=sorted(sigma), reference_str=ref, max_edit_distance=k, insertion=ins,
                deletion=dele, substitution=sub, mode=mode, order_seed=order_seed, interleave=interleave, max_words=max_words)
    CALLS.append(step)
    n_before = len(ctx.prop_fails)
    try:
        _check_live(ctx, step, sigma, ref, k, ins, dele, sub, mode, order_seed, interleave, origin, max_words, model)
    finally:
        for f in ctx.prop_fails[n_before:]:
            f["_calls"] = len(CALLS)
            f["_tail"] = [dict(step)]


def _check_live(ctx, step, sigma, ref, k, ins, dele, sub, mode, order_seed, interleave, origin, max_words, model):
    sy = Names(sorted(set(sigma) | set(ref)))
    what = (f"under allow_mutable_automata=True ({mode}), edit_distance({sorted(sigma)!r}, {shown(ref)}, k={k}, ins={ins}, "
            f"del={dele}, sub={sub})")
    keep = []
    with M.mutable_option():
        res = call(lambda: NFA.edit_distance(set(sigma), ref, k, insertion=ins, deletion=dele, substitution=sub))
        ctx.stat(origin)
        ctx.stat(f"mutable_option_{mode}")
        if res[0] == "err":
            ctx.case(None)
            ctx.prop_fail(f"{what} raised {res[1]} on valid arguments", dict(step, failure=res[1]), None)
            return
        R = res[1]
        if model:
            order = [sy(a) for a in set(sigma)]
            line = ctx.driver("drv_nfa_ops").ask(
                toks("EDIT", len(order), order, len(ref), [sy(c) for c in ref], k, ins, dele, sub))
            mod = L.parse_res_nfag(line)
            impl = ("ok", L.plain(R, sy, lambda q: tuple(q) if isinstance(q, tuple) else ("?", repr(q))))
            if impl != mod:
                ctx.corr_diff("EDIT (allow_mutable_automata=True)", step, repr(impl)[:1500], repr(mod)[:1500])
        if mode == "copy":
            keep.append(R)
            c = call(R.copy)
            if c[0] == "err":
                ctx.case(None)
                ctx.prop_fail(f"{what}: .copy() raised {c[1]}", dict(step, failure=c[1]), None)
                return
            R = c[1]
        queries, rnd = live_words(sigma, ref, k, ins, dele, sub, order_seed, max_words)
        small = (len(ref) + 1) * (k + 1) <= 24
        names = sorted(INTERLEAVED) if small else ["stepwise", "equals_copy"]
        at = {rnd.randrange(len(queries)): rnd.choice(names) for _ in range(interleave)}
        ok = True
        for i, w in enumerate(queries):
            if i in at:
                ctx.stat("mutable_option_interleaved_" + at[i])
                call(lambda: INTERLEAVED[at[i]](R))          # result judged elsewhere; must leave R's language alone
            exp = set(w) <= set(sigma) and dp_within(ref, w, k, ins, dele, sub)
            got = call(lambda: R.accepts_input(w))
            ctx.stat("mutable_option_query")
            if got != ("ok", exp):
                ok = False
                before = [f"{n} before query {j + 1}" for j, n in sorted(at.items()) if j <= i]
                ctx.prop_fail(f"{what}: query {i + 1} of {len(queries)} on the same NFA"
                              + (f" (other calls on it: {', '.join(before)})" if before else "")
                              + f": accepts_input({shown(w)}) is {got[1] if got[0] == 'ok' else 'raised ' + got[1]}, but the word is "
                              f"{'within' if exp else 'not within'} {k} enabled edits of the reference string (alignment DP)",
                              dict(step, failure="language-live", word=w, query=i + 1, expected=exp), None)
                break
        if ok and call(R.validate)[0] == "err":
            ok = False
            ctx.prop_fail(f"{what}: the NFA no longer validates after {len(queries)} queries", dict(step, failure="invalid"), None)
        nontrivial = len(ref) >= 1 and 1 <= k < len(ref) + 2
        ctx.case(("live", tuple(sorted(sigma)), ref, k, ins, dele, sub, mode) if ok and nontrivial else None)
        del keep


def mutable_option_family(ctx: Ctx):
    """Bounded-exhaustive part: every reference string of length ≤2 over {a,b} and over {a}, k ∈ {0,1,2}, the 7 admissible
    flag sets, live object, every word up to |ref|+k+1 (+ neighbours, random edits, foreign symbols) asked twice in
    shuffled orders.  Random part: alphabets of 1–3 symbols, references ≤5, k ≤ 3, live object or its copy, 0–2 other
    calls (determinise, eliminate_lambda, reverse, A/A, == copy, stepwise read) between the queries."""
    rng = ctx.rng
    for alpha, maxlen in ((("a", "b"), 2), (("a",), 2)):
        for n in range(maxlen + 1):
            for ref in map("".join, itertools.product(alpha, repeat=n)):
                for k in (0, 1, 2):
                    for fl in FLAGS[1:]:
                        check_live(ctx, alpha, ref, k, *fl, mode="live", order_seed=rng.randrange(10 ** 6), interleave=0,
                                   origin="mutable_option_exhaustive")
    ctx.exhaustive("allow_mutable_automata=True: every reference string of length ≤2 over {a,b} and over {a}, k ∈ {0,1,2}, "
                   "7 flag sets; ONE NFA per case, every word up to length |ref|+k+1 asked twice in shuffled orders, each "
                   "answer judged by the DP")
    for _ in range(ctx.budget(150, 1500)):
        alpha = list(rng.choice([("a", "b"), ("a",), ("a", "b", "c"), ("0", "1"), (".", "a")]))
        n = rng.randint(0, 5)
        ref = rng.choice(alpha) * n if rng.random() < 0.25 else "".join(rng.choice(alpha) for _ in range(n))
        k = rng.choice([0, 1, 1, 2, 2, 3])
        check_live(ctx, alpha, ref, k, *rng.choice(FLAGS[1:]), mode=rng.choice(LIVE_MODES), order_seed=rng.randrange(10 ** 6),
                   interleave=rng.choice([0, 1, 2]), origin="mutable_option", max_words=100)


# ------------------------------------------------------------------ round 5: the library's GLOBAL OPTIONS
# automata.base.config has two process-wide switches: should_validate_automata (default True; False = the constructor
# skips the consistency validation of the DEFINITION) and allow_mutable_automata (default False; True = the
# constructor keeps the caller's containers).  Neither is an argument of edit_distance and the property does not
# mention them: "for every alphabet, reference string, bound, enabled subset" and "a negative bound or no enabled
# kind is refused with ValueError" hold for every setting of both.  First = the default configuration (control).
OPTION_COMBOS = [(True, False), (False, False), (True, True), (False, True)]      # (should_validate, allow_mutable)


class global_options:
    """`with global_options(validate, mutable):` — both switches of automata.base.config are set inside; the values
    found on entry are put back on exit, also when the body raises."""

    def __init__(self, validate: bool, mutable: bool):
        self.validate, self.mutable = validate, mutable

    def __enter__(self):
        self.old = (global_config.should_validate_automata, global_config.allow_mutable_automata)
        global_config.should_validate_automata = self.validate
        global_config.allow_mutable_automata = self.mutable
        return self

    def __exit__(self, *a):
        global_config.should_validate_automata, global_config.allow_mutable_automata = self.old


_MODEL_LINES: dict = {}     # argument tuple -> answer of the model (the model has no options: one answer per tuple)


def check_options(ctx: Ctx, sigma, ref: str, k: int, ins: bool, dele: bool, sub: bool, validate: bool, mutable: bool,
                  origin: str, max_words: int = 70, model: bool = True):
    """ONE edit_distance call (and, when it returns, the membership queries on its result) under the given values of
    the two global switches, judged by the same oracle as in the default configuration:
      * k < 0 or no kind enabled                      -> ValueError, whatever the switches (and whatever the reference);
      * otherwise, reference over the alphabet        -> an NFA; every word up to the length bound, the neighbours of
        the reference string and four words with a foreign symbol judged by the alignment DP on the ARGUMENTS; the
        result passes an explicit .validate();
      * otherwise (reference outside the alphabet)    -> InvalidSymbolError when should_validate_automata is True
        (C16_ref_outside_alphabet); with the definition validation switched off this refusal IS what the switch
        documents away, so the case is counted and not judged.
    The queries are deterministic (no random-edit words): the recorded step is the whole case."""
    step = dict(kind="global_options", input_symbols=sorted(sigma), reference_str=ref, max_edit_distance=k, insertion=ins,
                deletion=dele, substitution=sub, should_validate_automata=validate, allow_mutable_automata=mutable,
                max_words=max_words)
    CALLS.append(step)
    n_before = len(ctx.prop_fails)
    entry = (global_config.should_validate_automata, global_config.allow_mutable_automata)
    try:
        with global_options(validate, mutable):
            _check_options(ctx, step, sigma, ref, k, ins, dele, sub, validate, mutable, origin, max_words, model)
    finally:
        if (global_config.should_validate_automata, global_config.allow_mutable_automata) != entry:
            # the library itself flipped a switch during the call and left it: put it back, and say so
            left = (global_config.should_validate_automata, global_config.allow_mutable_automata)
            global_config.should_validate_automata, global_config.allow_mutable_automata = entry
            ctx.stat("global_options_switch_left_changed")
            ctx.note(f"after edit_distance under options {(validate, mutable)} the global switches were left at {left} (restored)")
        for f in ctx.prop_fails[n_before:]:
            f["_calls"] = len(CALLS)
            f["_tail"] = [dict(step)]


def _check_options(ctx, step, sigma, ref, k, ins, dele, sub, validate, mutable, origin, max_words, model):
    sy = Names(sorted(set(sigma) | set(ref)))
    alpha = sorted(sigma)
    opts = f"should_validate_automata={validate}, allow_mutable_automata={mutable}"
    what = f"under {opts}: edit_distance({alpha!r}, {shown(ref)}, k={k}, ins={ins}, del={dele}, sub={sub})"
    res = call(lambda: NFA.edit_distance(set(sigma), ref, k, insertion=ins, deletion=dele, substitution=sub))
    in_domain = all(c in sigma for c in ref)
    should_refuse = k < 0 or not (ins or dele or sub)
    tag = f"v{int(validate)}m{int(mutable)}"
    ctx.stat(origin)
    ctx.stat(f"global_options_{tag}")
    ok = True
    judged = True
    if should_refuse:
        why = "negative_bound" if k < 0 else "no_edit_kind"
        if k < 0 and not (ins or dele or sub):
            why = "negative_bound_and_no_edit_kind"
        ctx.stat(f"global_options_refusal_{why}")
        ctx.stat(f"global_options_refusal_{tag}")
        if not in_domain:
            ctx.stat("global_options_refusal_with_ref_outside_alphabet")
        if res != ("err", "ValueError"):
            ok = False
            if res[0] == "ok":
                try:
                    got = f"returned an NFA with {len(res[1].states)} states"
                except Exception:                                              # noqa: BLE001
                    got = "returned " + type(res[1]).__name__
            else:
                got = "raised " + res[1]
            # which settings of the switches refuse these very arguments (names the switch the refusal depends on)
            others = []
            for v2, m2 in OPTION_COMBOS:
                with global_options(v2, m2):
                    r2 = call(lambda: NFA.edit_distance(set(sigma), ref, k, insertion=ins, deletion=dele, substitution=sub))
                others.append(f"({v2}, {m2}): {'ValueError' if r2 == ('err', 'ValueError') else 'NOT refused' if r2[0] == 'ok' else r2[1]}")
            ctx.prop_fail(f"{what} — {'a negative bound' if k < 0 else 'no edit kind enabled'} — was not refused with "
                          f"ValueError: {got} [same arguments under (should_validate, allow_mutable) = {'; '.join(others)}]",
                          dict(step, failure="not refused"), None)
    elif not in_domain:
        ctx.stat("global_options_ref_outside_alphabet")
        if validate:
            if res != ("err", "InvalidSymbolError"):
                ok = False
                ctx.prop_fail(f"{what} with a reference string not over the alphabet was not refused with "
                              f"InvalidSymbolError: {res[0]} {res[1] if res[0] == 'err' else ''}",
                              dict(step, failure="ref outside alphabet not refused"), None)
        else:
            judged = False
            ctx.stat("global_options_ref_outside_alphabet_validation_off_not_judged")
    else:
        ctx.stat(f"global_options_accepted_{tag}")
        if res[0] == "err":
            ok = False
            ctx.prop_fail(f"{what} raised {res[1]} on valid arguments", dict(step, failure=res[1]), None)
        else:
            R = res[1]
            bound = min(len(ref) + k + 1, 7)
            while bound > 1 and sum(len(alpha) ** i for i in range(bound + 1)) > max_words:
                bound -= 1
            foreign = foreign_for(alpha)
            ws = list(gen.words_upto(alpha, bound)) + boundary_words(ref, alpha)
            ws += [foreign, ref + foreign, foreign + ref, ref[:1] + foreign + ref[1:]]
            for w in dict.fromkeys(ws):
                exp = set(w) <= set(sigma) and dp_within(ref, w, k, ins, dele, sub)
                got = call(lambda: R.accepts_input(w))
                ctx.stat("global_options_query")
                if got != ("ok", exp):
                    ok = False
                    ctx.prop_fail(f"{what}: accepts_input({shown(w)}) is {got[1] if got[0] == 'ok' else 'raised ' + got[1]}, "
                                  f"but the word is {'within' if exp else 'not within'} {k} enabled edits of the reference "
                                  f"string (alignment DP)", dict(step, failure="language-options", word=w, expected=exp), None)
                    break
            if ok:
                v = call(R.validate)
                if v[0] == "err":
                    ok = False
                    ctx.prop_fail(f"{what} returned an NFA that does not pass validate(): {v[1]}",
                                  dict(step, failure="invalid"), None)
    nontrivial = ok and judged and (should_refuse or (in_domain and len(ref) >= 1 and 1 <= k < len(ref) + 2))
    ctx.case(("options", tuple(alpha), ref, k, ins, dele, sub, validate, mutable) if nontrivial else None)
    if res[0] == "err":
        ctx.stat("global_options_raised_" + res[1])
    # --- correspondence: the model has no switches; its answer is the answer for every setting (except the one
    # refusal that should_validate_automata=False documents away)
    if model and judged:
        key = (tuple(alpha), ref, k, ins, dele, sub)
        if key not in _MODEL_LINES:
            order = [sy(a) for a in set(sigma)]
            _MODEL_LINES[key] = L.parse_res_nfag(ctx.driver("drv_nfa_ops").ask(
                toks("EDIT", len(order), order, len(ref), [sy(c) for c in ref], k, ins, dele, sub)))
        mod = _MODEL_LINES[key]
        if res[0] == "ok":
            p = call(lambda: L.plain(res[1], sy, lambda q: tuple(q) if isinstance(q, tuple) else ("?", repr(q))))
            impl = ("ok", p[1]) if p[0] == "ok" else ("ok", "unreadable result: " + p[1])
        else:
            impl = res
        if impl != mod:
            ctx.corr_diff(f"EDIT ({opts})", step, repr(impl)[:1500], repr(mod)[:1500])


def global_options_family(ctx: Ctx):
    """Round 5.  Every REFUSAL case of the bounded-exhaustive part (every reference string of length ≤3 over {a,b}, ≤2
    over {a}, the empty one over ∅; k = −1 with all 8 flag sets, k ∈ {0,1,2} with no kind enabled), far negative bounds,
    refusals whose reference string is not over the alphabet or is made of special characters, and a random stream
    of refused argument tuples — and a SLICE of the accepted cases (every reference string of length ≤2 over {a,b},
    k ∈ {0,1,2}, 7 flag sets; a random stream over 1–3 symbols, references ≤5, k ≤ 3) — each under all four
    combinations of should_validate_automata × allow_mutable_automata."""
    rng = ctx.rng
    entry = (global_config.should_validate_automata, global_config.allow_mutable_automata)

    def all_combos(sigma, ref, k, fl, origin, **kw):
        for validate, mutable in OPTION_COMBOS:
            check_options(ctx, sigma, ref, k, *fl, validate=validate, mutable=mutable, origin=origin, **kw)

    try:
        # 1. refusals, bounded-exhaustive: the same sub-domain as part 1 of run_families
        for alpha, maxlen in ((("a", "b"), 3), (("a",), 2), ((), 0)):
            for n in range(maxlen + 1):
                for ref in map("".join, itertools.product(alpha, repeat=n)):
                    for fl in FLAGS:
                        all_combos(alpha, ref, -1, fl, "global_options_refusal_exhaustive")
                    for k in (0, 1, 2):
                        all_combos(alpha, ref, k, (False, False, False), "global_options_refusal_exhaustive")
        # far negative bounds; refusal takes precedence over a reference string outside the alphabet; special symbols
        for ref in ("", "a", "ab"):
            for k in (-2, -256, -257, -10 ** 6):
                for fl in ((True, True, True), (False, True, False), (False, False, False)):
                    all_combos(("a", "b"), ref, k, fl, "global_options_refusal_exhaustive")
        for sigma, ref in ((("a",), "b"), (("a",), "ab"), ((), "a"), ((".", "a"), "."), (("*", "\n"), "*\n*")):
            for k, fl in ((-1, (True, True, True)), (-1, (False, False, True)), (0, (False, False, False)),
                          (1, (False, False, False)), (-3, (False, False, False))):
                all_combos(sigma, ref, k, fl, "global_options_refusal_exhaustive")
        ctx.exhaustive("global options: every refused argument tuple with a reference string of length ≤3 over {a,b}, ≤2 over "
                       "{a}, empty over ∅ (k = −1 with all 8 flag sets; k ∈ {0,1,2} with no kind enabled), bounds −2, −256, −257, "
                       "−10^6, refusals with a reference string outside the alphabet — each under all 4 combinations of "
                       "should_validate_automata × allow_mutable_automata: ValueError")
        # 2. refusals, random
        for _ in range(ctx.budget(60, 600)):
            if rng.random() < 0.35:
                alpha = rng.sample(SPECIAL_SYMBOLS, rng.randint(1, 3))
            else:
                alpha = list(rng.choice([("a", "b"), ("a",), ("a", "b", "c"), ("0", "1"), ("x", "y", "z", "w"), ()]))
            n = rng.choice([257, 300]) if rng.random() < 0.08 else rng.randint(0, 7)
            ref = "".join(rng.choice(alpha) for _ in range(n)) if alpha else ""
            if rng.random() < 0.5:
                k, fl = rng.choice([-1, -1, -2, -3, -5, -256, -257, -1000]), rng.choice(FLAGS)
            else:
                k, fl = rng.choice([0, 1, 2, 3, 7, 300]), (False, False, False)
                if n > 7 and k > 3:
                    k = 2                                                # (a tree that does not refuse builds the grid)
            if rng.random() < 0.1 and ref:
                alpha = [a for a in alpha if a != ref[0]]                # refusal comes before the constructor
            all_combos(alpha, ref, k, fl, "global_options_refusal_random")
        # 3. a slice of the accepted cases, bounded-exhaustive
        for n in range(3):
            for ref in map("".join, itertools.product("ab", repeat=n)):
                for k in (0, 1, 2):
                    for fl in FLAGS[1:]:
                        all_combos(("a", "b"), ref, k, fl, "global_options_accepted_exhaustive")
        ctx.exhaustive("global options: every reference string of length ≤2 over {a,b}, k ∈ {0,1,2}, 7 flag sets under all 4 "
                       "combinations of should_validate_automata × allow_mutable_automata; all words up to length |ref|+k+1 "
                       "(+ neighbours of the reference, foreign-symbol words) judged by the DP")
        # 4. accepted cases, random (8 %: reference outside the alphabet — InvalidSymbolError when validation is on)
        for _ in range(ctx.budget(40, 500)):
            if rng.random() < 0.3:
                alpha = rng.sample(SPECIAL_SYMBOLS, rng.randint(1, 3))
            else:
                alpha = list(rng.choice([("a", "b"), ("a",), ("a", "b", "c"), ("0", "1")]))
            n = rng.randint(0, 5)
            ref = rng.choice(alpha) * n if rng.random() < 0.25 else "".join(rng.choice(alpha) for _ in range(n))
            k = rng.choice([0, 1, 1, 2, 2, 3])
            fl = rng.choice(FLAGS[1:])
            if rng.random() < 0.08 and ref:
                alpha = [a for a in alpha if a != ref[0]]
            all_combos(alpha, ref, k, fl, "global_options_accepted_random", max_words=100)
    finally:
        _MODEL_LINES.clear()
        if (global_config.should_validate_automata, global_config.allow_mutable_automata) == entry:
            ctx.stat("global_options_switches_restored")
        else:
            global_config.should_validate_automata, global_config.allow_mutable_automata = entry
            ctx.stat("global_options_switches_NOT_restored")


def probe_empty_symbol(ctx: Ctx):
    """'' among the input symbols (F28, repaired by /repo 07f4843: the constructors refuse it).  If it
    is accepted again, "" as an input symbol makes add_any_transition add an ε-edge, i.e. a deletion
    although deletion is disabled: the result is judged by the DP like any other (strings over
    {'', 'a'} are the strings over {'a'}), and a wrong word is a failing input."""
    for sigma, ref, k, ins, dele, sub in (({"", "a"}, "aa", 1, False, False, True),
                                          ({"", "a", "b"}, "ab", 1, True, False, False),
                                          ({"", "a"}, "a", 0, True, True, True)):
        r = call(lambda: NFA.edit_distance(set(sigma), ref, k, insertion=ins, deletion=dele, substitution=sub))
        ctx.case(None)
        if r == ("err", "InvalidSymbolError"):
            ctx.stat("probe_empty_string_symbol_refused")
            continue
        ctx.stat("probe_empty_string_symbol_NOT_refused")
        rp = dict(kind="empty_symbol", sigma=sorted(sigma), ref=ref, k=k, ins=ins, dele=dele, sub=sub)
        if r[0] == "err":
            ctx.prop_fail(f"edit_distance({sorted(sigma)!r}, {ref!r}, {k}, ins={ins}, del={dele}, sub={sub}) with the empty "
                          f"string among the input symbols is neither refused with InvalidSymbolError nor answered: "
                          f"{r[1]}", rp, None)
            continue
        letters = sorted(sigma - {""})
        for w in gen.words_upto(letters, 4):
            want = dp_within(ref, w, k, ins, dele, sub)
            got = call(lambda: r[1].accepts_input(w))
            if got != ("ok", want):
                ctx.prop_fail(f"edit_distance({sorted(sigma)!r}, {ref!r}, {k}, ins={ins}, del={dele}, sub={sub}) — the empty "
                              f"string is accepted as an input symbol — answers {got} for {w!r}, which is "
                              f"{'' if want else 'not '}within {k} enabled edits of the reference", dict(rp, word=w), None)
                break


def judge_program_json(text: str):
    """Entry point of the fresh-interpreter confirmation (harness/fresh.py) and of `replay` for recorded sequences: run
    the recorded cases in order through the real library, property only; returns the failures."""
    ctx = Ctx("C16", "quick", 0)
    out = []
    for i, c in enumerate(json.loads(text)):
        n = len(ctx.prop_fails)
        if c.get("kind") == "mutable_option":
            check_live(ctx, c["input_symbols"], c["reference_str"], c["max_edit_distance"], c["insertion"], c["deletion"],
                       c["substitution"], c["mode"], c["order_seed"], c["interleave"], origin="replay",
                       max_words=c.get("max_words", 130), model=False)
            out += [(i, f["what"]) for f in ctx.prop_fails[n:]]
            continue
        if c.get("kind") == "global_options":
            check_options(ctx, c["input_symbols"], c["reference_str"], c["max_edit_distance"], c["insertion"], c["deletion"],
                          c["substitution"], c["should_validate_automata"], c["allow_mutable_automata"], origin="replay",
                          max_words=c.get("max_words", 70), model=False)
            out += [(i, f["what"]) for f in ctx.prop_fails[n:]]
            continue
        check_one(ctx, c["input_symbols"], c["reference_str"], c["max_edit_distance"], c["insertion"], c["deletion"],
                  c["substitution"], origin="replay", model=False, extra_words=[c["word"]] if "word" in c else ())
        out += [(i, f["what"]) for f in ctx.prop_fails[n:]]
    return out


def settle_replays(ctx: Ctx):
    """The failure run.py prints must fail as the first call of a fresh interpreter; otherwise its replay becomes the
    recorded edit_distance calls that lead to it (harness/fresh.py; related calls = same alphabet)."""
    from harness import fresh

    def as_step(rp):
        keys = ("input_symbols", "reference_str", "max_edit_distance", "insertion", "deletion", "substitution", "word")
        return {k: rp[k] for k in keys if k in rp}

    def make_replay(steps, rp, n_history):
        return dict(kind="sequence", cases=steps, failure=rp.get("failure"))

    fresh.settle_replays(ctx, "C16", CALLS, as_step, lambda c: {frozenset(c["input_symbols"])}, make_replay)


def run(ctx: Ctx):
    try:
        run_families(ctx)
    finally:
        settle_replays(ctx)


def run_families(ctx: Ctx):
    rng = ctx.rng
    thorough = ctx.thorough()
    probe_empty_symbol(ctx)
    # 1. bounded-exhaustive
    for alpha, maxlen in ((("a", "b"), 3), (("a",), 2), ((), 0)):
        for n in range(maxlen + 1):
            for ref in map("".join, itertools.product(alpha, repeat=n)):
                for k in (-1, 0, 1, 2):
                    for fl in FLAGS:
                        check_one(ctx, alpha, ref, k, *fl, origin="exhaustive")
    ctx.exhaustive("every reference string of length ≤3 over {a,b}, ≤2 over {a}, the empty string over ∅; "
                   "k ∈ {-1,0,1,2}; all 8 flag combinations; all words up to length |ref|+k+1")
    if thorough:
        for ref in map("".join, itertools.product("abc", repeat=3)):
            for k in (1, 2):
                for fl in FLAGS[1:]:
                    check_one(ctx, "abc", ref, k, *fl, origin="exhaustive3")
        ctx.exhaustive("every reference string of length 3 over {a,b,c}, k ∈ {1,2}, 7 flag sets")
    # 1b. round 3: special characters as ordinary symbols; references / bounds beyond 256
    special_symbol_families(ctx)
    long_families(ctx)
    # 1c. round 4: the mutable-automata option — several queries (and other calls) on ONE NFA
    mutable_option_family(ctx)
    # 1d. round 5: the two global switches of automata.base.config — refusals (all) and accepted cases (a slice)
    global_options_family(ctx)
    # 2. shaped random
    for _ in range(ctx.budget(1500, 12000)):
        alpha = list(rng.choice([("a", "b"), ("a",), ("a", "b", "c"), ("0", "1"), ("x", "y", "z", "w"), ("b", "a", "é")]))
        shape = rng.random()
        n = rng.randint(0, 7)
        if shape < 0.2:
            ref = rng.choice(alpha) * n
        elif shape < 0.4:
            p = "".join(rng.choice(alpha) for _ in range(rng.randint(1, 2)))
            ref = (p * 8)[:n]
        else:
            ref = "".join(rng.choice(alpha) for _ in range(n))
        k = rng.choice([0, 1, 1, 2, 2, 3, 4, -1, -3])
        fl = rng.choice(FLAGS) if rng.random() < 0.9 else (False, False, False)
        if rng.random() < 0.06 and ref:
            # reference string outside the alphabet (constructor refuses) / alphabet reduced
            alpha = [a for a in alpha if a != ref[0]]
        check_one(ctx, alpha, ref, k, *fl, origin="random", max_words=250 if not thorough else 700)


# Characters that are special SOMEWHERE in the library or in Python tooling (regex syntax of automata.regex and of
# `re`, format / repr / JSON / glob metacharacters, blanks and control characters, digits, characters whose case
# mapping or normal form is irregular, combining / non-BMP characters).  To edit_distance they are all ordinary
# symbols: the property quantifies over every alphabet.
SPECIAL_SYMBOLS = [".", "*", "|", "(", ")", "?", "&", "+", "^", "{", "}", "[", "]", "$", "\\", "/", "-", ",", ":", ";",
                   "'", '"', "`", "~", "!", "@", "#", "%", "_", "=", "<", ">", " ", "\t", "\n", "\x00", "\x7f", "\xa0",
                   "0", "1", "9", "\u00e9", "\u00df", "\u0130", "\u03b5", "\u03bb", "\u03a3", "\u0301", "\u2603",
                   "\U0001d4b3"]


def special_symbol_families(ctx: Ctx):
    """Alphabets and reference strings made of characters that are special somewhere else (round 3).
    Bounded-exhaustive part: every such character c, alphabet {c, a}, reference strings c and a·c·a, k ∈ {0,1}, the
    three single kinds and all kinds together.  Random part: alphabets of 2–4 such characters (sometimes with a
    letter), reference strings of length ≤5 over them, k ≤ 2, any flag set."""
    rng = ctx.rng
    some_flags = [(True, True, True), (True, False, False), (False, True, False), (False, False, True)]
    for c in SPECIAL_SYMBOLS:
        for ref in (c, "a" + c + "a"):
            for k in (0, 1):
                for fl in some_flags:
                    check_one(ctx, [c, "a"], ref, k, *fl, origin="special_symbol_exhaustive", max_words=130)
    ctx.exhaustive(f"each of {len(SPECIAL_SYMBOLS)} characters c that are special elsewhere (regex / format / blank / control / "
                   "digit / non-ASCII / combining / non-BMP): alphabet {c,a}, reference strings c and a·c·a, k ∈ {0,1}, "
                   "flag sets all / insertion / deletion / substitution; all words up to length |ref|+k+1")
    for _ in range(ctx.budget(250, 3000)):
        alpha = rng.sample(SPECIAL_SYMBOLS, rng.randint(1, 4))
        if rng.random() < 0.3:
            alpha.append(rng.choice("ab"))
        n = rng.randint(0, 5)
        ref = "".join(rng.choice(alpha) for _ in range(n))
        k = rng.choice([0, 1, 1, 2])
        fl = rng.choice(FLAGS[1:])
        if rng.random() < 0.05 and ref and len(alpha) > 1:
            alpha = [a for a in alpha if a != ref[0]]            # reference outside the alphabet: must be refused
        check_one(ctx, alpha, ref, k, *fl, origin="special_symbol_random", max_words=200)


def long_families(ctx: Ctx):
    """Reference strings and bounds beyond 256 (round 3): CPython shares int objects only in −5..256, containers
    change representation with size, recursion depth grows with the grid — none of which the property knows about.
    The enumeration of short words is kept small (they are all far from the reference string); the judgement comes
    from the alignment DP on the deterministic neighbours of the reference string (`boundary_words`) and on words
    made by k−1, k, k+1 random enabled edits; the constructed automaton is still compared exactly with the model."""
    rng = ctx.rng
    thorough = ctx.thorough()
    lengths = [256, 257, 300] + [rng.randint(258, 400) for _ in range(3 if not thorough else 12)]
    if thorough:
        lengths += [255, 258, 511, 512, 513, 600]
    for n in lengths:
        alpha = rng.choice([["a", "b"], ["a"], ["a", "b", "c"], [".", "a"]])
        shape = rng.random()
        if shape < 0.3:
            ref = ("abbab" * (n // 5 + 1))[:n] if "b" in alpha else alpha[0] * n
        elif shape < 0.45:
            ref = alpha[0] * n
        else:
            ref = "".join(rng.choice(alpha) for _ in range(n))
        k = rng.choice([0, 1, 1, 2]) if n <= 400 else rng.choice([0, 1])
        fl = rng.choice(FLAGS[1:]) if rng.random() < 0.6 else (True, True, True)
        check_one(ctx, alpha, ref, k, *fl, origin="long_reference", max_words=40)
    # bound beyond 256 with a short reference string (k larger than the reference length, far)
    big = [("ab", "ab", 257, (True, True, True)), ("ab", "", 300, (True, False, False)), ("a", "aa", 258, (True, False, True))]
    if thorough:
        big += [("ab", "aba", 300, (False, True, True)), ("abc", "abc", 257, (True, True, False)), ("ab", "b", 513, (True, True, True))]
    for alpha, ref, k, fl in big:
        check_one(ctx, list(alpha), ref, k, *fl, origin="long_bound", max_words=60)


def replay(ctx: Ctx, path: str) -> int:
    data = json.load(open(path))
    rp = data.get("replay", data)
    if rp.get("kind") == "sequence":
        for i, what in judge_program_json(json.dumps(rp["cases"])):
            ctx.prop_fail(f"call {i + 1} of {len(rp['cases'])}: {what}", rp, None)
    elif rp.get("kind") == "empty_symbol":
        probe_empty_symbol(ctx)
    elif rp.get("kind") == "mutable_option":
        check_live(ctx, rp["input_symbols"], rp["reference_str"], rp["max_edit_distance"], rp["insertion"], rp["deletion"],
                   rp["substitution"], rp["mode"], rp["order_seed"], rp["interleave"], origin="replay",
                   max_words=rp.get("max_words", 130))
    elif rp.get("kind") == "global_options":
        check_options(ctx, rp["input_symbols"], rp["reference_str"], rp["max_edit_distance"], rp["insertion"], rp["deletion"],
                      rp["substitution"], rp["should_validate_automata"], rp["allow_mutable_automata"], origin="replay",
                      max_words=rp.get("max_words", 70))
    else:
        check_one(ctx, rp["input_symbols"], rp["reference_str"], rp["max_edit_distance"], rp["insertion"],
                  rp["deletion"], rp["substitution"], origin="replay", extra_words=[rp["word"]] if "word" in rp else ())
    if ctx.prop_fails:
        print(f"VIOLATION property=C16 replay={path}")
        print("  " + ctx.prop_fails[0]["what"])
        return 1
    print("replay: property holds on this input now")
    return 0
