"""C07 — NFA/DFA conversions and ε-elimination preserve the language.

Correspondence: DFA_FROM_NFA (retain_names × minify), NFA_FROM_DFA, NFA_ELIM — real
result vs. the Lean model (subset construction through the model of `_expand_dfa`,
`_eliminate_lambda` with its in-loop growth of the final set).  Property oracle
(independent): result validates, same alphabet, complete product search between source
and result finds no distinguishing word; the ε-eliminated NFA has no "" key and every
state is reachable from the initial state.
"""
from __future__ import annotations

import json

from automata.fa.dfa import DFA
from automata.fa.nfa import NFA

from harness import gen, langoracle
from harness import nfa_mutable as M
from harness import dfa_query_lib3 as DL
from harness import dfa_query_lib as QL
from harness import nfa_deep as ND
from harness.common import guarded, Ctx, Toks, call, dfa_plain, enc_dfa, enc_nfa, nfa_plain, toks
from harness.dfaops_common import (check_valid, lang_mismatch, parse_canon, py_canon, render_block, render_subset)

LEVEL = "proof"
RULE = ("cases = (conversion, options, source automaton); all NFAs with ε: 1 state over {a,b}, 2 states over {a} "
        "(+ 2 states over {a,b} sampled / thorough: all) × 4 option combinations of from_nfa, ε-elimination and "
        "from_dfa on all DFAs ≤2 states; shaped random NFAs ≤5 states (ε-cycles, states without rows, empty target "
        "sets, unreachable parts, rows keyed by non-states, the 2ⁿ 'n-th symbol from the end' family); empty alphabet "
        "(exhaustive for ≤2 states + random); a single state with transitions={} (the len(states)<=1 exemption of "
        "validate); sparse 8–12 state NFAs; round 4: (i) determinisations with MORE THAN 128 subset states — n-th symbol "
        "from the end for n = 8 (all options, with / without ε detours) and n = 9, rings of 129 and 130–200 states, random "
        "sparse NFAs with 129–300 reachable subsets; (ii) the mutable-automata option: ONE live NFA built under "
        "allow_mutable_automata=True from plain / ALIASED (one set object for equal target sets, final_states is states, "
        "shared rows) / copied containers, a SEQUENCE of 3–6 conversions and reads on that same object (from_nfa in all "
        "option combinations, eliminate_lambda, accepts_input, from_nfa → from_dfa twice, eliminate_lambda → from_nfa), "
        "every result judged against the definition AS BUILT (frozen twin); bounded-exhaustive for 1-state {a,b} and every "
        "4th 2-state {a} NFA; live DFAs under NFA.from_dfa; round 7: DEEP / LARGE instances (size thresholds: recursion depth, "
        "bounded memos, cut-offs, buffers, quadratic blow-ups) — from JSON specs (harness/nfa_deep.py), through the real constructors: "
        "a chain of 2400–3000 states + an unreachable component of 1100–2000 states with edges into the reachable part; a chain of "
        "1100–2000 steps EACH doubled by an empty-string move, ending in a cycle of 2–5 states; a PURE empty-string chain of 1100–1200 "
        "states and an empty-string CYCLE of 1100–1130 states in front of a tiny automaton (eliminate_lambda, L×L there, on a cycle of "
        "300–450); a chain of 1100–3000 states followed by 'n-th symbol from the end', n = 3–4; a ring / a last state with an edge back "
        "to one of the first four states (1100–3000 states); a fan-out of 1100–3000 targets; for NFA.from_dfa a partial chain DFA of "
        "2400–3000 states with an unreachable component and a complete ring DFA of 1100–3000 states with a trap — DFA.from_nfa in ALL "
        "four option combinations + eliminate_lambda on every NFA of the family (one object per spec; the 1100-cycle: from_nfa only), judged by the CLOSED FORM of the "
        "language on the accepted words (1100–3000+ symbols) and their near misses (one symbol more / fewer / changed at the first, "
        "last, a random place and around places 128, 256, 1000), validity, alphabet, no \"\" key, every state reachable, state counts "
        "where the construction fixes them (correspondence only); NO model round trip for these; each spec also as a small twin (≤ 20 "
        "states: closed form vs table semantics on all words ≤ 11, then the ordinary oracles); a failing step is re-run alone on a "
        "rebuilt object; no answer within 10 s is a failure; non-trivial "
        "= source has ≥2 states and a non-empty, non-universal language; distinct = distinct (conversion, options, source)")
ASSUMPTIONS = [
    "sources are valid automata built through the real constructors",
    "mutable-automata option (round 4): the option only changes the container types the constructor stores; the property "
    "is read as 'the conversion of an object built from plain containers has the language of the definition it was "
    "built with, whatever was called on the object before' — judged against a frozen twin; the model is asked only "
    "while the live object still has that definition (stat mutable_option_definition_changed otherwise)",
    "input symbols are non-empty str (the typed domain AbstractSet[str]): the constructors refuse \"\" as an input "
    "symbol (InvalidSymbolError since /repo 07f4843, checked by a probe on every run) and None as a state name; the "
    "model types a transition label as `Option α` with ε = none, i.e. it reads the code's truthiness tests "
    "(`if input_symbol and next_states`) as 'is not the ε key', which is what they mean for every non-empty str. "
    "Symbols of other types that are falsy (0, 0.0, False, (), frozenset()) are OUTSIDE this domain and the code "
    "mishandles them — replay: NFA(states={0,1}, input_symbols={0,1}, transitions={0:{0:{1}}}, initial_state=0, "
    "final_states={1}) accepts the word [0] but DFA.from_nfa(n) rejects it (the subset construction skips the falsy "
    "symbol 0 as if it were ε); not generated, not claimed",
]
EXPLANATION = ("Theorems C07_* (Props/C07.lean) are about the model; this run ties the model to the code and checks the "
               "language and structural claims on the real results with an independent product search.  The theorems have no size "
               "bound, the product search and the model round trip do (≤ 14 states / ≤ 512 subset states): the deep / large family "
               "(round 7) runs every conversion on automata with 1100–3000 states on one simple path and judges the results by the "
               "closed form of the language, so that a change that only bites beyond a size (recursion limit, bounded memo, cut-off, "
               "buffer, a call that no longer answers) has a failing input in every run.")


def nontrivial(src, n_states) -> bool:
    al = src.input_symbols
    return (n_states >= 2 and langoracle.find_word([src], al, lambda v: v[0]) is not None
            and langoracle.find_word([src], al, lambda v: not v[0]) is not None)


def _live_view(live, ref, seq):
    """(object the oracle and the model see, replay, message prefix, may the model be compared).
    `ref` = the definition AS BUILT (frozen twin) of a LIVE object `live` on which a sequence `seq` of calls is
    being made under allow_mutable_automata=True: the real call is made on the live object, every judgement
    is about the twin.  The model is only asked while the live object still has the definition it was built with."""
    if ref is None:
        return live, None, "", True
    pre = (f"under allow_mutable_automata=True ({seq['mode']} containers), call {len(seq['steps'])} on the same "
           f"object {seq['steps']!r}: ")
    return ref, dict(seq), pre, not M.drifted(live, ref)


@guarded
def do_from_nfa(ctx: Ctx, N: NFA, retain: bool, minify: bool, origin: str, ref=None, seq=None):
    """`ref`, `seq`: see _live_view.  Returns the real result (or None)."""
    drv = ctx.driver("drv_dfa_ops")
    encN, st, sy = enc_nfa(N)           # live iteration orders, taken before the call
    live, (N, replay, pre, ask_model) = N, _live_view(N, ref, seq)
    replay = replay or dict(op="from_nfa", retain_names=retain, minify=minify, N=repr(N))
    res = call(lambda: DFA.from_nfa(live, retain_names=retain, minify=minify))
    ctx.stat(origin)
    ctx.stat(f"from_nfa_retain{int(retain)}_minify{int(minify)}")
    if res[0] == "err":
        ctx.case(None)
        ctx.prop_fail(pre + f"DFA.from_nfa(retain_names={retain}, minify={minify}) raised {res[1]} on a valid NFA "
                      f"({len(N.states)} states)", replay)
        return None
    R = res[1]
    ok = True
    bad = check_valid(R)
    if bad:
        ok = False
        ctx.prop_fail(pre + f"from_nfa: result does not validate ({bad})", replay)
    elif set(R.input_symbols) != set(N.input_symbols):
        ok = False
        ctx.prop_fail(pre + "from_nfa: result alphabet differs", replay)
    else:
        w = lang_mismatch([N], R, N.input_symbols, lambda x: x)
        if w is not None:
            ok = False
            ctx.prop_fail(pre + f"from_nfa(retain_names={retain}, minify={minify}): DFA and NFA disagree on {w!r}", dict(replay, word=w))
    ctx.case(("from_nfa", retain, minify, encN, seq["mode"] if seq else None) if ok and nontrivial(N, len(N.states)) else None)
    if not ask_model:
        ctx.stat("mutable_option_definition_changed")
        return R
    if any("" in row for row in N.transitions.values()):
        ctx.stat("source_has_epsilon")
    line = drv.ask(toks("DFA_FROM_NFA", retain, minify, ctx.rng.randrange(1000), encN))
    mod = parse_canon(Toks(line[3:]))
    rend = None
    if retain:
        rend = render_block(render_subset(st)) if minify else render_subset(st)
    imp = py_canon(R, sy, rend)
    if ctx.evaluations % 397 == 1:
        ctx.sample(dict(N=repr(N), retain_names=retain, minify=minify, result=repr(R), canonical=imp))
    if ok and imp != mod:
        ctx.corr_diff("DFA_FROM_NFA", replay, imp, mod)
    return R


@guarded
def do_from_dfa(ctx: Ctx, D: DFA, origin: str, ref=None, seq=None):
    drv = ctx.driver("drv_dfa_ops")
    encD, st, sy = enc_dfa(D)
    live = D
    if ref is not None:
        pre = (f"under allow_mutable_automata=True ({seq['mode']} containers), call {len(seq['steps'])} of the "
               f"sequence {seq['steps']!r}: ")
        D, replay = ref, dict(seq)
        ask_model = DL.definition_of(live) == DL.definition_of(ref)
    else:
        pre, replay, ask_model = "", dict(op="from_dfa", D=repr(D)), True
    res = call(lambda: NFA.from_dfa(live))
    ctx.stat(origin)
    ctx.stat("from_dfa")
    if res[0] == "err":
        ctx.case(None)
        ctx.prop_fail(pre + f"NFA.from_dfa raised {res[1]}", replay)
        return None
    R = res[1]
    ok = True
    bad = check_valid(R)
    if bad:
        ok = False
        ctx.prop_fail(pre + f"from_dfa: result does not validate ({bad})", replay)
    else:
        w = lang_mismatch([D], R, D.input_symbols, lambda x: x)
        if w is not None:
            ok = False
            ctx.prop_fail(pre + f"from_dfa: NFA and DFA disagree on {w!r}", dict(replay, word=w))
    ctx.case(("from_dfa", encD, seq["mode"] if seq else None) if ok and nontrivial(D, len(D.states)) else None)
    if not ask_model:
        ctx.stat("mutable_option_definition_changed")
        return R
    line = drv.ask(toks("NFA_FROM_DFA", encD))
    mod = Toks(line[3:]).nfa()
    imp = nfa_plain(R, st, sy)
    if ok and imp != mod:
        ctx.corr_diff("NFA_FROM_DFA", replay, imp, mod)
    return R


@guarded
def do_elim(ctx: Ctx, N: NFA, origin: str, ref=None, seq=None):
    drv = ctx.driver("drv_dfa_ops")
    encN, st, sy = enc_nfa(N)
    live, (N, replay, pre, ask_model) = N, _live_view(N, ref, seq)
    replay = replay or dict(op="eliminate_lambda", N=repr(N))
    res = call(lambda: live.eliminate_lambda())
    ctx.stat(origin)
    ctx.stat("eliminate_lambda")
    if res[0] == "err":
        ctx.case(None)
        ctx.prop_fail(pre + f"eliminate_lambda raised {res[1]}", replay)
        return None
    R = res[1]
    ok = True
    bad = check_valid(R)
    if bad:
        ok = False
        ctx.prop_fail(pre + f"eliminate_lambda: result does not validate ({bad})", replay)
    else:
        w = lang_mismatch([N], R, N.input_symbols, lambda x: x)
        if w is not None:
            ok = False
            ctx.prop_fail(pre + f"eliminate_lambda: result and source disagree on {w!r}", dict(replay, word=w))
        elif any("" in row for row in R.transitions.values()):   # EVERY row, also one keyed by a non-state
            ok = False
            ctx.prop_fail(pre + "eliminate_lambda: an empty-string transition is left", replay)
        else:
            seen = {R.initial_state}
            work = [R.initial_state]
            while work:
                q = work.pop()
                for ts in R.transitions.get(q, {}).values():
                    for t in ts:
                        if t not in seen:
                            seen.add(t)
                            work.append(t)
            if set(R.states) - seen:
                ok = False
                ctx.prop_fail(pre + f"eliminate_lambda: unreachable states left: {set(R.states) - seen!r}", replay)
    ctx.case(("elim", encN, seq["mode"] if seq else None)
             if ok and nontrivial(N, len(N.states)) and any("" in r for r in N.transitions.values()) else None)
    if not ask_model:
        ctx.stat("mutable_option_definition_changed")
        return R
    line = drv.ask(toks("NFA_ELIM", encN))
    mod = Toks(line[3:]).nfa()
    imp = nfa_plain(R, st, sy)
    if ok and imp != mod:
        ctx.corr_diff("NFA_ELIM", replay, imp, mod)
    return R


def nth_from_end_nfa(rng):
    """The classic 2ⁿ family: n-th symbol from the end is 'a'."""
    n = rng.randint(1, 4) if rng.random() < 0.7 else rng.randint(5, 7)   # up to 2⁷ = 128 subset states
    tr = {0: {"a": {0, 1}, "b": {0}}}
    for i in range(1, n):
        tr[i] = {"a": {i + 1}, "b": {i + 1}}
    tr[n] = {}
    return NFA(states=set(range(n + 1)), input_symbols={"a", "b"}, transitions=tr, initial_state=0, final_states={n})


def junk_row_nfa(rng):
    n = gen.rand_nfa(rng, 4, names=list(range(4)))
    tr = {k: dict(v) for k, v in n.transitions.items()}
    tr[rng.choice([4, 5, 7, -1])] = {a: {rng.choice(sorted(n.states))} for a in list(n.input_symbols)[:1]}
    return NFA(states=n.states, input_symbols=n.input_symbols, transitions=tr, initial_state=n.initial_state,
               final_states=n.final_states)


def empty_alphabet_nfa(rng):
    """input_symbols = ∅: only ε-moves are possible; the language is ∅ or {''}."""
    k = rng.randint(1, 4)
    st = gen.name_pool(rng, k)
    k = len(st)
    tr = {}
    for q in st:
        if rng.random() < 0.75:
            tr[q] = {"": {rng.choice(st) for _ in range(rng.randint(0, 2))}} if rng.random() < 0.7 else {}
    if k > 1 or rng.random() < 0.5:
        tr.setdefault(st[0], {})
    return NFA(states=set(st), input_symbols=set(), transitions=tr, initial_state=st[0],
               final_states={q for q in st if rng.random() < 0.4})


def single_state_no_row_nfa(rng):
    """`NFA(states={q}, input_symbols=Σ, transitions={}, …)`: the `len(states) <= 1` exemption of
    `validate` — the initial state has no transition row at all."""
    q = rng.choice(gen.name_pool(rng, 3))
    sy = rng.choice(list(gen.ALPHABETS) + [()])
    return NFA(states={q}, input_symbols=set(sy), transitions={}, initial_state=q,
               final_states={q} if rng.random() < 0.5 else set())


def _subset_count(N: NFA, cap: int) -> int:
    """Number of reachable subset states (own BFS over the raw table), stops at cap."""
    def clo(S):
        S = set(S)
        work = list(S)
        while work:
            q = work.pop()
            for t in N.transitions.get(q, {}).get("", ()):
                if t not in S:
                    S.add(t)
                    work.append(t)
        return frozenset(S)
    start = clo({N.initial_state})
    seen = {start}
    work = [start]
    while work and len(seen) < cap:
        S = work.pop()
        for a in N.input_symbols:
            T = clo({t for q in S for t in N.transitions.get(q, {}).get(a, ())})
            if T and T not in seen:
                seen.add(T)
                work.append(T)
    return len(seen)


def big_nfa(rng):
    """8–12 states, sparse enough that the subset construction stays below a few hundred states."""
    for _ in range(30):
        n = rng.randint(8, 12)
        style = rng.randrange(3)
        names = (list(range(n)) if style == 0 else [f"q{i}" for i in range(n)] if style == 1
                 else [(i // 4, i % 4) for i in range(n)])
        sy = list(rng.choice([("a", "b"), ("a",), ("a", "b", "c")]))
        dens = rng.choice([0.8, 1.1, 1.4]) / n
        eps = rng.choice([0.0, 0.1, 0.25])
        tr = {}
        for i, q in enumerate(names):
            if i and rng.random() < 0.1:
                continue
            row = {}
            for a in sy:
                ts = {t for t in names if rng.random() < dens}
                if i + 1 < n and rng.random() < 0.35:
                    ts.add(names[i + 1])
                if ts or rng.random() < 0.1:
                    row[a] = ts
            if rng.random() < eps:
                row[""] = {rng.choice(names)}
            items = list(row.items())
            rng.shuffle(items)
            tr[q] = dict(items)
        tr.setdefault(names[0], {})
        keys = list(tr)
        rng.shuffle(keys)
        N = NFA(states=set(names), input_symbols=set(sy), transitions={k: tr[k] for k in keys},
                initial_state=names[0], final_states={q for q in names if rng.random() < 0.3})
        if _subset_count(N, 400) < 400:
            return N
    return N


# ------------------------------------------------------------------ round 4: the mutable-automata option
TEXTBOOK_AB = dict(states={0, 1, 2}, input_symbols={"a", "b"}, transitions={0: {"a": {0, 1}, "b": {0}}, 1: {"b": {2}}, 2: {}},
                   initial_state=0, final_states={2})          # (a|b)*ab


def _dfa_twin(d: DFA) -> DFA:
    with M.mutable_option(False):
        return d.copy()


@guarded
def run_mutable_sequence(ctx: Ctx, ref: NFA, mode: str, steps: list, origin: str):
    """allow_mutable_automata=True: ONE live NFA built from plain (possibly shared) containers, a SEQUENCE of
    conversions and reads on that same object; every result is judged against the definition AS BUILT (`ref`,
    frozen twin).  Steps (JSON lists):
      ["from_nfa", retain, minify]   DFA.from_nfa(N)                        = L(ref)
      ["elim"]                       N.eliminate_lambda()                   = L(ref), no ε, all reachable
      ["read", w]                    N.accepts_input(w)                     = table semantics of ref on w
      ["roundtrip", retain, minify]  D = DFA.from_nfa(N); NFA.from_dfa(D) twice on the same D (judged against D as built)
      ["elim_chain", retain, minify] E = N.eliminate_lambda(); DFA.from_nfa(E) (E may share containers with N)
    The sequence stops at the first failing step (the object is not trustworthy afterwards)."""
    keep: list = []
    with M.mutable_option():
        N = M.build_live(ref, mode, keep)
        ctx.stat(f"mutable_option_sequence_{mode}")
        if M.sharing_of(N):
            ctx.stat("mutable_option_operand_with_shared_containers")
        for i, step in enumerate(steps):
            seq = dict(op="mutable_sequence", N=repr(ref), mode=mode, steps=[list(x) for x in steps[:i + 1]])
            n0 = ctx.n_prop_fails
            kind = step[0]
            ctx.stat("mutable_option_step_" + kind)
            if kind == "from_nfa":
                do_from_nfa(ctx, N, bool(step[1]), bool(step[2]), origin, ref=ref, seq=seq)
            elif kind == "elim":
                do_elim(ctx, N, origin, ref=ref, seq=seq)
            elif kind == "read":
                w = step[1]
                got = call(lambda: N.accepts_input(w))
                m = langoracle.machine(ref)
                S = m.start()
                for a in w:
                    S = m.step(S, a)
                want = m.accepting(S)
                ctx.case(None)
                if got != ("ok", want):
                    ctx.prop_fail(f"under allow_mutable_automata=True ({mode} containers), call {i + 1} on the same object "
                                  f"{seq['steps']!r}: accepts_input({w!r}) is {got[1] if got[0] == 'ok' else 'raised ' + got[1]}, "
                                  f"the transition tables as built say {want}; every later conversion of this object is "
                                  f"judged on the same definition", dict(seq, word=w))
            elif kind == "roundtrip":
                D = do_from_nfa(ctx, N, bool(step[1]), bool(step[2]), origin, ref=ref, seq=seq)
                if D is not None and ctx.n_prop_fails == n0:
                    D0 = _dfa_twin(D)
                    for _rep in range(2):
                        do_from_dfa(ctx, D, origin, ref=D0, seq=seq)
            elif kind == "elim_chain":
                E = do_elim(ctx, N, origin, ref=ref, seq=seq)
                if E is not None and ctx.n_prop_fails == n0:
                    E0 = M.frozen_twin(E)
                    do_from_nfa(ctx, E, bool(step[1]), bool(step[2]), origin, ref=E0, seq=seq)
            else:
                raise ValueError(f"unknown step {step!r}")
            if ctx.n_prop_fails > n0:
                return
        if M.drifted(N, ref):
            ctx.stat("mutable_option_definition_changed_at_end")
        del keep


def _random_steps(rng, ref: NFA, k: int) -> list:
    al = sorted(ref.input_symbols)
    steps = []
    for _ in range(k):
        q = rng.random()
        r, m = rng.random() < 0.5, rng.random() < 0.5
        if q < 0.45:
            steps.append(["from_nfa", r, m])
        elif q < 0.65:
            steps.append(["elim"])
        elif q < 0.8:
            steps.append(["read", gen.rand_word(rng, al, 6) if al else ""])
        elif q < 0.9:
            steps.append(["roundtrip", r, m])
        else:
            steps.append(["elim_chain", r, m])
    return steps


def live_dfa_family(ctx: Ctx, n: int):
    """NFA.from_dfa on a live DFA (plain / aliased / copied containers), several times on the same object,
    interleaved with reads; judged against the DFA as built."""
    rng = ctx.rng
    for _ in range(n):
        ref = gen.rand_dfa(rng, 5)
        mode = rng.choice(DL.MUTABLE_MODES)
        run_live_dfa(ctx, ref, mode, rng.randint(2, 3))


@guarded
def run_live_dfa(ctx: Ctx, ref: DFA, mode: str, k: int):
    keep: list = []
    with DL.mutable_option(mode):
        D = DL.build_live(ref, mode, keep)
        ctx.stat(f"mutable_option_live_dfa_{mode}")
        steps = []
        for i in range(k):
            steps.append(["from_dfa"])
            seq = dict(op="mutable_dfa_sequence", D=repr(ref), mode=mode, steps=list(steps), k=k)
            n0 = ctx.n_prop_fails
            do_from_dfa(ctx, D, "mutable_option", ref=ref, seq=seq)
            if ctx.n_prop_fails > n0:
                return
            call(lambda: D.accepts_input("".join(sorted(ref.input_symbols))))


def mutable_option_family(ctx: Ctx, n: int):
    """Bounded-exhaustive part: every 1-state NFA over {a,b} and every 4th 2-state NFA over {a} (ε included), modes
    plain and aliased, the fixed sequence from_nfa(F,F), elim, from_nfa(T,T), from_nfa(F,T), elim on ONE object.
    Random part: shaped NFAs of ≤5 states (the generators of the main run), all five live modes, 3–6 random steps."""
    rng = ctx.rng
    fixed = [["from_nfa", False, False], ["elim"], ["from_nfa", True, True], ["from_nfa", False, True], ["elim"]]
    with M.mutable_option(False):
        run_mutable_sequence(ctx, NFA(**TEXTBOOK_AB), "plain", fixed, "mutable_option")
        small = list(gen.all_nfas(1, ("a", "b"))) + list(gen.all_nfas(2, ("a",)))[::1 if ctx.thorough() else 4]
    for N0 in small:
        for mode in ("plain", "aliased"):
            run_mutable_sequence(ctx, N0, mode, fixed, "mutable_option_exhaustive")
    ctx.exhaustive("allow_mutable_automata=True: every 1-state NFA over {a,b} and " + ("every" if ctx.thorough() else "every 4th")
                   + " 2-state NFA over {a}, built from plain and from aliased containers, the sequence from_nfa(F,F), "
                   "eliminate_lambda, from_nfa(T,T), from_nfa(F,T), eliminate_lambda on ONE object, each result judged "
                   "against the definition as built")
    for _ in range(n):
        k = rng.random()
        ref = (nth_from_end_nfa(rng) if k < 0.08 else junk_row_nfa(rng) if k < 0.16 else empty_alphabet_nfa(rng) if k < 0.2
               else M.pooled_nfa(rng, rng.choice(gen.ALPHABETS[:3]), 5, gen.name_pool(rng, 5) if rng.random() < 0.3 else None)
               if k < 0.45 else gen.rand_nfa(rng, 5))
        if len(ref.states) > 6:
            continue
        mode = M.pick_mode(rng)
        run_mutable_sequence(ctx, ref, mode, _random_steps(rng, ref, rng.randint(3, 6)), "mutable_option")
    live_dfa_family(ctx, max(n // 4, 1))


# ------------------------------------------------------------------ round 4: more than 128 subset states
def nth_from_end_exact(n: int, with_eps: bool = False) -> NFA:
    """(a|b)* a (a|b)^(n-1): 2ⁿ reachable subset states; with_eps: every hop i → i+1 detours through an ε-move."""
    tr = {0: {"a": {0, 1}, "b": {0}}}
    states = set(range(n + 1))
    for i in range(1, n):
        if with_eps:
            tr[i] = {"": {100 + i}}
            tr[100 + i] = {"a": {i + 1}, "b": {i + 1}}
            states.add(100 + i)
        else:
            tr[i] = {"a": {i + 1}, "b": {i + 1}}
    tr[n] = {}
    return NFA(states=states, input_symbols={"a", "b"}, transitions=tr, initial_state=0, final_states={n})


def ring_nfa(m: int, names=None, eps_every: int = 3) -> NFA:
    """'The length is a multiple of m': a ring of m states (m reachable subset states, all singletons or ε-closed
    pairs), every `eps_every`-th hop through an extra state and an ε-move; the last state closes the ring, i.e. the
    subset construction meets an edge back to the FIRST subset state it named after naming all the others."""
    nm = names or (lambda i: i)
    tr, states = {}, set()
    for i in range(m):
        nxt = nm((i + 1) % m)
        states.add(nm(i))
        if eps_every and i % eps_every == 1:
            mid = nm(1000 + i)
            tr[nm(i)] = {"a": {mid}, "b": {mid}}
            tr[mid] = {"": {nxt}}
            states.add(mid)
        else:
            tr[nm(i)] = {"a": {nxt}, "b": {nxt}}
    return NFA(states=states, input_symbols={"a", "b"}, transitions=tr, initial_state=nm(0), final_states={nm(0)})


def many_subsets_nfa(rng, lo: int = 129, hi: int = 300):
    """A sparse random NFA of 8–12 states whose subset construction has between lo and hi reachable states
    (rejection sampling over big_nfa; about 1 in 60 qualifies)."""
    for _ in range(1500):
        N = big_nfa(rng)
        if lo <= _subset_count(N, hi + 2) <= hi:
            return N
    return None


def many_subsets_family(ctx: Ctx):
    """Determinisations with MORE THAN 128 (and up to a few hundred) subset states — beyond every small cache / table
    size (functools.lru_cache default 128, CPython small-int cache 256): 'n-th symbol from the end' for n = 8 (256
    subsets; all option combinations, with and without ε detours) and n = 9 (512; unminimised), rings of 129 and of
    130–200 states, random sparse NFAs of 8–12 states with 129–300 reachable subsets.  Judged like every other case
    (validity, alphabet, complete product search against the source, exact comparison with the model)."""
    rng = ctx.rng
    opts = [(r, m) for r in (False, True) for m in (False, True)]
    cases = [(nth_from_end_exact(8), opts), (nth_from_end_exact(8, True), [(False, False), (False, True)]),
             (nth_from_end_exact(9), opts if ctx.thorough() else [(False, False)]),
             (ring_nfa(129), [(False, False), (False, True), (True, False)]),
             (ring_nfa(rng.randint(130, 200), eps_every=rng.choice([0, 2, 3, 5])), [(False, False), (False, True)]),
             (ring_nfa(rng.randint(129, 160), names=lambda i: f"s{i}"), [(False, rng.random() < 0.5)])]
    for _ in range(ctx.budget(3, 40)):
        N = many_subsets_nfa(rng)
        if N is not None:
            cases.append((N, [(False, rng.random() < 0.5), (rng.random() < 0.5, rng.random() < 0.5)]))
    if ctx.thorough():
        cases += [(ring_nfa(m), [(False, False), (False, True)]) for m in (128, 130, 256, 257, 300)]
    for N, combos in cases:
        c = _subset_count(N, 2000)
        ctx.stat("subset_states_gt128" if c > 128 else "subset_states_le128")
        ctx.stat("subset_states_gt256" if c > 256 else "subset_states_le256")
        for r, m in combos:
            D = do_from_nfa(ctx, N, r, m, "more_than_128_subset_states")
            if D is not None and not m and len(D.states) not in (c, c + 1):
                # not part of the property (languages); the unminimised result is the reachable part of the subset
                # automaton (+ possibly the empty subset as a trap) — reported as a correspondence difference only
                ctx.corr_diff("DFA_FROM_NFA state count", dict(N=repr(N), retain_names=r, minify=m),
                              len(D.states), f"{c} reachable non-empty subsets")


# ------------------------------------------------------------------ round 7: deep / large instances
# SIZE THRESHOLDS.  Every generator above builds automata of ≤ 14 states (≤ 512 subset states) and the product search
# reads words of a few symbols, so a change that only bites beyond a size is invisible to them: a loop rewritten as
# recursion (CPython's limit is hit near depth 1000 — RecursionError instead of the automaton), a depth / count
# cut-off, a fixed-size buffer, a bounded memo, a quadratic copy that no longer answers.  C07 quantifies over ALL
# valid automata, so this family builds a handful of NFAs / DFAs with 1100–3000 states on one simple path
# (harness/nfa_deep.py: long symbol chains, chains whose EVERY step is doubled by an empty-string move, pure
# empty-string chains and empty-string CYCLES of 1100+ states, a long chain followed by 'n-th symbol from the end'
# with small n — the subset construction stays linear —, a chain closed into a ring / ending in a short cycle, a
# fan-out of 1100–3000 targets, an UNREACHABLE component of 1100+ states with edges into the reachable part) and
# runs DFA.from_nfa (all four retain_names × minify combinations), NFA.eliminate_lambda and NFA.from_dfa on them.
# The languages are known in CLOSED FORM from the construction parameters, so the verdict needs neither the library's
# algorithms nor the Lean model: NO model round trip is made for these cases (stat
# `deep:closed_form_oracle_no_model_round_trip`).  Judged on each result: it validates, same alphabet, the transition
# tables of the result (read by langoracle's textbook interpreter) accept exactly the probe words the closed form
# accepts — the accepted words of 1100–3000+ symbols and their near misses: one symbol more / fewer, one symbol
# changed at the first / last place, around places 127/128, 255/256, 998–1001 and at a random place —; for
# eliminate_lambda no "" key in any row and every state reachable (own iterative search); state counts where the
# construction determines them (correspondence difference only: not part of the property text).  The closed form is
# tied to the real objects twice: (1) on every deep source the closed form is compared with the table semantics of the
# object actually built on all probe words; (2) `deep_small_twin`: the same specs scaled down to ≤ 20 states — closed
# form vs. table semantics on ALL words up to length 11, then the conversions of the twin go through this module's
# ordinary oracles (complete product search + exact comparison with the Lean model).
# A failing step is re-run alone on a newly built object before it is reported; a step that does not answer within
# DEEP_TIMEOUT_S is an observation ("gave no answer"), after two of them the rest of the family is skipped.
DEEP_TIMEOUT_S = 10


class _Timeouts:
    n = 0


def deep_do(obj, step):
    """One conversion of the live object: ("ok", result) / ("err", class name) / ("err", "_Timeout")."""
    kind = step[0]
    if kind == "from_nfa":
        f = lambda: DFA.from_nfa(obj, retain_names=bool(step[1]), minify=bool(step[2]))
    elif kind == "elim":
        f = lambda: obj.eliminate_lambda()
    elif kind == "from_dfa":
        f = lambda: NFA.from_dfa(obj)
    else:
        raise ValueError(f"deep family: unknown step {step!r}")
    r = QL.guarded(f, DEEP_TIMEOUT_S)
    if r == ("err", "_Timeout"):
        _Timeouts.n += 1
    return r


def show_step(step) -> str:
    if step[0] == "from_nfa":
        return f"DFA.from_nfa(N, retain_names={bool(step[1])}, minify={bool(step[2])})"
    return "N.eliminate_lambda()" if step[0] == "elim" else "NFA.from_dfa(D)"


class _Reader:
    """Reads words off the TRANSITION TABLES of an automaton (langoracle's textbook interpreter; no library
    algorithm), sharing the work along a base word: the probe words are near misses of one long word."""

    def __init__(self, obj, base: str):
        self.m = langoracle.machine(obj)
        self.base = base
        S = self.m.start()
        self.trace = [S]
        for a in base:
            S = self.m.step(S, a) if S else S
            self.trace.append(S)

    def accepts(self, w: str) -> bool:
        base = self.base
        lo, hi = 0, min(len(w), len(base))
        while lo < hi:                                  # longest common prefix (slices compare at C speed)
            mid = (lo + hi + 1) // 2
            if w[:mid] == base[:mid]:
                lo = mid
            else:
                hi = mid - 1
        S = self.trace[lo]
        for a in w[lo:]:
            if not S:                                   # None (DFA: no transition) / empty set: dead for good
                return False
            S = self.m.step(S, a)
        return bool(S) and self.m.accepting(S)


def deep_probes(lang: "ND.DeepNFA", seed: int):
    import random
    return lang.probe_words(random.Random(seed))


def deep_judge(lang, step, got, probes, src=None):
    """(message or None, count note or None): what is wrong with the result of `step` on the automaton of `lang`."""
    if got[0] != "ok":
        if got == ("err", "_Timeout"):
            return f"gave no answer within {DEEP_TIMEOUT_S} s", None
        return f"raised {got[1]} on a valid {'DFA' if lang.as_dfa else 'NFA'}", None
    R = got[1]
    want_cls = DFA if step[0] == "from_nfa" else NFA
    if not isinstance(R, want_cls):
        return f"returned a {type(R).__name__}", None
    bad = check_valid(R)
    if bad:
        return f"returned an automaton that does not validate ({bad})", None
    if set(R.input_symbols) != set(ND.SYMS):
        return f"returned an automaton over {sorted(R.input_symbols)!r}", None
    if step[0] == "elim":
        for q, row in R.transitions.items():
            if "" in row:
                return f"left an empty-string transition (row of {q!r})", None
        seen = {R.initial_state}
        work = [R.initial_state]
        while work:
            q = work.pop()
            for ts in R.transitions.get(q, {}).values():
                for t in ts:
                    if t not in seen:
                        seen.add(t)
                        work.append(t)
        left = set(R.states) - seen
        if left:
            return f"left {len(left)} unreachable states (e.g. {sorted(left, key=repr)[:3]!r})", None
    rd = _Reader(R, probes[0])
    for w in probes:
        want = lang.member(w)
        if rd.accepts(w) != want:
            real = call(lambda: R.accepts_input(w))
            return (f"returned an automaton whose transition tables {'reject' if want else 'accept'} {ND.short(w)} "
                    f"(its accepts_input: {real[1]}), which the source {'accepts' if want else 'rejects'} "
                    f"(closed form of the construction)"), None
    note = None
    if step[0] == "from_nfa" and len(R.states) != lang.dfa_states(bool(step[2])):
        note = (len(R.states), f"{lang.dfa_states(bool(step[2]))} = " + ("states of the minimal partial DFA of the language"
                                                                      if step[2] else "reachable non-empty subsets"))
    elif step[0] == "elim" and lang.elim_states() is not None and len(R.states) != lang.elim_states():
        note = (len(R.states), f"{lang.elim_states()} = reachable states of a source without empty-string moves")
    elif step[0] == "from_dfa" and src is not None and set(R.states) != set(src.states):
        note = (len(R.states), f"{len(src.states)} = the DFA's states")
    return None, note


def run_deep(lang, steps, probes, built=None):
    """The steps on ONE object (newly built unless given); (index, message) of the first wrong result / None,
    and the count notes."""
    obj = built if built is not None else lang.build()
    notes = []
    for i, step in enumerate(steps):
        got = deep_do(obj, step)
        msg, note = deep_judge(lang, step, got, probes, obj)
        if note:
            notes.append((step, note))
        if msg is not None:
            return (i, msg), notes
    return None, notes


def deep_what(lang, steps, i, msg) -> str:
    hist = "; ".join(show_step(s) for s in steps[:i])
    return (f"{show_step(steps[i])} {msg} — on {lang.expr()}, longest simple path {lang.depth()}"
            + (f"; called on ONE object after [{hist}]" if hist else "; first call on a newly built object"))


def deep_selfcheck(ctx: Ctx, lang, obj, probes) -> bool:
    """Closed form vs. the table semantics of the object actually built (all probe words); the library's own reader
    is asked about two of them (statistics only — the reader is C01's subject)."""
    rd = _Reader(obj, probes[0])
    for w in probes:
        ctx.stat("deep:selfcheck_words_closed_form_vs_tables")
        if rd.accepts(w) != lang.member(w):
            ctx.stat("deep:selfcheck_disagreement")
            ctx.corr_diff("deep-closed-form", dict(automaton=lang.expr(), word=ND.short(w)),
                          dict(tables=rd.accepts(w)), dict(closed_form_member=lang.member(w)))
            return False
    for w in probes[:2]:
        real = QL.guarded(lambda: obj.accepts_input(w), DEEP_TIMEOUT_S)
        ctx.stat("deep:source_accepts_input_agrees" if real == ("ok", lang.member(w)) else "deep:source_accepts_input_DIFFERS")
    return True


@guarded
def check_deep(ctx: Ctx, spec: dict, steps: list, origin: str = "deep", probe_seed: int = 0):
    if _Timeouts.n >= 2 or ctx.stats.get("deep:violations", 0) >= 4:
        ctx.stat("deep:skipped_after_failures")
        return
    lang = ND.DeepNFA(spec)
    probes = deep_probes(lang, probe_seed)
    b = QL.guarded(lang.build, DEEP_TIMEOUT_S)
    if b[0] == "err":
        # whether the constructors cope with such sizes is not C07's statement (sources are valid automata BUILT
        # through the real constructors)
        ctx.stat("deep:construction_raised")
        ctx.corr_diff("deep-construction", dict(automaton=lang.expr()), f"raised {b[1]}", "an automaton")
        return
    obj = b[1]
    shape = ("dfa_" if lang.as_dfa else "") + f"eps_{lang.eps}+pre_{lang.pre[0] if lang.pre else 'none'}+tail_{lang.tail[0]}" \
        + ("+unreachable_component" if lang.U else "")
    ctx.stat(f"{origin}:{shape}")
    ctx.stat(f"{origin}:states:{len(obj.states) // 500 * 500}+")
    ctx.stat(f"{origin}:longest_simple_path:{lang.depth() // 500 * 500}+")
    ctx.stat("deep:closed_form_oracle_no_model_round_trip")
    ctx.stat("deep:probe_words", len(probes))
    ctx.stat(f"deep:longest_probe_word:{max(len(w) for w in probes) // 500 * 500}+")
    if not deep_selfcheck(ctx, lang, obj, probes):
        return
    if ctx.stats.get(f"{origin}:{shape}", 0) == 1:
        ctx.sample(dict(automaton=lang.expr(), steps=[show_step(s) for s in steps],
                        accepted=[ND.short(w) for w in lang.accepted_words(ctx.rng)[:2]], probe_words=len(probes)))
    for s in steps:
        ctx.case(("deep", json.dumps(spec, sort_keys=True), json.dumps(s)))
        ctx.stat(f"{origin}_op:" + (s[0] if s[0] != "from_nfa" else f"from_nfa_retain{int(s[1])}_minify{int(s[2])}"))
    r, notes = run_deep(lang, steps, probes, obj)
    for step, (have, want) in notes:
        ctx.corr_diff("deep state count " + show_step(step), dict(automaton=lang.expr()), have, want)
    if r is None:
        return
    i, msg = r
    # re-confirm on a newly built object: the step alone, else the recorded prefix
    small = None
    for cand in ([steps[i]], steps[: i + 1]):
        r2, _ = run_deep(lang, cand, probes)
        if r2 is not None and r2[0] == len(cand) - 1:
            small, msg = cand, r2[1]
            break
    if small is None:
        ctx.stat("deep:failure_not_reproduced")
        ctx.corr_diff("deep-not-reproduced", dict(automaton=lang.expr(), steps=steps[: i + 1]), msg, "the same on a rebuilt object")
        return
    ctx.stat("deep:violations")
    what = deep_what(lang, small, len(small) - 1, msg)
    ctx.prop_fail(what, dict(op="deep", automaton=lang.expr(), spec=spec, steps=small, probe_seed=probe_seed, what=what))


OPTS4 = [["from_nfa", r, m] for r in (False, True) for m in (False, True)]


def deep_plan(rng, thorough: bool):
    """[(spec, steps)] — sizes are drawn from rng, the shapes are fixed: every operation of the property is run on
    a deep / large instance in every run.  Linear shapes: 1100–3000; the pure empty-string chain / cycle make the
    closure table and eliminate_lambda quadratic (every closure has up to L members), so they stay at 1100–1200."""
    lin = lambda: rng.randint(1100, 3000)
    big = lambda: rng.randint(2400, 3000)
    steps_all = lambda: [list(s) for s in rng.sample(OPTS4, 4)] + [["elim"]]
    plan = []
    # D1: plain long chain + a long unreachable component with edges into the reachable part
    plan.append((dict(m=big(), pat="ab", eps="none", pre=None, tail=["end"], unreach=rng.randint(1100, 2000)), steps_all()))
    # D2: EVERY step doubled by an empty-string move, short cycle at the end
    plan.append((dict(m=rng.randint(1100, 2000), pat="aab", eps="double", pre=None, tail=["loop", rng.randint(2, 5)], unreach=0),
                 [["elim"]] + steps_all()[:4]))
    # D3: pure empty-string chain of 1100+ states in front of a tiny automaton
    plan.append((dict(m=rng.randint(1, 3), pat="ab", eps="none", pre=["chain", rng.randint(1100, 1200)], tail=["nth", 2], unreach=0),
                 steps_all()))
    # D4: empty-string CYCLE of 1100+ states (every closure = the whole cycle)
    #     — from_nfa on 1100+; eliminate_lambda walks every closure for every state (L × L), so it gets a cycle of 300–450
    plan.append((dict(m=rng.randint(1, 3), pat="ba", eps="none", pre=["cycle", rng.randint(1100, 1130)], tail=["end"], unreach=0),
                 steps_all()[:4]))
    plan.append((dict(m=rng.randint(1, 3), pat="ab", eps="none", pre=["cycle", rng.randint(300, 450)], tail=["nth", 2], unreach=0),
                 [["elim"], list(rng.choice(OPTS4))]))
    # D5: long chain, then n-th symbol from the end (small n): nondeterministic tail, linear subset construction
    plan.append((dict(m=lin(), pat="abb", eps="third", pre=None, tail=["nth", rng.randint(3, 4)], unreach=0), steps_all()))
    # D6: a ring / an extra edge from the last state back to one of the FIRST states
    m = lin()
    plan.append((dict(m=m, pat="ab", eps="none", pre=None, tail=["loop", m + 1 - rng.randint(0, 3)], unreach=0), steps_all()))
    # D7: fan-out of 1100–3000 targets (one subset state with that many members)
    plan.append((dict(m=rng.randint(2, 6), pat="ab", eps="none", pre=None, tail=["fan", lin()], unreach=0), steps_all()))
    # D8 / D9: NFA.from_dfa — a partial chain DFA with a long unreachable component; a complete ring DFA with a trap
    plan.append((dict(m=big(), pat="ab", eps="none", pre=None, tail=["end"], unreach=rng.randint(1100, 1500), as_dfa=True),
                 [["from_dfa"]]))
    m = lin()
    plan.append((dict(m=m, pat="aab", eps="none", pre=None, tail=["loop", m + 1], unreach=0, as_dfa=True, complete=True),
                 [["from_dfa"], ["from_dfa"]]))
    if thorough:
        plan.append((dict(m=rng.randint(3000, 6000), pat="ab", eps="double", pre=None, tail=["nth", 5], unreach=3000), steps_all()))
        plan.append((dict(m=rng.randint(1, 3), pat="ab", eps="none", pre=["chain", rng.randint(1500, 2000)], tail=["end"], unreach=0),
                     steps_all()))
        plan.append((dict(m=rng.randint(1, 3), pat="ab", eps="none", pre=["cycle", rng.randint(1500, 2000)], tail=["nth", 3], unreach=0),
                     steps_all()))
        plan.append((dict(m=rng.randint(3000, 6000), pat="ab", eps="none", pre=None, tail=["loop", 3], unreach=0, as_dfa=True),
                     [["from_dfa"]]))
    return plan


@guarded
def deep_small_twin(ctx: Ctx, spec: dict, steps: list):
    """The closed form against the table semantics on ALL words up to length 11 of a scaled-down automaton of the same
    shape (a disagreement is a harness error), then the twin's conversions through the ordinary oracles of this
    module (complete product search, exact comparison with the Lean model) and through the closed-form judge."""
    from harness.common import InfraError
    lang = ND.DeepNFA(spec)
    obj = lang.build()
    m = langoracle.machine(obj)
    for w in lang.all_short_words(11):
        S = m.start()
        for a in w:
            S = m.step(S, a)
        if m.accepting(S) != lang.member(w):
            raise InfraError(f"C07 deep family: closed form and table semantics disagree on {w!r} of {lang.expr()}")
    ctx.stat("deep:small_twin")
    ctx.stat("deep:small_twin_words_closed_form_vs_tables", 2 ** 12 - 1)
    probes = deep_probes(lang, 0)
    for s in steps:
        n0 = ctx.n_prop_fails
        if s[0] == "from_nfa":
            do_from_nfa(ctx, obj, bool(s[1]), bool(s[2]), "deep_small_twin")
        elif s[0] == "elim":
            do_elim(ctx, obj, "deep_small_twin")
        else:
            do_from_dfa(ctx, obj, "deep_small_twin")
        msg, note = deep_judge(lang, s, deep_do(obj, s), probes, obj)
        if note:
            ctx.corr_diff("deep small twin state count " + show_step(s), dict(automaton=lang.expr()), note[0], note[1])
        if (msg is not None) != (ctx.n_prop_fails > n0):
            ctx.corr_diff("deep-judge-vs-ordinary-oracle", dict(automaton=lang.expr(), step=s), msg,
                          f"{ctx.n_prop_fails - n0} failures reported by the product-search oracle")


def deep_family(ctx: Ctx):
    rng = ctx.rng
    plan = deep_plan(rng, ctx.thorough())
    for spec, steps in plan:
        deep_small_twin(ctx, ND.shrink(spec, rng), steps)
    for spec, steps in plan:
        check_deep(ctx, spec, steps, "deep", rng.randrange(1 << 30))


def probe_reserved_names(ctx: Ctx):
    """The domain assumption 'symbols are non-empty str' is enforced by the constructors."""
    r = call(lambda: NFA(states={0}, input_symbols={"", "a"}, transitions={0: {}}, initial_state=0, final_states=set()))
    ctx.stat("probe_empty_string_symbol_refused" if r[0] == "err" and "InvalidSymbolError" in str(r[1])
             else "probe_empty_string_symbol_NOT_refused")
    if not (r[0] == "err" and "InvalidSymbolError" in str(r[1])):
        ctx.note("NFA constructor accepted \"\" as an input symbol: the assumption 'symbols are non-empty str' is no "
                 "longer enforced by the code (observed: %r)" % (r[1] if r[0] == "err" else "no exception"))
    r = call(lambda: DFA(states={0}, input_symbols={"", "a"}, transitions={0: {"": 0, "a": 0}}, initial_state=0, final_states=set()))
    ctx.stat("probe_dfa_empty_string_symbol_refused" if r[0] == "err" and "InvalidSymbolError" in str(r[1])
             else "probe_dfa_empty_string_symbol_NOT_refused")


def run(ctx: Ctx):
    rng = ctx.rng
    opts = [(r, m) for r in (False, True) for m in (False, True)]
    probe_reserved_names(ctx)
    # the `len(states) <= 1` exemption: a single state and no transition row at all, every alphabet size
    for sy in [(), ("a",), ("a", "b")]:
        for fin in (set(), {0}):
            N = NFA(states={0}, input_symbols=set(sy), transitions={}, initial_state=0, final_states=fin)
            for r, m in opts:
                do_from_nfa(ctx, N, r, m, "single_state_without_row")
            do_elim(ctx, N, "single_state_without_row")
    # empty alphabet, exhaustively for 1 and 2 states (only ε cells)
    for n_states in (1, 2):
        for N in gen.all_nfas(n_states, ()):
            for r, m in opts:
                do_from_nfa(ctx, N, r, m, "empty_alphabet_exhaustive")
            do_elim(ctx, N, "empty_alphabet_exhaustive")
    for D in [DFA(states={0}, input_symbols=set(), transitions={0: {}}, initial_state=0, final_states=f)
              for f in (set(), {0})]:
        do_from_dfa(ctx, D, "empty_alphabet_exhaustive")
    ctx.exhaustive("empty alphabet: all NFAs with 1 and 2 states (ε cells only) × 4 option combinations + eliminate_lambda; "
                   "single state with transitions={} over alphabets of size 0, 1, 2")
    doms = [(1, ("a", "b"), 1.0), (2, ("a",), 1.0), (2, ("a", "b"), 1.0 if ctx.thorough() else 0.02)]
    for n_states, alpha, frac in doms:
        for N in gen.all_nfas(n_states, alpha):
            if frac < 1.0 and rng.random() > frac:
                continue
            if frac == 1.0 and n_states * len(alpha) <= 2:
                for r, m in opts:
                    do_from_nfa(ctx, N, r, m, "exhaustive")
            else:
                r, m = opts[rng.randrange(4)]
                do_from_nfa(ctx, N, r, m, "exhaustive")
            do_elim(ctx, N, "exhaustive")
    ctx.exhaustive("all NFAs with ε: 1 state over {a,b} and 2 states over {a} (from_nfa in all 4 option combinations, eliminate_lambda)"
                   + ("; all 2-state NFAs over {a,b} (one option combination each)" if ctx.thorough() else ""))
    for n in (1, 2):
        for D in gen.all_dfas(n, ("a", "b")):
            do_from_dfa(ctx, D, "exhaustive")
    ctx.exhaustive("NFA.from_dfa on all DFAs with ≤2 states over {a,b}")
    for _ in range(ctx.budget(1500, 50000)):
        k = rng.random()
        if k < 0.06:
            N = nth_from_end_nfa(rng)
            tag = "nth_from_end_family"
        elif k < 0.14:
            N = junk_row_nfa(rng)
            tag = "row_keyed_by_non_state"
        elif k < 0.19:
            N = empty_alphabet_nfa(rng)
            tag = "empty_alphabet"
        elif k < 0.22:
            N = single_state_no_row_nfa(rng)
            tag = "single_state_without_row"
        else:
            N = gen.rand_nfa(rng, 5)
            tag = "random"
        r, m = opts[rng.randrange(4)]
        do_from_nfa(ctx, N, r, m, tag)
        do_elim(ctx, N, tag)
        if rng.random() < 0.3:
            do_from_dfa(ctx, gen.rand_dfa(rng, 6), "random")
    # 8–12 state NFAs (mainly for the correspondence: larger BFS orders, larger partitions)
    for _ in range(ctx.budget(60, 1500)):
        N = big_nfa(rng)
        ctx.stat(f"big_nfa_states_{len(N.states)}")
        r, m = opts[rng.randrange(4)]
        do_from_nfa(ctx, N, r, m, "big_8_to_12_states")
        do_elim(ctx, N, "big_8_to_12_states")
    # round 4: determinisations with more than 128 subset states
    many_subsets_family(ctx)
    # round 4: the mutable-automata option — sequences of calls on ONE object built from plain / shared containers
    mutable_option_family(ctx, ctx.budget(300, 3000))
    # round 7: deep / large instances (1100–3000 states on one simple path), judged by closed form
    deep_family(ctx)


def search(ctx: Ctx):
    rng = ctx.rng
    opts = [(r, m) for r in (False, True) for m in (False, True)]
    for _ in range(ctx.budget(10000, 60000)):
        if ctx.n_prop_fails:
            return
        N = junk_row_nfa(rng) if rng.random() < 0.15 else gen.rand_nfa(rng, 6)
        for r, m in opts:
            do_from_nfa(ctx, N, r, m, "search")
        do_elim(ctx, N, "search")
        do_from_dfa(ctx, gen.rand_dfa(rng, 6), "search")
    if not ctx.n_prop_fails:
        mutable_option_family(ctx, ctx.budget(1500, 6000))


def replay(ctx: Ctx, path: str) -> int:
    data = json.load(open(path))
    rp = data.get("replay", data)
    env = {"DFA": DFA, "NFA": NFA, "frozenset": frozenset}
    if rp["op"] == "deep":
        check_deep(ctx, rp["spec"], rp["steps"], "replay", rp.get("probe_seed", 0))
    elif rp["op"] == "mutable_sequence":
        run_mutable_sequence(ctx, eval(rp["N"], env), rp["mode"], rp["steps"], "replay")
    elif rp["op"] == "mutable_dfa_sequence":
        run_live_dfa(ctx, eval(rp["D"], env), rp["mode"], rp.get("k", len(rp["steps"])))
    elif rp["op"] == "from_nfa":
        do_from_nfa(ctx, eval(rp["N"], env), rp["retain_names"], rp["minify"], "replay")
    elif rp["op"] == "from_dfa":
        do_from_dfa(ctx, eval(rp["D"], env), "replay")
    else:
        do_elim(ctx, eval(rp["N"], env), "replay")
    if ctx.prop_fails:
        print(f"VIOLATION property=C07 replay={path}")
        print("  " + ctx.prop_fails[0]["what"])
        return 1
    print("replay: property holds on this input now")
    return 0
