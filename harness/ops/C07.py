"""C07 — NFA/DFA conversions and ε-elimination preserve the language.

Correspondence: DFA_FROM_NFA (retain_names × minify), NFA_FROM_DFA, NFA_ELIM — real
result vs. the Lean model (subset construction through the model of `_expand_dfa`,
`_eliminate_lambda` with its in-loop growth of the final set).  Property oracle
(independent): result validates, same alphabet, complete product search between source
and result finds no distinguishing word; the ε-eliminated NFA has no "" key and every
state is reachable from the initial state.
"""
from __future__ import annotations

import json

from automata.fa.dfa import DFA
from automata.fa.nfa import NFA

from harness import gen, langoracle
from harness.common import guarded, Ctx, Toks, call, dfa_plain, enc_dfa, enc_nfa, nfa_plain, toks
from harness.dfaops_common import (check_valid, lang_mismatch, parse_canon, py_canon, render_block, render_subset)

LEVEL = "proof"
RULE = ("cases = (conversion, options, source automaton); all NFAs with ε: 1 state over {a,b}, 2 states over {a} "
        "(+ 2 states over {a,b} sampled / thorough: all) × 4 option combinations of from_nfa, ε-elimination and "
        "from_dfa on all DFAs ≤2 states; shaped random NFAs ≤5 states (ε-cycles, states without rows, empty target "
        "sets, unreachable parts, rows keyed by non-states, the 2ⁿ 'n-th symbol from the end' family); non-trivial "
        "= source has ≥2 states and a non-empty, non-universal language; distinct = distinct (conversion, options, source)")
ASSUMPTIONS = ["sources are valid automata built through the real constructors"]
EXPLANATION = ("Theorems C07_* (Props/C07.lean) are about the model; this run ties the model to the code and checks the "
               "language and structural claims on the real results with an independent product search.")


def nontrivial(src, n_states) -> bool:
    al = src.input_symbols
    return (n_states >= 2 and langoracle.find_word([src], al, lambda v: v[0]) is not None
            and langoracle.find_word([src], al, lambda v: not v[0]) is not None)


@guarded
def do_from_nfa(ctx: Ctx, N: NFA, retain: bool, minify: bool, origin: str):
    drv = ctx.driver("drv_dfa_ops")
    encN, st, sy = enc_nfa(N)
    replay = dict(op="from_nfa", retain_names=retain, minify=minify, N=repr(N))
    res = call(lambda: DFA.from_nfa(N, retain_names=retain, minify=minify))
    ctx.stat(origin)
    ctx.stat(f"from_nfa_retain{int(retain)}_minify{int(minify)}")
    if res[0] == "err":
        ctx.case(None)
        ctx.prop_fail(f"DFA.from_nfa raised {res[1]} on a valid NFA", replay)
        return
    R = res[1]
    ok = True
    bad = check_valid(R)
    if bad:
        ok = False
        ctx.prop_fail(f"from_nfa: result does not validate ({bad})", replay)
    elif R.input_symbols != N.input_symbols:
        ok = False
        ctx.prop_fail("from_nfa: result alphabet differs", replay)
    else:
        w = lang_mismatch([N], R, N.input_symbols, lambda x: x)
        if w is not None:
            ok = False
            ctx.prop_fail(f"from_nfa(retain_names={retain}, minify={minify}): DFA and NFA disagree on {w!r}", dict(replay, word=w))
    ctx.case(("from_nfa", retain, minify, encN) if ok and nontrivial(N, len(N.states)) else None)
    if any("" in row for row in N.transitions.values()):
        ctx.stat("source_has_epsilon")
    line = drv.ask(toks("DFA_FROM_NFA", retain, minify, ctx.rng.randrange(1000), encN))
    mod = parse_canon(Toks(line[3:]))
    rend = None
    if retain:
        rend = render_block(render_subset(st)) if minify else render_subset(st)
    imp = py_canon(R, sy, rend)
    if ctx.evaluations % 397 == 1:
        ctx.sample(dict(N=repr(N), retain_names=retain, minify=minify, result=repr(R), canonical=imp))
    if ok and imp != mod:
        ctx.corr_diff("DFA_FROM_NFA", replay, imp, mod)


@guarded
def do_from_dfa(ctx: Ctx, D: DFA, origin: str):
    drv = ctx.driver("drv_dfa_ops")
    encD, st, sy = enc_dfa(D)
    replay = dict(op="from_dfa", D=repr(D))
    res = call(lambda: NFA.from_dfa(D))
    ctx.stat(origin)
    ctx.stat("from_dfa")
    if res[0] == "err":
        ctx.case(None)
        ctx.prop_fail(f"NFA.from_dfa raised {res[1]}", replay)
        return
    R = res[1]
    ok = True
    bad = check_valid(R)
    if bad:
        ok = False
        ctx.prop_fail(f"from_dfa: result does not validate ({bad})", replay)
    else:
        w = lang_mismatch([D], R, D.input_symbols, lambda x: x)
        if w is not None:
            ok = False
            ctx.prop_fail(f"from_dfa: NFA and DFA disagree on {w!r}", dict(replay, word=w))
    ctx.case(("from_dfa", encD) if ok and nontrivial(D, len(D.states)) else None)
    line = drv.ask(toks("NFA_FROM_DFA", encD))
    mod = Toks(line[3:]).nfa()
    imp = nfa_plain(R, st, sy)
    if ok and imp != mod:
        ctx.corr_diff("NFA_FROM_DFA", replay, imp, mod)


@guarded
def do_elim(ctx: Ctx, N: NFA, origin: str):
    drv = ctx.driver("drv_dfa_ops")
    encN, st, sy = enc_nfa(N)
    replay = dict(op="eliminate_lambda", N=repr(N))
    res = call(lambda: N.eliminate_lambda())
    ctx.stat(origin)
    ctx.stat("eliminate_lambda")
    if res[0] == "err":
        ctx.case(None)
        ctx.prop_fail(f"eliminate_lambda raised {res[1]}", replay)
        return
    R = res[1]
    ok = True
    bad = check_valid(R)
    if bad:
        ok = False
        ctx.prop_fail(f"eliminate_lambda: result does not validate ({bad})", replay)
    else:
        w = lang_mismatch([N], R, N.input_symbols, lambda x: x)
        if w is not None:
            ok = False
            ctx.prop_fail(f"eliminate_lambda: result and source disagree on {w!r}", dict(replay, word=w))
        elif any("" in row for q, row in R.transitions.items() if q in R.states):
            ok = False
            ctx.prop_fail("eliminate_lambda: an empty-string transition is left", replay)
        else:
            seen = {R.initial_state}
            work = [R.initial_state]
            while work:
                q = work.pop()
                for ts in R.transitions.get(q, {}).values():
                    for t in ts:
                        if t not in seen:
                            seen.add(t)
                            work.append(t)
            if set(R.states) - seen:
                ok = False
                ctx.prop_fail(f"eliminate_lambda: unreachable states left: {set(R.states) - seen!r}", replay)
    ctx.case(("elim", encN) if ok and nontrivial(N, len(N.states)) and any("" in r for r in N.transitions.values()) else None)
    line = drv.ask(toks("NFA_ELIM", encN))
    mod = Toks(line[3:]).nfa()
    imp = nfa_plain(R, st, sy)
    if ok and imp != mod:
        ctx.corr_diff("NFA_ELIM", replay, imp, mod)


def nth_from_end_nfa(rng):
    """The classic 2ⁿ family: n-th symbol from the end is 'a'."""
    n = rng.randint(1, 4)
    tr = {0: {"a": {0, 1}, "b": {0}}}
    for i in range(1, n):
        tr[i] = {"a": {i + 1}, "b": {i + 1}}
    tr[n] = {}
    return NFA(states=set(range(n + 1)), input_symbols={"a", "b"}, transitions=tr, initial_state=0, final_states={n})


def junk_row_nfa(rng):
    n = gen.rand_nfa(rng, 4, names=list(range(4)))
    tr = {k: dict(v) for k, v in n.transitions.items()}
    tr[rng.choice([4, 5, 7, -1])] = {a: {rng.choice(sorted(n.states))} for a in list(n.input_symbols)[:1]}
    return NFA(states=n.states, input_symbols=n.input_symbols, transitions=tr, initial_state=n.initial_state,
               final_states=n.final_states)


def run(ctx: Ctx):
    rng = ctx.rng
    opts = [(r, m) for r in (False, True) for m in (False, True)]
    doms = [(1, ("a", "b"), 1.0), (2, ("a",), 1.0), (2, ("a", "b"), 1.0 if ctx.thorough() else 0.02)]
    for n_states, alpha, frac in doms:
        for N in gen.all_nfas(n_states, alpha):
            if frac < 1.0 and rng.random() > frac:
                continue
            if frac == 1.0 and n_states * len(alpha) <= 2:
                for r, m in opts:
                    do_from_nfa(ctx, N, r, m, "exhaustive")
            else:
                r, m = opts[rng.randrange(4)]
                do_from_nfa(ctx, N, r, m, "exhaustive")
            do_elim(ctx, N, "exhaustive")
    ctx.exhaustive("all NFAs with ε: 1 state over {a,b} and 2 states over {a} (from_nfa in all 4 option combinations, eliminate_lambda)"
                   + ("; all 2-state NFAs over {a,b} (one option combination each)" if ctx.thorough() else ""))
    for n in (1, 2):
        for D in gen.all_dfas(n, ("a", "b")):
            do_from_dfa(ctx, D, "exhaustive")
    ctx.exhaustive("NFA.from_dfa on all DFAs with ≤2 states over {a,b}")
    for _ in range(ctx.budget(1500, 50000)):
        k = rng.random()
        if k < 0.06:
            N = nth_from_end_nfa(rng)
            tag = "nth_from_end_family"
        elif k < 0.14:
            N = junk_row_nfa(rng)
            tag = "row_keyed_by_non_state"
        else:
            N = gen.rand_nfa(rng, 5)
            tag = "random"
        r, m = opts[rng.randrange(4)]
        do_from_nfa(ctx, N, r, m, tag)
        do_elim(ctx, N, tag)
        if rng.random() < 0.3:
            do_from_dfa(ctx, gen.rand_dfa(rng, 6), "random")


def search(ctx: Ctx):
    rng = ctx.rng
    opts = [(r, m) for r in (False, True) for m in (False, True)]
    for _ in range(ctx.budget(10000, 60000)):
        if ctx.n_prop_fails:
            return
        N = junk_row_nfa(rng) if rng.random() < 0.15 else gen.rand_nfa(rng, 6)
        for r, m in opts:
            do_from_nfa(ctx, N, r, m, "search")
        do_elim(ctx, N, "search")
        do_from_dfa(ctx, gen.rand_dfa(rng, 6), "search")


def replay(ctx: Ctx, path: str) -> int:
    data = json.load(open(path))
    rp = data.get("replay", data)
    env = {"DFA": DFA, "NFA": NFA, "frozenset": frozenset}
    if rp["op"] == "from_nfa":
        do_from_nfa(ctx, eval(rp["N"], env), rp["retain_names"], rp["minify"], "replay")
    elif rp["op"] == "from_dfa":
        do_from_dfa(ctx, eval(rp["D"], env), "replay")
    else:
        do_elim(ctx, eval(rp["N"], env), "replay")
    if ctx.prop_fails:
        print(f"VIOLATION property=C07 replay={path}")
        print("  " + ctx.prop_fails[0]["what"])
        return 1
    print("replay: property holds on this input now")
    return 0
