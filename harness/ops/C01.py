"""C01 — finite-automaton acceptance follows the formal definition.

Correspondence: DFA_READ / NFA_READ — full stepwise trace, terminating exception,
read_input result, accepts_input, `in` on str and non-str — real code vs. the Lean
model whose acceptance is proved equal to Mathlib's DFA.accepts / εNFA.accepts
(Props/C01.lean).  A difference on a valid automaton is cross-checked against a
20-line textbook interpreter written here; if the real code also differs from that,
it is a property failure with the (automaton, word) as replay.
"""
from __future__ import annotations

import itertools
import json

from automata.base.exceptions import RejectionException
from automata.fa.dfa import DFA
from automata.fa.nfa import NFA

from harness import fa_history as FH
from harness import fa_reuse as FR
from harness import fa_special as FS
from harness import gen
from harness.common import (guarded, Ctx, Names, Toks, call, enc_dfa, enc_nfa, enc_word, exc_name, sym_names,
                            toks)

LEVEL = "proof"
RULE = ("cases = (valid DFA or NFA, word); bounded-exhaustive small automata × all short words over "
        "alphabet ∪ {foreign symbol}, then shaped random automata (≤7 states, adversarial name pools) × "
        "random words; DFAs are also read with ignore_rejection=True; families: empty alphabet, NFAs with transition "
        "rows keyed by non-states, non-str items for `in` (None, 5, ('a',), b'a', 1.5, frozenset()); big cases (oracle "
        "only, no model call): ε-chains / ε-cycles of ~1500 states, union-like towers, 1500-state DFAs, read with the "
        "independent textbook interpreter; constructor-argument reuse (the SAME dict/set objects edited in place — "
        "targets, rows, final states, new states, a shared target set, a typo that makes the definition invalid for a "
        "while — and handed to the constructor again, default and mutable configuration: every automaton must follow "
        "a deep copy of the containers taken at its construction, earlier automata keep following theirs); NFAs whose "
        "target collections are lists / tuples / frozensets; characters special to a Python mini-language (str.format "
        "braces, %-formatting, regex / backslash, string.Template $, fnmatch, line separators / NUL / ESC, quotes, "
        "case-mapping and zero-width Unicode — harness/fa_special.py) as alphabet symbols, as foreign symbols and in state "
        "names: 4 closed-form machines per symbol pair × all words ≤3 over {x, y, foreign} + every snippet ('{0}', '%s', "
        "'\\1', '${x}', …) + longer words, and shaped random automata over such alphabets with snippets spliced in "
        "first / middle / last position; every reading API is judged directly against the textbook run of the plain "
        "constructor arguments and the closed form (str methods only), any exception other than RejectionException is "
        "a crash; the readers under the global options (harness/fa_history.py): every valid definition — λ corpus, "
        "bounded-exhaustive slice of 1- and 2-state automata, shaped random λ-heavy NFAs / λ-cycles / junk rows / partial "
        "DFAs / tries — constructed under all four combinations of should_validate_automata × allow_mutable_automata and "
        "read under the same and under another combination; readings interleaved with the other public calls on ONE "
        "kept-alive object: programs of readings (the four APIs in a random order) and other public methods (DFA: iter() "
        "created / abandoned / consumed, len, cardinality, words_of_length, count_words_of_length, random_word, "
        "minimum/maximum_word_length, isempty, isfinite, successor(s) / predecessor(s), minify, complement, set operations, "
        "comparisons, copy, pickle, to_partial/to_complete, repr, hash, iter_transitions, validate, clear_cache, "
        "NFA.from_dfa, an abandoned read_input_stepwise; NFA: eliminate_lambda, reverse, kleene_star, option, union / "
        "concatenate / intersection / shuffle product / quotients, ==, DFA.from_nfa, copy, pickle, …; exceptions of those "
        "calls are only recorded), every reading judged against the textbook run of the definition captured at "
        "construction and the four APIs against each other, a failing program is cut, shrunk and re-run on a fresh "
        "object; a case is non-trivial when the word is non-empty and the automaton has ≥2 "
        "states; distinct = distinct (definition, word) pairs")
ASSUMPTIONS = [
    "state names are hashable values; a definition with a state literally named None is refused by validate() since "
    "/repo b159ae7 (the corpus checks that it IS refused: in the model None is the dead configuration and cannot be a "
    "state name, i.e. unrepresentable = rejected)",
    "input symbols are single characters (documented domain restriction, reviewer item X3: a multi-character symbol "
    "validates but can never be read, because Python iterates a str character by character; '' as an input symbol "
    "is refused by validate() since /repo 07f4843)",
    "Python set/dict semantics are modelled (lists / association lists); iteration order is not relied on",
    "NFA target collections may be any iterable of states without repetitions (set, frozenset, list, tuple): the model "
    "sees them as lists used as sets",
]
EXPLANATION = ("Theorems C01_* tie the model's reader to Mathlib's DFA/εNFA acceptance for every valid "
               "automaton and every word; this run ties the model to the code by differential execution.  The symbols of "
               "the model are abstract; that the real reader treats EVERY character as just a symbol (also the ones that "
               "are special to str.format, %-formatting, re, … when the input is spliced into a message on the rejection "
               "path) is covered by the special-character family, which evaluates the property itself on the real code.  "
               "The model has neither global options nor object identity: that the real readers do not depend on "
               "should_validate_automata / allow_mutable_automata, nor on what other public methods were called on the same "
               "object before (per-object caches, generators started and abandoned), is covered by the option and "
               "call-history families, which again evaluate the property itself (textbook run of the definition captured at "
               "construction) on the real code.")


NONSTR = [5, None, ("a",), b"a", 1.5, frozenset(), ("a", "b"), 0, True]


def impl_observe(m, w, nonstr=5, is_nfa=True):
    tr, exn = [], None
    try:
        for c in m.read_input_stepwise(w):
            tr.append(c)
    except Exception as e:  # noqa: BLE001
        exn = exc_name(e)
    out = dict(trace=tr, exn=exn, read=call(lambda: m.read_input(w)), acc=call(lambda: m.accepts_input(w)),
               isin=call(lambda: w in m), isin_nonstr=call(lambda: nonstr in m))
    if not is_nfa:
        # DFA.read_input_stepwise(input_str, ignore_rejection=True)
        tr2, exn2 = [], None
        try:
            for c in m.read_input_stepwise(w, ignore_rejection=True):
                tr2.append(c)
        except Exception as e:  # noqa: BLE001
            exn2 = exc_name(e)
        out["ign_trace"], out["ign_exn"] = tr2, exn2
    return out


def ref_dfa(d: DFA, w: str):
    """Textbook run straight from the transition table (None = no transition)."""
    cur = d.initial_state
    tr = [cur]
    for c in w:
        cur = d.transitions[cur].get(c) if cur is not None else None
        tr.append(cur)
    return tr, (cur is not None and cur in d.final_states)


def ref_nfa(n: NFA, w: str):
    def closure(S):
        S = set(S)
        work = list(S)
        while work:
            q = work.pop()
            for t in n.transitions.get(q, {}).get("", ()):
                if t not in S:
                    S.add(t)
                    work.append(t)
        return frozenset(S)
    cur = closure({n.initial_state})
    tr = [cur]
    for c in w:
        nxt = set()
        for q in cur:
            nxt |= set(n.transitions.get(q, {}).get(c, ()))
        cur = closure(nxt)
        tr.append(cur)
    return tr, bool(cur & n.final_states)


def parse_model(line: str, is_nfa: bool):
    t = Toks(line)
    t.expect("trace")
    tr = t.many(t.ints if is_nfa else t.optint)
    t.expect("exn")
    exn = t.next()
    t.expect("read")
    read = t.res(t.ints if is_nfa else t.optint)
    t.expect("acc")
    acc = t.res(t.int)
    t.expect("in")
    isin = t.res(t.int)
    t.expect("in_nonstr")
    isin2 = t.res(t.int)
    t.expect("valid")
    valid = t.res(lambda: None)
    return dict(trace=tr, exn=None if exn == "-" else exn, read=read, acc=acc, isin=isin,
                isin_nonstr=isin2, valid=valid)


@guarded
def check_one(ctx: Ctx, m, w: str, is_nfa: bool, origin: str, enc3=None, defn=None, extra=None):
    """enc3: encoding taken when the automaton was built (used for sequences of reads on one
    instance under the mutable-automata option: the definition must not drift).
    defn: the definition the automaton was built from (FR.Defn, a deep copy of the constructor arguments):
    the textbook run is then taken from it instead of from the automaton's own attributes.
    extra: what a replay needs besides (automaton, word) — (message prefix, dict merged into the replay)."""
    drv = ctx.driver("drv_fa_core")
    if enc3 is not None:
        enc, st, sy = enc3
    elif is_nfa:
        enc, st, sy = enc_nfa(m)
    else:
        enc, st, sy = enc_dfa(m)
    nonstr = NONSTR[ctx.evaluations % len(NONSTR)]
    obs = impl_observe(m, w, nonstr, is_nfa)
    line = drv.ask(toks("NFA_READ" if is_nfa else "DFA_READ", enc, enc_word(sy, w)))
    mod = parse_model(line, is_nfa)
    if not is_nfa:
        t2 = Toks(drv.ask(toks("DFA_READ_IGNORE", enc, enc_word(sy, w))))
        t2.expect("trace")
        mod["ign_trace"] = t2.many(t2.optint)
        t2.expect("exn")
        e2 = t2.next()
        mod["ign_exn"] = None if e2 == "-" else e2

    def cfg(c):
        if is_nfa:
            return sorted(st(q) for q in c)
        return None if c is None else st(c)

    def res(r, f):
        return (r[0], f(r[1])) if r[0] == "ok" else r

    impl = dict(trace=[cfg(c) for c in obs["trace"]], exn=obs["exn"], read=res(obs["read"], cfg),
                acc=res(obs["acc"], int), isin=res(obs["isin"], int), isin_nonstr=res(obs["isin_nonstr"], int),
                valid=("ok", None))
    if not is_nfa:
        impl["ign_trace"], impl["ign_exn"] = [cfg(c) for c in obs["ign_trace"]], obs["ign_exn"]
    ctx.stat("nonstr_" + type(nonstr).__name__)
    nontrivial = len(w) >= 1 and len(m.states) >= 2
    ctx.case((("N" if is_nfa else "D"), enc, w) if nontrivial else None)
    ctx.stat(origin)
    ctx.stat("nfa" if is_nfa else "dfa")
    ctx.stat("accepted" if obs["acc"] == ("ok", True) else "rejected")
    if any(c not in m.input_symbols for c in w):
        ctx.stat("word_with_foreign_symbol")
    if not is_nfa and any(c is None for c in obs["trace"]):
        ctx.stat("dfa_run_hits_missing_transition")
    if ctx.evaluations % 997 == 1:
        ctx.sample(dict(automaton=repr(m), word=w, trace=[repr(c) for c in obs["trace"]],
                        accepts=obs["acc"], model_line=line))
    if impl != mod:
        case = dict(automaton=repr(m), word=w, kind="NFA" if is_nfa else "DFA")
        # is the *real code* wrong w.r.t. the textbook definition?
        rtr, racc = (ref_nfa if is_nfa else ref_dfa)(m if defn is None else defn, w)
        textbook = dict(trace=[cfg(c) for c in rtr], acc=("ok", int(racc)))
        if extra is not None:
            case.update(extra[1])
        wrong = []
        if impl["trace"] != textbook["trace"]:
            wrong.append("stepwise configurations differ from the textbook run")
        if impl["acc"] != textbook["acc"]:
            wrong.append("accepts_input differs from the textbook verdict")
        if impl["isin"] != textbook["acc"]:
            wrong.append("`in` differs from the textbook verdict")
        if impl["isin_nonstr"] != ("ok", 0):
            wrong.append(f"non-str item {nonstr!r}: `in` gave {impl['isin_nonstr']} instead of False")
        if not is_nfa and impl["ign_trace"] != textbook["trace"]:
            wrong.append("read_input_stepwise(ignore_rejection=True): configurations differ from the textbook run")
        if not is_nfa and impl["ign_exn"] is not None:
            wrong.append(f"read_input_stepwise(ignore_rejection=True) ended with {impl['ign_exn']}")
        if racc and impl["read"] != ("ok", textbook["trace"][-1]):
            wrong.append("read_input does not return the final configuration")
        if not racc and impl["read"] != ("err", "RejectionException"):
            wrong.append("rejection not signalled by RejectionException")
        if impl["exn"] not in (None, "RejectionException"):
            wrong.append(f"crash {impl['exn']}")
        if wrong:
            ctx.prop_fail((extra[0] if extra is not None else "") + f"{case['kind']} reading {w!r}: " + "; ".join(wrong),
                          dict(case, impl=impl, textbook=textbook, nonstr=repr(nonstr)), None)
        else:
            ctx.corr_diff("NFA_READ" if is_nfa else "DFA_READ", case, impl, mod)


# ------------------------------------------------------------------ X1: a state named None must be refused
MISSING = ("<no transition>",)


def none_state_corpus(ctx: Ctx):
    """Triggers of the repaired defect F27 (/repo b159ae7): definitions with a state literally named None.
    They must be REFUSED by the constructor (InvalidStateError).  If one is accepted (pre-fix tree), the
    reader is run against a textbook interpreter that uses its own sentinel for "no transition": the code
    confuses the state None with the dead configuration, which is then reported as the property failure."""
    from automata.base.exceptions import InvalidStateError
    defs = [
        ("DFA", dict(states={0, None}, input_symbols={"a", "b"}, transitions={0: {"a": 0}, None: {}},
                     initial_state=0, final_states={None}, allow_partial=True), ["b", "x", "ab", "", "a"]),
        ("DFA", dict(states={None, 1}, input_symbols={"a"}, transitions={None: {"a": 1}, 1: {"a": None}},
                     initial_state=1, final_states={1}), ["aa", "a", "", "aaa", "aaaa"]),
        ("DFA", dict(states={None}, input_symbols={"a"}, transitions={None: {"a": None}}, initial_state=None,
                     final_states={None}), ["", "a", "aa"]),
        ("NFA", dict(states={None, 0}, input_symbols={"a"}, transitions={0: {"a": {None}}, None: {"": {0}}},
                     initial_state=0, final_states={None}), ["a", "", "aa"]),
        ("NFA", dict(states={None}, input_symbols={"a"}, transitions={None: {"a": {None}}}, initial_state=None,
                     final_states={None}), ["", "a"]),
    ]
    for kind, kw, words in defs:
        ctx.case(None)
        ctx.stat("corpus_none_state")
        cls = DFA if kind == "DFA" else NFA
        try:
            m = cls(**kw)
        except InvalidStateError:
            ctx.stat("corpus_none_state_refused")
            continue
        except Exception as e:  # noqa: BLE001
            ctx.prop_fail(f"{kind} definition with a state named None raised {type(e).__name__} instead of "
                          f"InvalidStateError", dict(kind=kind, op="none_state", definition=repr(kw)), None)
            continue
        # accepted: evaluate the reader against the definition's own textbook run
        bad = []
        for w in words:
            if kind == "DFA":
                cur = kw["initial_state"]
                dead = False
                for c in w:
                    if dead:
                        break
                    nxt = kw["transitions"].get(cur, {}).get(c, MISSING)
                    if nxt is MISSING:
                        dead = True
                    else:
                        cur = nxt
                want = (not dead) and cur in kw["final_states"]
            else:
                def clo(S):
                    S = set(S)
                    work = list(S)
                    while work:
                        q = work.pop()
                        for t in kw["transitions"].get(q, {}).get("", ()):
                            if t not in S:
                                S.add(t)
                                work.append(t)
                    return S
                cur = clo({kw["initial_state"]})
                for c in w:
                    cur = clo({t for q in cur for t in kw["transitions"].get(q, {}).get(c, ())})
                want = bool(cur & kw["final_states"])
            got = call(lambda: m.accepts_input(w))
            if got != ("ok", want):
                bad.append((w, want, got))
        what = (f"a {kind} definition with a state literally named None passes validation "
                f"({kind}(**{kw!r})); ")
        if bad:
            w, want, got = bad[0]
            what += (f"the reader then treats the state None as the dead configuration: accepts_input({w!r}) gives "
                     f"{got[1] if got[0] == 'ok' else 'raises ' + got[1]}, the textbook run of the table gives {want}")
        else:
            what += "the model (and the documentation) cannot name such a state: it must be refused with InvalidStateError"
        ctx.prop_fail(what, dict(kind=kind, op="none_state", definition=repr(kw)), None)


# ------------------------------------------------------------------ more generator families
def empty_alphabet_family(ctx: Ctx):
    """Automata over the empty alphabet: only '' (and words of foreign symbols) can be read."""
    rng = ctx.rng
    ms = []
    for fin in (set(), {0}, {1}, {0, 1}):
        for partial in (False, True):
            ms.append((DFA(states={0, 1}, input_symbols=set(), transitions={0: {}, 1: {}}, initial_state=0,
                           final_states=fin, allow_partial=partial), False))
        ms.append((NFA(states={0, 1}, input_symbols=set(), transitions={0: {"": {1}}, 1: {}}, initial_state=0,
                       final_states=fin), True))
        ms.append((NFA(states={0, 1}, input_symbols=set(), transitions={0: {"": {1}}, 1: {"": {0}}}, initial_state=1,
                       final_states=fin), True))
        ms.append((NFA(states={0}, input_symbols=set(), transitions={}, initial_state=0, final_states=fin & {0}), True))
    for m, is_nfa in ms:
        for w in ("", "#", "##", "a"):
            check_one(ctx, m, w, is_nfa, "empty_alphabet")
    ctx.exhaustive("2-state DFAs/NFAs over the empty alphabet (all final sets, partial and complete, ε-moves) × {'', '#', '##', 'a'}")


def junk_row_nfa(rng, max_states=5):
    """Valid NFA with transition rows keyed by names that are not states (they pass validation: only
    the symbols and the end states of a row are checked)."""
    n0 = gen.rand_nfa(rng, max_states)
    names = sorted(n0.states, key=repr)
    sy = sorted(n0.input_symbols)
    trans = {k: {a: set(ts) for a, ts in row.items()} for k, row in n0.transitions.items()}
    for k in [x for x in (-1, 0, 1, len(names), "junk", ("j", 0)) if x not in n0.states][: rng.randint(1, 2)]:
        row = {}
        for a in sy + [""]:
            if rng.random() < 0.5:
                row[a] = {t for t in names if rng.random() < 0.4}
        trans[k] = row
    keys = list(trans)
    rng.shuffle(keys)
    return NFA(states=set(n0.states), input_symbols=set(sy), transitions={k: trans[k] for k in keys},
               initial_state=n0.initial_state, final_states=set(n0.final_states))


# ------------------------------------------------------------------ round 4: constructor arguments used again
def run_scenario(ctx: Ctx, scenario, origin: str):
    """(kind, mutable, kw0, steps) of harness/fa_reuse.py: build from the same container objects several times,
    with in-place edits in between.  Every automaton is judged against the textbook run (and the model) of a
    deep copy of the containers taken at the moment of ITS construction."""
    import copy

    import automata.base.config as global_config
    from automata.base.exceptions import AutomatonException
    kind, mutable, kw0, steps = scenario
    is_nfa = kind == "NFA"
    cls = NFA if is_nfa else DFA
    kw = copy.deepcopy(kw0)  # the container objects of this scenario; never replaced, only edited
    rp = dict(op="reuse", scenario=repr(scenario))
    built = []
    n_build = 0
    edits = []
    for step in steps:
        if step[0] != "build":
            FR.apply_edit(kw, step)
            edits.append(step)
            ctx.stat("reuse_edit_" + step[0])
            continue
        _, words, expect_ok = step
        n_build += 1
        defn = FR.Defn(kind, kw)
        global_config.allow_mutable_automata = mutable
        try:
            try:
                r = ("ok", cls(**kw))
            except RecursionError:
                raise
            except Exception as e:  # noqa: BLE001
                r = ("err", e)
        finally:
            global_config.allow_mutable_automata = False
        ctx.case(None)
        ctx.stat(origin + ":build")
        ctx.stat(f"reuse_build_{min(n_build, 4)}{'+' if n_build >= 4 else ''}_{'ok' if r[0] == 'ok' else 'refused'}")
        if mutable:
            ctx.stat("reuse_under_allow_mutable_automata")
        hist = (f"{kind} construction #{n_build} from the same container objects" if n_build > 1 else
                f"{kind} built from plain containers")
        hist += (f" (after {len(edits)} in-place edit(s), last {edits[-1]!r})" if edits else "") + ": "
        if expect_ok and r[0] == "err":
            ctx.prop_fail(hist + f"the containers hold a valid definition now, the constructor raises "
                          f"{type(r[1]).__name__}", dict(rp, kind=kind), None)
            return
        if not expect_ok:
            if r[0] == "ok":
                ctx.prop_fail(hist + "the containers hold an invalid definition now (a target that is no state), the "
                              "constructor accepts it", dict(rp, kind=kind), None)
                return
            if not isinstance(r[1], AutomatonException):
                ctx.prop_fail(hist + f"invalid definition: the constructor crashes with {type(r[1]).__name__}",
                              dict(rp, kind=kind), None)
                return
            continue
        m = r[1]
        enc3 = (enc_nfa if is_nfa else enc_dfa)(defn)
        for w in words:
            check_one(ctx, m, w, is_nfa, origin, enc3=enc3, defn=defn, extra=(hist, rp))
        if not mutable:
            # frozen configuration: automata built earlier keep following the table they were built from
            for (m0, defn0, enc0, hist0) in built[-2:]:
                for w in words[1:3]:
                    check_one(ctx, m0, w, is_nfa, origin + ":earlier_automaton", enc3=enc0, defn=defn0,
                              extra=(hist0 + "read again after the containers were edited and used again: ", rp))
        built.append((m, defn, enc3, hist))


def reuse_family(ctx: Ctx, count: int):
    for _ in range(count):
        run_scenario(ctx, FR.rand_scenario(ctx.rng), "constructor_argument_reuse")


def target_collection_family(ctx: Ctx, count: int):
    """NFAs whose target collections are lists / tuples / frozensets / sets (the default configuration stores a
    list as a tuple, allow_mutable_automata keeps it a list)."""
    import automata.base.config as global_config
    rng = ctx.rng
    for _ in range(count):
        style = rng.choice(["list", "tuple", "mixed", "mixed", "frozenset"])
        n0 = gen.rand_nfa(rng, 5) if rng.random() < 0.7 else junk_row_nfa(rng, 4)
        kw = FR.nfa_kw(rng, n0, style)
        mutable = rng.random() < 0.3
        defn = FR.Defn("NFA", kw)
        global_config.allow_mutable_automata = mutable
        try:
            m = NFA(**kw)
        finally:
            global_config.allow_mutable_automata = False
        enc3 = enc_nfa(defn)
        sy = sorted(kw["input_symbols"])
        ctx.stat("nfa_targets_given_as_" + style + ("_mutable_option" if mutable else ""))
        for _ in range(3):
            check_one(ctx, m, gen.rand_word(rng, sy, 8, gen.foreign_symbol(sy)), True,
                      "random_nfa_target_collections", enc3=enc3, defn=defn)


# ------------------------------------------------------------------ round 5: characters special to a mini-language
def _grab(f):
    """("ok", value) / ("rej",) for the library's RejectionException / ("err", class name, text) for anything else —
    SystemExit, RecursionError, MemoryError included: every one of them is a crash of the reader."""
    try:
        return ("ok", f())
    except RejectionException:
        return ("rej",)
    except KeyboardInterrupt:
        raise
    except BaseException as e:  # noqa: BLE001
        try:
            text = ascii(str(e))[:100]
        except BaseException:  # noqa: BLE001
            text = "<unprintable>"
        return ("err", type(e).__name__, text)


def _stepwise(m, w, **kwargs):
    got = []

    def go():
        for c in m.read_input_stepwise(w, **kwargs):
            got.append(c)
    return got, _grab(go)


def build_special(kind: str, kw: dict, mutable: bool):
    import automata.base.config as global_config
    defn = FR.Defn(kind, kw)
    global_config.allow_mutable_automata = mutable
    try:
        m = (NFA if kind == "NFA" else DFA)(**kw)
    finally:
        global_config.allow_mutable_automata = False
    return m, defn, (enc_nfa if kind == "NFA" else enc_dfa)(defn)


def _show(r):
    return {"ok": lambda: f"returned {r[1]!r}", "rej": lambda: "raised RejectionException",
            "err": lambda: f"raised {r[1]}({r[2]})"}[r[0]]()


@guarded
def check_special(ctx: Ctx, built, kind: str, kw: dict, w: str, origin: str, lang: str, closed=None,
                  mutable: bool = False, with_model: bool = True):
    """The PROPERTY on the real code for one (definition, word), every reading API, against the textbook run of
    the definition as given (a deep copy of the plain constructor arguments) and, where there is one, against the
    closed form of the language.  `built` = build_special(kind, kw, mutable)."""
    m, defn, enc3 = built
    is_nfa = kind == "NFA"
    rtr, racc = (ref_nfa if is_nfa else ref_dfa)(defn, w)
    if closed is not None and bool(closed) != racc:
        raise AssertionError(f"the two oracles disagree on {w!a}: closed form {closed}, textbook run {racc}")
    sigma = set(kw["input_symbols"])
    foreign = [c for c in w if c not in sigma]
    # --- distribution
    ctx.stat("special:" + origin)
    ctx.stat("special_lang:" + lang)
    ctx.stat("special:" + ("accepted" if racc else "rejected"))
    has_special = any(c in FS.SPECIAL_SET for c in w)
    if has_special:
        ctx.stat("special:" + ("accepted" if racc else "rejected") + "_word_with_special_char")
    if not racc:
        if foreign:
            ctx.stat("special:rejected_foreign_symbol" + ("_special" if any(c in FS.SPECIAL_SET for c in foreign) else "_plain"))
        elif not is_nfa and rtr[-1] is None:
            ctx.stat("special:rejected_missing_transition")
        elif is_nfa and not rtr[-1]:
            ctx.stat("special:rejected_empty_configuration")
        else:
            ctx.stat("special:rejected_nonfinal_configuration")
    if any(c in FS.SPECIAL_SET and c in sigma for c in w):
        ctx.stat("special:word_has_special_alphabet_symbol")
    for pos in FS.position_class(w, lambda c: c in FS.SPECIAL_SET):
        ctx.stat("special:special_char_" + pos)
    if any(isinstance(q, str) and any(c in FS.SPECIAL_SET for c in q) or isinstance(q, tuple) for q in kw["states"]):
        ctx.stat("special:state_names_special_or_tuple")
    # --- the property, API by API
    want = ("ok", racc)
    acc = _grab(lambda: m.accepts_input(w))
    isin = _grab(lambda: w in m)
    read = _grab(lambda: m.read_input(w))
    steps, end = _stepwise(m, w)
    wrong = []
    if acc != want:
        wrong.append(f"accepts_input {_show(acc)}, the textbook verdict is {racc}")
    if isin != want:
        wrong.append(f"`in` {_show(isin)}, the textbook verdict is {racc}")
    if racc and not (read[0] == "ok" and read[1] == rtr[-1]):
        wrong.append(f"read_input {_show(read)}, the textbook run ends in {rtr[-1]!r}")
    if not racc and read != ("rej",):
        wrong.append(f"read_input {_show(read)}, the word must be rejected with RejectionException")
    if steps != rtr:
        wrong.append(f"read_input_stepwise yielded {steps!r}, the textbook run is {rtr!r}")
    if end[0] != ("ok" if racc else "rej"):
        wrong.append(f"read_input_stepwise ended: {_show(end) if end[0] != 'ok' else 'without rejection'}"
                     f" ({'accepted' if racc else 'rejected'} word)")
    if not is_nfa:
        steps2, end2 = _stepwise(m, w, ignore_rejection=True)
        if steps2 != rtr or end2[0] != "ok":
            wrong.append("read_input_stepwise(ignore_rejection=True): "
                         + (_show(end2) if end2[0] != "ok" else f"yielded {steps2!r}, the textbook run is {rtr!r}"))
    rp = dict(op="special", kind=kind, kw=repr(kw), word=w, mutable=mutable, lang=lang)
    if wrong:
        ctx.case(("S", kind, rp["kw"], w))
        ctx.stat("special:FAIL")
        ctx.prop_fail(f"{kind}(**{kw!a}) reading {w!a} [{lang}-special characters"
                      + (", allow_mutable_automata" if mutable else "") + "]: " + "; ".join(wrong),
                      dict(rp, textbook_accepts=racc), None)
        return
    if with_model:
        check_one(ctx, m, w, is_nfa, origin, enc3=enc3, defn=defn, extra=("", rp))
    else:
        ctx.case(("S", kind, rp["kw"], w) if len(w) >= 1 and len(kw["states"]) >= 2 else None)
        ctx.stat(origin)


def special_symbol_family(ctx: Ctx, count: int):
    """Alphabets and words over characters that are special to str.format / %-formatting / re / string.Template /
    fnmatch / escapes and line separators / quoting / case mapping (harness/fa_special.py), as alphabet symbols and
    as foreign symbols, in every position of accepted and rejected words."""
    rng = ctx.rng
    # (a) closed-form machines over every pair, bounded-exhaustive words; the model is asked for every 4th case
    k = 0
    for i, (lang, x, y, f) in enumerate(FS.PAIRS):
        names = FS.NAME_STYLES[i % len(FS.NAME_STYLES)]
        words = FS.corpus_words(lang, x, y, f)
        for tag, kind, kw, pred in FS.closed_machines(x, y, names):
            built = build_special(kind, kw, False)
            for w in words:
                k += 1
                check_special(ctx, built, kind, kw, w, "special_closed_form_" + tag, lang, closed=pred(w),
                              with_model=(k % 4 == 0))
    ctx.exhaustive("4 closed-form machines ((xy)*, even #x, ends with xy via an ε-move, contains x) over each of "
                   f"{len(FS.PAIRS)} symbol pairs of template-special characters × all words of length ≤3 over "
                   "{x, y, a foreign special character} and every snippet of the pair's mini-language")
    # (b) shaped random automata over special alphabets / with special state names, words with spliced snippets
    for _ in range(count):
        lang, snips, alpha = FS.rand_alphabet(rng)
        kind = "NFA" if rng.random() < 0.5 else "DFA"
        n = rng.randint(1, 5)
        names = FS.rand_names(rng, n)
        if kind == "NFA":
            kw = FR.nfa_kw(rng, gen.rand_nfa(rng, n, alphabet=alpha, names=names, min_states=n), "set")
        else:
            kw = FR.dfa_kw(gen.rand_dfa(rng, n, alphabet=alpha, names=names, min_states=n, junk_rows=False))
        mutable = rng.random() < 0.15
        built = build_special(kind, kw, mutable)
        for _ in range(4):
            check_special(ctx, built, kind, kw, FS.rand_word(rng, alpha, snips), "special_random_" + kind.lower(), lang,
                          mutable=mutable)


# ------------------------------------------------------------------ round 6: global options; readings interleaved with other calls
import contextlib


@contextlib.contextmanager
def library_options(validate: bool, mutable: bool):
    """automata.base.config.should_validate_automata / allow_mutable_automata for the duration of the block; the
    values found on entry (the defaults) are restored on every exit, exceptions included."""
    import automata.base.config as global_config
    old = (global_config.should_validate_automata, global_config.allow_mutable_automata)
    global_config.should_validate_automata, global_config.allow_mutable_automata = bool(validate), bool(mutable)
    try:
        yield
    finally:
        global_config.should_validate_automata, global_config.allow_mutable_automata = old


def build_under(kind: str, kw: dict, opt):
    """Construct from a private deep copy of the plain arguments under the options `opt`; the definition the object
    must follow from now on is captured here (FR.Defn, another deep copy), whatever is done with the object later."""
    import copy
    defn = FR.Defn(kind, kw)
    mine = copy.deepcopy(kw)
    with library_options(*opt):
        m = (NFA if kind == "NFA" else DFA)(**mine)
    return m, defn, (enc_nfa if kind == "NFA" else enc_dfa)(defn)


def judge_reading(m, is_nfa: bool, defn, w: str, order: str = "airs"):
    """One word through the four reading APIs (called in the given order), each judged against the textbook run of
    `defn`, and against each other.  Returns (textbook verdict, textbook trace, list of what is wrong)."""
    rtr, racc = (ref_nfa if is_nfa else ref_dfa)(defn, w)
    want = ("ok", racc)
    got = {}
    for api in order:
        if api == "a":
            got["a"] = _grab(lambda: m.accepts_input(w))
        elif api == "i":
            got["i"] = _grab(lambda: w in m)
        elif api == "r":
            got["r"] = _grab(lambda: m.read_input(w))
        else:
            got["s"] = _stepwise(m, w)
            if not is_nfa:
                got["s2"] = _stepwise(m, w, ignore_rejection=True)
    acc, isin, read, (steps, end) = got["a"], got["i"], got["r"], got["s"]
    wrong = []
    if acc != want:
        wrong.append(f"accepts_input {_show(acc)}, the textbook verdict is {racc}")
    if isin != want:
        wrong.append(f"`in` {_show(isin)}, the textbook verdict is {racc}")
    if acc[0] == "ok" and isin[0] == "ok" and acc[1] != isin[1]:
        wrong.append(f"accepts_input ({acc[1]!r}) and `in` ({isin[1]!r}) disagree on the same word")
    if racc and not (read[0] == "ok" and read[1] == rtr[-1]):
        wrong.append(f"read_input {_show(read)}, the textbook run ends in {rtr[-1]!r}")
    if not racc and read != ("rej",):
        wrong.append(f"read_input {_show(read)}, the word must be rejected with RejectionException")
    if steps != rtr:
        wrong.append(f"read_input_stepwise yielded {steps!r}, the textbook run is {rtr!r}")
    if end[0] != ("ok" if racc else "rej"):
        wrong.append(f"read_input_stepwise ended: {_show(end) if end[0] != 'ok' else 'without rejection'}"
                     f" ({'accepted' if racc else 'rejected'} word)")
    if not is_nfa:
        steps2, end2 = got["s2"]
        if steps2 != rtr or end2[0] != "ok":
            wrong.append("read_input_stepwise(ignore_rejection=True): "
                         + (_show(end2) if end2[0] != "ok" else f"yielded {steps2!r}, the textbook run is {rtr!r}"))
    return racc, rtr, wrong


class _NoLambda:
    """The definition with its empty-string moves removed (only to classify a case: do the λ-moves matter?)."""

    def __init__(self, defn):
        self.transitions = {q: {a: ts for a, ts in row.items() if a != ""} for q, row in defn.transitions.items()}
        self.initial_state, self.final_states = defn.initial_state, defn.final_states


@guarded
def check_options(ctx: Ctx, built, kind: str, kw: dict, w: str, build_opt, read_opt, origin: str, shape: str,
                  with_model: bool = False):
    """The property for one (definition, word) with the object CONSTRUCTED under build_opt and READ under read_opt."""
    m, defn, enc3 = built
    is_nfa = kind == "NFA"
    with library_options(*read_opt):
        racc, rtr, wrong = judge_reading(m, is_nfa, defn, w)
    ctx.stat("options:" + origin)
    ctx.stat("options:built_under_" + FH.option_name(build_opt))
    ctx.stat("options:read_under_" + ("the_same_options" if tuple(read_opt) == tuple(build_opt)
                                      else "other_options_than_built"))
    ctx.stat(f"options:{kind.lower()}_{shape}")
    ctx.stat("options:" + ("accepted" if racc else "rejected"))
    if any(c not in kw["input_symbols"] for c in w):
        ctx.stat("options:word_with_foreign_symbol")
    if is_nfa:
        if any(row.get("") for row in defn.transitions.values()):
            ctx.stat("options:nfa_has_lambda_moves")
            if ref_nfa(_NoLambda(defn), w)[0] != rtr:
                ctx.stat("options:lambda_moves_matter_for_the_configurations")
            if ref_nfa(_NoLambda(defn), w)[1] != racc:
                ctx.stat("options:lambda_moves_matter_for_the_verdict")
    elif any(c is None for c in rtr):
        ctx.stat("options:dfa_run_hits_missing_transition")
    rp = dict(op="options", kind=kind, kw=repr(kw), word=w, build=list(build_opt), read=list(read_opt), shape=shape)
    key = ("O", kind, rp["kw"], tuple(build_opt), tuple(read_opt), w)
    if wrong:
        ctx.case(key)
        ctx.stat("options:FAIL")
        ctx.prop_fail(f"{kind}(**{kw!a}) constructed under [{FH.option_name(build_opt)}], read under "
                      f"[{FH.option_name(read_opt)}], word {w!a}: " + "; ".join(wrong),
                      dict(rp, textbook_accepts=racc), None)
        return
    if with_model:
        with library_options(*read_opt):
            check_one(ctx, m, w, is_nfa, origin, enc3=enc3, defn=defn,
                      extra=(f"constructed under [{FH.option_name(build_opt)}], read under "
                             f"[{FH.option_name(read_opt)}]: ", rp))
    else:
        ctx.case(key if len(w) >= 1 and len(kw["states"]) >= 2 else None)
        ctx.stat(origin)


def options_one(ctx: Ctx, kind: str, kw: dict, shape: str, words, origin: str, k: int):
    """One valid definition under all four combinations of the two global options."""
    rng = ctx.rng
    for j, opt in enumerate(FH.OPTION_COMBOS):
        try:
            built = build_under(kind, kw, opt)
        except BaseException as e:  # noqa: BLE001 - a VALID definition must be constructible under every option
            if isinstance(e, KeyboardInterrupt):
                raise
            ctx.case(None)
            ctx.prop_fail(f"{kind}(**{kw!a}): constructing this valid definition under [{FH.option_name(opt)}] raised "
                          f"{type(e).__name__}", dict(op="options", kind=kind, kw=repr(kw), word="", build=list(opt),
                                                      read=list(opt), shape=shape), None)
            continue
        for i, w in enumerate(words):
            check_options(ctx, built, kind, kw, w, opt, opt, origin, shape, with_model=((k + i + j) % 6 == 0))
        # the options are switched between construction and reading (same object, already read above)
        other = FH.OPTION_COMBOS[(j + 1 + rng.randrange(3)) % 4]
        for w in words[:2]:
            check_options(ctx, built, kind, kw, w, opt, other, origin, shape)


LAMBDA_CORPUS = [
    # (kw, words): the λ-moves decide the verdict / the configurations
    (dict(states={0, 1}, input_symbols={"a"}, transitions={0: {"": {1}}, 1: {"a": {1}}}, initial_state=0,
          final_states={1}), ["", "a", "aa", "#"]),
    (dict(states={0, 1, 2}, input_symbols={"a", "b"}, transitions={0: {"a": {1}}, 1: {"": {2}}, 2: {"b": {0}, "": {1}}},
          initial_state=0, final_states={2}), ["a", "ab", "aba", "", "b", "abab"]),
    (dict(states={"s", "x", "y", "f"}, input_symbols={"a", "b"},
          transitions={"s": {"": {"x", "y"}}, "x": {"a": {"x"}, "": {"f"}}, "y": {"b": {"y"}, "": {"f"}}, "f": {}},
          initial_state="s", final_states={"f"}), ["", "a", "aa", "b", "bb", "ab", "a#"]),
    (dict(states={0, 1, 2}, input_symbols={"a"}, transitions={0: {"": {1}}, 1: {"": {2}}, 2: {"": {0}, "a": {2}}},
          initial_state=0, final_states={1}), ["", "a", "aaa"]),
    (dict(states={("q", 0), ("q", 1)}, input_symbols={"0", "1"},
          transitions={("q", 0): {"0": {("q", 0)}, "": {("q", 1)}}, ("q", 1): {"1": {("q", 1)}}},
          initial_state=("q", 0), final_states={("q", 1)}), ["", "0", "1", "01", "0011", "10"]),
]


def options_family(ctx: Ctx, count: int):
    """(A) of round 6: the property does not mention should_validate_automata / allow_mutable_automata, so verdicts,
    `in`, read_input and the stepwise configurations of a VALID definition are the same under all four combinations."""
    rng = ctx.rng
    k = 0
    for kw, words in LAMBDA_CORPUS:
        k += 1
        options_one(ctx, "NFA", kw, "corpus_lambda", words, "options_corpus", k)
    # bounded-exhaustive slice: 1-state NFAs with ε over {a,b}; 1-state DFAs; every 7th 2-state NFA over {a} with ε
    for n0 in gen.all_nfas(1, ("a", "b")):
        k += 1
        options_one(ctx, "NFA", FR.nfa_kw(rng, n0, "set"), "exhaustive_1_state", ["", "a", "ab", "#"], "options_exhaustive", k)
    for d0 in gen.all_dfas(1, ("a", "b")):
        k += 1
        options_one(ctx, "DFA", FR.dfa_kw(d0), "exhaustive_1_state", ["", "a", "ab", "b#"], "options_exhaustive", k)
    for i, n0 in enumerate(gen.all_nfas(2, ("a",))):
        if i % 7 == 3:
            k += 1
            options_one(ctx, "NFA", FR.nfa_kw(rng, n0, "set"), "slice_2_states", ["", "a", "aa", "a#"], "options_exhaustive", k)
    ctx.exhaustive("all four combinations of should_validate_automata × allow_mutable_automata (construction and reading): "
                   "all 1-state NFAs with ε over {a,b}, all 1-state DFAs over {a,b}, every 7th 2-state NFA with ε over {a} "
                   "× 4 words incl. a foreign symbol")
    # shaped random: the generators of the default-configuration families, rebuilt from plain containers
    for _ in range(count):
        k += 1
        kind = "NFA" if rng.random() < 0.65 else "DFA"
        kw, shape, _closed = FH.rand_definition(rng, kind, lambda_heavy=rng.random() < 0.6)
        sy = sorted(kw["input_symbols"])
        words = FH.words_of_interest(rng, kind, kw, 4)[:6] + [gen.rand_word(rng, sy, 8, gen.foreign_symbol(sy))]
        options_one(ctx, kind, kw, shape, words, "options_random", k)


HISTORY_CALL_TIMEOUT_S = 3.0


def _watchdog(f):
    """_grab with a time limit: a public call of a history that does not return (on a changed tree a loop may have
    lost its exit) is recorded as ("err", "CallTimeout", …) like any other exception and the program goes on."""
    import signal
    import threading

    from harness.common import CallTimeout
    if threading.current_thread() is not threading.main_thread():
        return _grab(f)

    def alarm(signum, frame):
        raise CallTimeout()
    old = signal.signal(signal.SIGALRM, alarm)
    signal.setitimer(signal.ITIMER_REAL, HISTORY_CALL_TIMEOUT_S)
    try:
        return _grab(f)
    finally:
        signal.setitimer(signal.ITIMER_REAL, 0)
        signal.signal(signal.SIGALRM, old)


def exec_history(scenario):
    """Run one history of harness/fa_history.py on ONE kept-alive object.  Returns a dict: events (one per step: a
    recorded call, or a judged reading), the object, its definition as captured at construction."""
    kind, options, kw, other_kw, steps = scenario
    is_nfa = kind == "NFA"
    out = dict(events=[], m=None, defn=None, enc3=None, build_error=None)
    try:
        m, defn, enc3 = build_under(kind, kw, options)
        other = build_under(kind, other_kw, (True, False))[0] if other_kw is not None else None
    except BaseException as e:  # noqa: BLE001
        if isinstance(e, KeyboardInterrupt):
            raise
        out["build_error"] = type(e).__name__
        return out
    out.update(m=m, defn=defn, enc3=enc3)
    kept = []          # abandoned generators that stay referenced until the end of the program
    last_word = next((s[1] for s in steps if s[0] == "read"), "")
    n_calls = 0
    for i, step in enumerate(steps):
        if step[0] == "read":
            _, w, order = step
            racc, rtr, wrong = judge_reading(m, is_nfa, defn, w, order)
            out["events"].append(dict(i=i, kind="read", word=w, racc=racc, wrong=wrong, after_calls=n_calls,
                                      missing=(not is_nfa and any(c is None for c in rtr))))
            last_word = w
            continue
        n_calls += 1
        r = _watchdog(lambda: FH.do_call(m, other, step, kept))
        ev = dict(i=i, kind="call", label=FH.call_label(step), outcome=r[0], exn=(r[1] if r[0] == "err" else None),
                  wrong=[])
        if r[0] == "ok" and step[0] in ("copy", "pickle") and isinstance(r[1], (DFA, NFA)):
            # an object with the same definition: it must read like the original
            _, _, wrong = judge_reading(r[1], is_nfa, defn, last_word)
            ev["wrong"] = [("the copy() of the object: " if step[0] == "copy" else "the object after a pickle round trip: ") + x
                           for x in wrong]
            ev["word"] = last_word
        out["events"].append(ev)
    return out


def history_failure(scenario):
    """First event of the history where the property fails (None: it holds along the whole program)."""
    res = exec_history(scenario)
    if res["build_error"] is not None:
        return None
    return next((ev for ev in res["events"] if ev["wrong"]), None)


def shrink_history(scenario, ev):
    """Cut the program after the failing step, then drop every earlier step that is not needed for the failure
    (greedy, each candidate re-run on a fresh object).  Returns (scenario, event) of a confirmed failure, or None
    when the failure does not show again on a fresh object."""
    kind, options, kw, other_kw, steps = scenario
    steps = list(steps[: ev["i"] + 1])
    cur = (kind, options, kw, other_kw, steps)
    ev2 = history_failure(cur)
    if ev2 is None or ev2["i"] != len(steps) - 1:
        return None if ev2 is None else ((kind, options, kw, other_kw, steps[: ev2["i"] + 1]), ev2)
    j = 0
    while j < len(steps) - 1:
        cand = steps[:j] + steps[j + 1:]
        e = history_failure((kind, options, kw, other_kw, cand))
        if e is not None and e["i"] == len(cand) - 1:
            steps, ev2 = cand, e
        else:
            j += 1
    return (kind, options, kw, other_kw, steps), ev2


def describe_history(scenario, ev) -> str:
    kind, options, kw, other_kw, steps = scenario
    calls = [FH.call_label(s) + repr(tuple(s[1:])) for s in steps[: ev["i"] + (0 if ev["kind"] == "read" else 1)]
             if s[0] != "read"]
    reads = sum(1 for s in steps[: ev["i"]] if s[0] == "read")
    opt = "" if tuple(options) == (True, False) else f" [constructed under {FH.option_name(options)}]"
    return (f"{kind}(**{kw!a}){opt}: after the public calls {', '.join(calls) if calls else '(none)'}"
            + (f" and {reads} earlier reading(s)" if reads else "") + f" on the same object, word {ev.get('word', '')!a}: "
            + "; ".join(ev["wrong"]))


@guarded
def history_one(ctx: Ctx, scenario, shape: str, closed, origin: str):
    kind, options, kw, other_kw, steps = scenario
    is_nfa = kind == "NFA"
    res = exec_history(scenario)
    rp = dict(op="history", kind=kind, scenario=repr(scenario))
    ctx.stat("history:programs")
    ctx.stat(f"history:{kind.lower()}_{shape}")
    if tuple(options) != (True, False):
        ctx.stat("history:constructed_under_" + FH.option_name(options))
    if res["build_error"] is not None:
        ctx.case(None)
        ctx.prop_fail(f"{kind}(**{kw!a}): constructing this valid definition under [{FH.option_name(options)}] raised "
                      f"{res['build_error']}", rp, None)
        return
    kwrepr = repr(kw)
    failed = None
    for ev in res["events"]:
        if ev["kind"] == "call":
            ctx.stat("history:call_" + ev["label"])
            if ev["outcome"] != "ok":
                ctx.stat("history:call_raised_" + str(ev["exn"]))
        else:
            w = ev["word"]
            if closed is not None and (w in closed) != ev["racc"]:
                raise AssertionError(f"the two oracles disagree on {w!a}: finite language {closed}, textbook run {ev['racc']}")
            ctx.case(("H", kind, kwrepr, repr(steps[: ev["i"] + 1])) if w and len(kw["states"]) >= 2 else None)
            ctx.stat(origin)
            ctx.stat("history:reading_" + ("accepted" if ev["racc"] else "rejected"))
            ctx.stat("history:reading_after_%s_other_calls" % ("0" if ev["after_calls"] == 0 else "1-3" if ev["after_calls"] <= 3
                                                             else "4-8" if ev["after_calls"] <= 8 else "9+"))
            if any(c not in kw["input_symbols"] for c in w):
                ctx.stat("history:word_with_foreign_symbol")
            if ev["missing"]:
                ctx.stat("history:dfa_run_hits_missing_transition")
        if ev["wrong"] and failed is None:
            failed = ev
    if failed is not None:
        ctx.stat("history:FAIL")
        small = shrink_history(scenario, failed) if ctx.n_prop_fails < 6 else None
        if small is not None:
            sc, ev = small
            ctx.prop_fail(describe_history(sc, ev), dict(rp, scenario=repr(sc), confirmed_on_fresh_object=True), None)
        else:
            ctx.prop_fail(describe_history(scenario, failed)
                          + ("" if ctx.n_prop_fails >= 6 else " (seen once; a fresh object running the same program did not "
                             "show it: the failure depends on more than this program)"), rp, None)
        return
    # the model on the same kept-alive object, after the whole program
    reads = [s[1] for s in steps if s[0] == "read"]
    if reads:
        check_one(ctx, res["m"], reads[-1], is_nfa, origin + ":model_after_program", enc3=res["enc3"], defn=res["defn"],
                  extra=("after a program of other public calls on the same object: ", rp))


def history_family(ctx: Ctx, count: int):
    """(B) of round 6: programs on one kept-alive object that interleave the four reading APIs with the other public
    methods of the class; every reading is judged against the definition captured at construction."""
    for _ in range(count):
        scenario, shape, closed = FH.rand_history(ctx.rng)
        history_one(ctx, scenario, shape, closed, "interleaved_public_calls")


# ------------------------------------------------------------------ big cases (oracle only)
def big_chain_nfa(n: int, cycle: bool):
    """0 -ε-> 1 -ε-> … -ε-> n-1 (-ε-> 0 if cycle); even states loop on 'a'; n-1 reads 'b' into 0; F = {n-1}."""
    trans = {k: {"": {k + 1}} for k in range(n - 1)}
    trans[n - 1] = {"": {0}} if cycle else {}
    for k in range(0, n, 2):
        trans[k]["a"] = {k}
    trans[n - 1]["b"] = {0}
    return NFA(states=set(range(n)), input_symbols={"a", "b"}, transitions=trans, initial_state=0,
               final_states={n - 1})


def big_tower_nfa(n: int):
    """The shape n successive unions build: ("top",k) -ε-> ("leaf",k), ("top",k+1); ("leaf",k) -sym-> ("acc",k)."""
    trans, finals = {}, set()
    for k in range(n):
        leaf, acc = ("leaf", k), ("acc", k)
        trans[("top", k)] = {"": {leaf} | ({("top", k + 1)} if k + 1 < n else set())}
        trans[leaf] = {"ab"[k % 2]: {acc}}
        trans[acc] = {}
        finals.add(acc)
    return NFA(states=set(trans), input_symbols={"a", "b"}, transitions=trans, initial_state=("top", 0),
               final_states=finals)


def big_counter_dfa(n: int, partial: bool):
    """a-counter modulo n (b resets to 0; with `partial`, state n-1 has no 'a'); F = {n-1}."""
    trans = {k: {"a": (k + 1) % n, "b": 0} for k in range(n)}
    if partial:
        del trans[n - 1]["a"]
    return DFA(states=set(range(n)), input_symbols={"a", "b"}, transitions=trans, initial_state=0,
               final_states={n - 1}, allow_partial=partial)


def check_big(ctx: Ctx, name: str, build, words, is_nfa: bool):
    """Oracle only (the list-based model would take minutes on 1500 states): the real reader against the
    independent textbook interpreter of this file.  Any exception other than RejectionException — a
    RecursionError from a recursive closure included — is a crash, i.e. a property failure."""
    ctx.stat("big_case")
    ctx.stat("big_" + name)
    replay = dict(op="big", kind="NFA" if is_nfa else "DFA", name=name)
    try:
        m = build()
    except BaseException as e:  # noqa: BLE001
        ctx.case(None)
        ctx.prop_fail(f"big case {name}: constructing a valid definition raised {type(e).__name__}", replay, None)
        return
    for w in words:
        ctx.case(("big", name, w))
        rtr, racc = (ref_nfa if is_nfa else ref_dfa)(m, w)
        want_read = ("ok", rtr[-1]) if racc else ("err", "RejectionException")
        obs = {}
        for key, f in (("read", lambda: m.read_input(w)), ("acc", lambda: m.accepts_input(w)),
                       ("isin", lambda: w in m), ("trace", lambda: list(m.read_input_stepwise(w)))):
            try:
                obs[key] = ("ok", f())
            except BaseException as e:  # noqa: BLE001 - RecursionError / MemoryError are crashes of the reader
                if isinstance(e, KeyboardInterrupt):
                    raise
                obs[key] = ("err", type(e).__name__)
        wrong = []
        if obs["read"] != want_read:
            wrong.append(f"read_input gave {obs['read'][0]} {obs['read'][1] if obs['read'][0] == 'err' else '…'}, "
                         f"expected {want_read[0]} {want_read[1] if want_read[0] == 'err' else 'the final configuration'}")
        if obs["acc"] != ("ok", racc):
            wrong.append(f"accepts_input gave {obs['acc']}, the textbook verdict is {racc}")
        if obs["isin"] != ("ok", racc):
            wrong.append(f"`in` gave {obs['isin']}, the textbook verdict is {racc}")
        want_trace = ("ok", rtr) if racc else ("err", "RejectionException")
        if obs["trace"] != want_trace:
            wrong.append("read_input_stepwise: " + (f"raised {obs['trace'][1]}" if obs["trace"][0] == "err"
                                                    else "configurations differ from the textbook run"))
        if wrong:
            ctx.prop_fail(f"big case {name} ({len(m.states)} states) reading {w!r}: " + "; ".join(wrong),
                          dict(replay, word=w), None)
            return


BIG = {
    "eps_chain_1500": (lambda: big_chain_nfa(1500, False), True),
    "eps_cycle_1500": (lambda: big_chain_nfa(1500, True), True),
    "union_tower_1200": (lambda: big_tower_nfa(1200), True),
    "counter_dfa_1500": (lambda: big_counter_dfa(1500, False), False),
    "counter_dfa_1500_partial": (lambda: big_counter_dfa(1500, True), False),
}
BIG_WORDS = ["", "a", "b", "ab", "ba", "aab", "c", "bb"]


def run_big(ctx: Ctx):
    for name, (build, is_nfa) in BIG.items():
        words = list(BIG_WORDS)
        if not is_nfa:
            words += ["a" * 1499, "a" * 1500, "a" * 1499 + "b" + "a" * 1499, "a" * 700 + "#" + "a" * 799]
        check_big(ctx, name, build, words, is_nfa)


def words_for(m, max_len):
    sy = sorted(m.input_symbols)
    f = gen.foreign_symbol(sy)
    return gen.words_upto(sy + [f], max_len)


def run(ctx: Ctx):
    rng = ctx.rng
    thorough = ctx.thorough()
    # 0. corpus / special families
    none_state_corpus(ctx)
    empty_alphabet_family(ctx)
    run_big(ctx)
    for _ in range(ctx.budget(400, 15000)):
        n = junk_row_nfa(rng)
        sy = sorted(n.input_symbols)
        for _ in range(3):
            check_one(ctx, n, gen.rand_word(rng, sy, 8, gen.foreign_symbol(sy)), True, "random_nfa_junk_rows")
    for _ in range(ctx.budget(200, 8000)):
        d = gen.rand_dfa(rng, 6, junk_rows=True)
        sy = sorted(d.input_symbols)
        for _ in range(3):
            check_one(ctx, d, gen.rand_word(rng, sy, 8, gen.foreign_symbol(sy)), False, "random_dfa_junk_rows")
    # 1. bounded-exhaustive
    wl = 4 if thorough else 3
    for n_states, alpha in ((1, ("a", "b")), (2, ("a", "b"))):
        for d in gen.all_dfas(n_states, alpha):
            for w in words_for(d, wl):
                check_one(ctx, d, w, False, "exhaustive_dfa")
    ctx.exhaustive(f"all DFAs (complete and partial, all final sets) with ≤2 states over {{a,b}} × all words of length ≤{wl} over {{a,b,#}}")
    nfa_domains = [(1, ("a", "b")), (2, ("a",))] + ([(2, ("a", "b"))] if thorough else [])
    for n_states, alpha in nfa_domains:
        for n in gen.all_nfas(n_states, alpha):
            if n_states == 2 and len(alpha) == 2:
                ws = list(words_for(n, 3))
            else:
                ws = list(words_for(n, wl))
            for w in ws:
                check_one(ctx, n, w, True, "exhaustive_nfa")
    ctx.exhaustive("all NFAs with ε: 1 state over {a,b}, 2 states over {a}"
                   + (", 2 states over {a,b} (words ≤3)" if thorough else "") + f" × all words of length ≤{wl} incl. foreign symbol")
    # 2. shaped random
    for _ in range(ctx.budget(1500, 60000)):
        d = gen.rand_dfa(rng, 7)
        sy = sorted(d.input_symbols)
        for _ in range(3):
            check_one(ctx, d, gen.rand_word(rng, sy, 10, gen.foreign_symbol(sy)), False, "random_dfa")
    for _ in range(ctx.budget(1500, 60000)):
        n = gen.rand_nfa(rng, 6)
        sy = sorted(n.input_symbols)
        for _ in range(3):
            check_one(ctx, n, gen.rand_word(rng, sy, 8, gen.foreign_symbol(sy)), True, "random_nfa")
    # the same readers under allow_mutable_automata=True: plain dict/set containers, several reads
    # on ONE instance, always compared with the definition as it was when the automaton was built
    import automata.base.config as global_config
    for _ in range(ctx.budget(500, 15000)):
        global_config.allow_mutable_automata = True
        try:
            if rng.random() < 0.6:
                n0 = gen.rand_nfa(rng, 6)
                m = NFA(states=set(n0.states), input_symbols=set(n0.input_symbols),
                        transitions={k: {a: set(ts) for a, ts in row.items()} for k, row in n0.transitions.items()},
                        initial_state=n0.initial_state, final_states=set(n0.final_states))
                enc3, is_nfa = enc_nfa(m), True
            else:
                d0 = gen.rand_dfa(rng, 6)
                m = DFA(states=set(d0.states), input_symbols=set(d0.input_symbols),
                        transitions={k: dict(row) for k, row in d0.transitions.items()},
                        initial_state=d0.initial_state, final_states=set(d0.final_states),
                        allow_partial=d0.allow_partial)
                enc3, is_nfa = enc_dfa(m), False
            sy = sorted(m.input_symbols)
            for _ in range(4):
                check_one(ctx, m, gen.rand_word(rng, sy, 8, gen.foreign_symbol(sy)), is_nfa,
                          "random_mutable_option_sequence", enc3=enc3)
        finally:
            global_config.allow_mutable_automata = False
    # round 4 (after the older families: their case streams are unchanged)
    reuse_family(ctx, ctx.budget(250, 6000))
    target_collection_family(ctx, ctx.budget(300, 6000))
    # round 5 (again after the older families)
    special_symbol_family(ctx, ctx.budget(400, 12000))
    # round 6 (again after the older families)
    options_family(ctx, ctx.budget(220, 6000))
    history_family(ctx, ctx.budget(500, 12000))


def replay(ctx: Ctx, path: str) -> int:
    data = json.load(open(path))
    rp = data.get("replay", data)
    env = {"DFA": DFA, "NFA": NFA, "frozenset": frozenset}
    if rp.get("op") == "none_state":
        none_state_corpus(ctx)
    elif rp.get("op") == "reuse":
        run_scenario(ctx, eval(rp["scenario"], env), "replay")  # repr() of a scenario of harness/fa_reuse.py
    elif rp.get("op") == "special":
        kw = eval(rp["kw"], {"frozenset": frozenset})  # repr() of plain constructor arguments (harness/fa_special.py)
        mutable = bool(rp.get("mutable", False))
        check_special(ctx, build_special(rp["kind"], kw, mutable), rp["kind"], kw, rp["word"], "replay",
                      rp.get("lang", "?"), mutable=mutable)
    elif rp.get("op") == "options":
        kw = eval(rp["kw"], {"frozenset": frozenset})  # repr() of plain constructor arguments (harness/fa_history.py)
        b_opt, r_opt = tuple(rp["build"]), tuple(rp["read"])
        try:
            built = build_under(rp["kind"], kw, b_opt)
        except Exception as e:  # noqa: BLE001
            built = None
            ctx.prop_fail(f"{rp['kind']}(**{kw!a}): constructing this valid definition under [{FH.option_name(b_opt)}] "
                          f"raised {type(e).__name__}", rp, None)
        if built is not None:
            check_options(ctx, built, rp["kind"], kw, rp["word"], b_opt, r_opt, "replay", rp.get("shape", "?"),
                          with_model=True)
    elif rp.get("op") == "history":
        history_one(ctx, eval(rp["scenario"], {"frozenset": frozenset}), "replay", None, "replay")
    elif rp.get("op") == "big":
        build, is_nfa = BIG[rp["name"]]
        check_big(ctx, rp["name"], build, [rp["word"]] if "word" in rp else BIG_WORDS, is_nfa)
    else:
        m = eval(rp["automaton"], env)  # repr() of the automaton, produced by this harness
        check_one(ctx, m, rp["word"], rp["kind"] == "NFA", "replay")
    if ctx.prop_fails:
        print(f"VIOLATION property=C01 replay={path}")
        print("  " + ctx.prop_fails[0]["what"])
        return 1
    print("replay: property holds on this input now")
    return 0
