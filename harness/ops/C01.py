"""C01 — finite-automaton acceptance follows the formal definition.

Correspondence: DFA_READ / NFA_READ — full stepwise trace, terminating exception,
read_input result, accepts_input, `in` on str and non-str — real code vs. the Lean
model whose acceptance is proved equal to Mathlib's DFA.accepts / εNFA.accepts
(Props/C01.lean).  A difference on a valid automaton is cross-checked against a
20-line textbook interpreter written here; if the real code also differs from that,
it is a property failure with the (automaton, word) as replay.
"""
from __future__ import annotations

import itertools
import json

from automata.base.exceptions import RejectionException
from automata.fa.dfa import DFA
from automata.fa.nfa import NFA

from harness import gen
from harness.common import (guarded, Ctx, Names, Toks, call, enc_dfa, enc_nfa, enc_word, exc_name, sym_names,
                            toks)

LEVEL = "proof"
RULE = ("cases = (valid DFA or NFA, word); bounded-exhaustive small automata × all short words over "
        "alphabet ∪ {foreign symbol}, then shaped random automata (≤7 states, adversarial name pools) × "
        "random words; a case is non-trivial when the word is non-empty and the automaton has ≥2 states; "
        "distinct = distinct (definition, word) pairs")
ASSUMPTIONS = [
    "state names are hashable values none of which is literally None; symbols are single characters",
    "Python set/dict semantics are modelled (lists / association lists); iteration order is not relied on",
]
EXPLANATION = ("Theorems C01_* tie the model's reader to Mathlib's DFA/εNFA acceptance for every valid "
               "automaton and every word; this run ties the model to the code by differential execution.")


def impl_observe(m, w, nonstr=5):
    tr, exn = [], None
    try:
        for c in m.read_input_stepwise(w):
            tr.append(c)
    except Exception as e:  # noqa: BLE001
        exn = exc_name(e)
    return dict(trace=tr, exn=exn, read=call(lambda: m.read_input(w)), acc=call(lambda: m.accepts_input(w)),
                isin=call(lambda: w in m), isin_nonstr=call(lambda: nonstr in m))


def ref_dfa(d: DFA, w: str):
    """Textbook run straight from the transition table (None = no transition)."""
    cur = d.initial_state
    tr = [cur]
    for c in w:
        cur = d.transitions[cur].get(c) if cur is not None else None
        tr.append(cur)
    return tr, (cur is not None and cur in d.final_states)


def ref_nfa(n: NFA, w: str):
    def closure(S):
        S = set(S)
        work = list(S)
        while work:
            q = work.pop()
            for t in n.transitions.get(q, {}).get("", ()):
                if t not in S:
                    S.add(t)
                    work.append(t)
        return frozenset(S)
    cur = closure({n.initial_state})
    tr = [cur]
    for c in w:
        nxt = set()
        for q in cur:
            nxt |= set(n.transitions.get(q, {}).get(c, ()))
        cur = closure(nxt)
        tr.append(cur)
    return tr, bool(cur & n.final_states)


def parse_model(line: str, is_nfa: bool):
    t = Toks(line)
    t.expect("trace")
    tr = t.many(t.ints if is_nfa else t.optint)
    t.expect("exn")
    exn = t.next()
    t.expect("read")
    read = t.res(t.ints if is_nfa else t.optint)
    t.expect("acc")
    acc = t.res(t.int)
    t.expect("in")
    isin = t.res(t.int)
    t.expect("in_nonstr")
    isin2 = t.res(t.int)
    t.expect("valid")
    valid = t.res(lambda: None)
    return dict(trace=tr, exn=None if exn == "-" else exn, read=read, acc=acc, isin=isin,
                isin_nonstr=isin2, valid=valid)


@guarded
def check_one(ctx: Ctx, m, w: str, is_nfa: bool, origin: str, enc3=None):
    """enc3: encoding taken when the automaton was built (used for sequences of reads on one
    instance under the mutable-automata option: the definition must not drift)."""
    drv = ctx.driver("drv_fa_core")
    if enc3 is not None:
        enc, st, sy = enc3
    elif is_nfa:
        enc, st, sy = enc_nfa(m)
    else:
        enc, st, sy = enc_dfa(m)
    obs = impl_observe(m, w)
    line = drv.ask(toks("NFA_READ" if is_nfa else "DFA_READ", enc, enc_word(sy, w)))
    mod = parse_model(line, is_nfa)

    def cfg(c):
        if is_nfa:
            return sorted(st(q) for q in c)
        return None if c is None else st(c)

    def res(r, f):
        return (r[0], f(r[1])) if r[0] == "ok" else r

    impl = dict(trace=[cfg(c) for c in obs["trace"]], exn=obs["exn"], read=res(obs["read"], cfg),
                acc=res(obs["acc"], int), isin=res(obs["isin"], int), isin_nonstr=res(obs["isin_nonstr"], int),
                valid=("ok", None))
    nontrivial = len(w) >= 1 and len(m.states) >= 2
    ctx.case((("N" if is_nfa else "D"), enc, w) if nontrivial else None)
    ctx.stat(origin)
    ctx.stat("nfa" if is_nfa else "dfa")
    ctx.stat("accepted" if obs["acc"] == ("ok", True) else "rejected")
    if any(c not in m.input_symbols for c in w):
        ctx.stat("word_with_foreign_symbol")
    if not is_nfa and any(c is None for c in obs["trace"]):
        ctx.stat("dfa_run_hits_missing_transition")
    if ctx.evaluations % 997 == 1:
        ctx.sample(dict(automaton=repr(m), word=w, trace=[repr(c) for c in obs["trace"]],
                        accepts=obs["acc"], model_line=line))
    if impl != mod:
        case = dict(automaton=repr(m), word=w, kind="NFA" if is_nfa else "DFA")
        # is the *real code* wrong w.r.t. the textbook definition?
        rtr, racc = (ref_nfa if is_nfa else ref_dfa)(m, w)
        textbook = dict(trace=[cfg(c) for c in rtr], acc=("ok", int(racc)))
        wrong = []
        if impl["trace"] != textbook["trace"]:
            wrong.append("stepwise configurations differ from the textbook run")
        if impl["acc"] != textbook["acc"]:
            wrong.append("accepts_input differs from the textbook verdict")
        if impl["isin"] != textbook["acc"]:
            wrong.append("`in` differs from the textbook verdict")
        if impl["isin_nonstr"] != ("ok", 0):
            wrong.append("non-str item reported as member")
        if racc and impl["read"] != ("ok", textbook["trace"][-1]):
            wrong.append("read_input does not return the final configuration")
        if not racc and impl["read"] != ("err", "RejectionException"):
            wrong.append("rejection not signalled by RejectionException")
        if impl["exn"] not in (None, "RejectionException"):
            wrong.append(f"crash {impl['exn']}")
        if wrong:
            ctx.prop_fail(f"{case['kind']} reading {w!r}: " + "; ".join(wrong),
                          dict(case, impl=impl, textbook=textbook), None)
        else:
            ctx.corr_diff("NFA_READ" if is_nfa else "DFA_READ", case, impl, mod)


def words_for(m, max_len):
    sy = sorted(m.input_symbols)
    f = gen.foreign_symbol(sy)
    return gen.words_upto(sy + [f], max_len)


def run(ctx: Ctx):
    rng = ctx.rng
    thorough = ctx.thorough()
    # 1. bounded-exhaustive
    wl = 4 if thorough else 3
    for n_states, alpha in ((1, ("a", "b")), (2, ("a", "b"))):
        for d in gen.all_dfas(n_states, alpha):
            for w in words_for(d, wl):
                check_one(ctx, d, w, False, "exhaustive_dfa")
    ctx.exhaustive(f"all DFAs (complete and partial, all final sets) with ≤2 states over {{a,b}} × all words of length ≤{wl} over {{a,b,#}}")
    nfa_domains = [(1, ("a", "b")), (2, ("a",))] + ([(2, ("a", "b"))] if thorough else [])
    for n_states, alpha in nfa_domains:
        for n in gen.all_nfas(n_states, alpha):
            if n_states == 2 and len(alpha) == 2:
                ws = list(words_for(n, 3))
            else:
                ws = list(words_for(n, wl))
            for w in ws:
                check_one(ctx, n, w, True, "exhaustive_nfa")
    ctx.exhaustive("all NFAs with ε: 1 state over {a,b}, 2 states over {a}"
                   + (", 2 states over {a,b} (words ≤3)" if thorough else "") + f" × all words of length ≤{wl} incl. foreign symbol")
    # 2. shaped random
    for _ in range(ctx.budget(1500, 60000)):
        d = gen.rand_dfa(rng, 7)
        sy = sorted(d.input_symbols)
        for _ in range(3):
            check_one(ctx, d, gen.rand_word(rng, sy, 10, gen.foreign_symbol(sy)), False, "random_dfa")
    for _ in range(ctx.budget(1500, 60000)):
        n = gen.rand_nfa(rng, 6)
        sy = sorted(n.input_symbols)
        for _ in range(3):
            check_one(ctx, n, gen.rand_word(rng, sy, 8, gen.foreign_symbol(sy)), True, "random_nfa")
    # the same readers under allow_mutable_automata=True: plain dict/set containers, several reads
    # on ONE instance, always compared with the definition as it was when the automaton was built
    import automata.base.config as global_config
    for _ in range(ctx.budget(500, 15000)):
        global_config.allow_mutable_automata = True
        try:
            if rng.random() < 0.6:
                n0 = gen.rand_nfa(rng, 6)
                m = NFA(states=set(n0.states), input_symbols=set(n0.input_symbols),
                        transitions={k: {a: set(ts) for a, ts in row.items()} for k, row in n0.transitions.items()},
                        initial_state=n0.initial_state, final_states=set(n0.final_states))
                enc3, is_nfa = enc_nfa(m), True
            else:
                d0 = gen.rand_dfa(rng, 6)
                m = DFA(states=set(d0.states), input_symbols=set(d0.input_symbols),
                        transitions={k: dict(row) for k, row in d0.transitions.items()},
                        initial_state=d0.initial_state, final_states=set(d0.final_states),
                        allow_partial=d0.allow_partial)
                enc3, is_nfa = enc_dfa(m), False
            sy = sorted(m.input_symbols)
            for _ in range(4):
                check_one(ctx, m, gen.rand_word(rng, sy, 8, gen.foreign_symbol(sy)), is_nfa,
                          "random_mutable_option_sequence", enc3=enc3)
        finally:
            global_config.allow_mutable_automata = False


def replay(ctx: Ctx, path: str) -> int:
    data = json.load(open(path))
    rp = data.get("replay", data)
    env = {"DFA": DFA, "NFA": NFA, "frozenset": frozenset}
    m = eval(rp["automaton"], env)  # repr() of the automaton, produced by this harness
    check_one(ctx, m, rp["word"], rp["kind"] == "NFA", "replay")
    if ctx.prop_fails:
        print(f"VIOLATION property=C01 replay={path}")
        print("  " + ctx.prop_fails[0]["what"])
        return 1
    print("replay: property holds on this input now")
    return 0
