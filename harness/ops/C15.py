"""C15 — language constructors build exactly the specified language, minimal if promised.

Correspondence: one driver command per constructor (drv_dfa_ctor, model in
lean/AutomataVerif/Model/DfaCtor.lean); the DFA returned by the real constructor is compared
with the model's EXACTLY (state names are the ints the code fixes) or, for
`from_finite_language` (names are prefixes), up to isomorphism (`dfa_canon`); exceptions by
class name.

Oracle on the real code (shares nothing with the model): the defining predicate is evaluated
by brute force on all words up to a length bound over Σ plus words carrying a foreign symbol,
and compared with the real `accepts_input`; minimality, where the docstring promises it and
the input satisfies the hypotheses of the Lean minimality theorems (`minimality_in_domain`, one
line per theorem), by an independent Myhill–Nerode count (Moore partition refinement over the
real object's dicts, `nerode_size`) compared with `len(states)`.  Inputs on which the Lean error
theorems say the constructor raises (`expected_error`) must raise that exception.

Programs sharing argument objects (`shared_argument_programs`, generator and pure semantics in
harness/c15_programs.py): 2–4 constructor calls over ONE live object per argument name; the same oracle
judges every result against the values the caller wrote, every argument object is compared before and
after every call, failures are re-confirmed on fresh objects, shortened to the fewest steps and reported
with the program as the replay.
"""
from __future__ import annotations

import itertools
import json
from typing import Any, Dict, List, Optional, Tuple

from automata.base.exceptions import AutomatonException
from automata.fa.dfa import DFA

from harness.common import Ctx, InfraError, Names, Toks, dfa_canon, nfa_iso, toks

LEVEL = "proof"
DRV = "drv_dfa_ctor"
RULE = ("a case = (constructor, alphabet, pattern / pattern set in live iteration order / numeric "
        "parameters, flags); corpus of past defects and mutant killers, then bounded-exhaustive "
        "(all patterns ≤4 over {a,b} and ≤3 over {a,b,c}, all pattern sets of ≤3 patterns of "
        "length ≤3 over {a,b}, all flags, numeric parameters ≤5, all finite languages of words "
        "≤2 over {a,b}, all pairs of patterns of length 2…4 in both insertion orders, all patterns ≤3 "
        "with a symbol outside the alphabet, every constructor over the empty alphabet, negative "
        "min_length / max_length), then shaped random (periodic / self-overlapping patterns of every border "
        "length, sets where one pattern is a prefix/suffix/infix of another, patterns with symbols "
        "outside the alphabet, 1–4 symbol alphabets); programs of 2–4 constructor calls that SHARE ARGUMENT "
        "OBJECTS (one mutable set passed as input_symbols / symbols_to_count / remainders / substrings / language "
        "to several calls of the same or different constructors under different alphabets, also as two parameters "
        "of one call, also edited by the caller between calls; set, frozenset and dict-keys-view objects): five "
        "fully enumerated sub-domains of 2-call programs + random programs, every result judged against the "
        "argument values as the caller wrote them (snapshot at program start + the caller's own edits), every "
        "argument object compared before/after every call, earlier results re-judged at the end of the program, "
        "and a program in which a call changed an argument in place continued with calls in which that object's "
        "value decides the language; every case: real DFA = model DFA, and the "
        "real DFA's verdict = brute-force predicate on all words up to the bound (+ foreign "
        "symbol), and |states| = Myhill–Nerode index where minimality is promised; non-trivial = "
        "the constructor returned a DFA with ≥2 states; distinct = distinct (constructor, "
        "arguments)")
ASSUMPTIONS = [
    "symbols are single characters; alphabets are Python sets (no repeated symbol)",
    "lengths / positions are ints; of_length: every (min_length, max_length, symbols_to_count) is in the "
    "domain — the one class on which the constructor raises (negative min_length with a max_length ≥ 0 "
    "and a counted symbol in Σ: InvalidStateError) is stated as theorem C15_of_length_negative_min and "
    "checked as an announced error",
    "count_mod remainders ⊆ range(k) (others raise InvalidStateError: theorem C15_count_mod_bad_remainder, "
    "checked as an announced error); a pattern / word symbol outside Σ makes from_prefix, from_subsequence, "
    "from_finite_language raise a library exception (theorems C15_*_foreign, checked as announced errors); "
    "from_substring / from_suffix / from_substrings accept such patterns (language theorems without hypothesis)",
    "set-valued arguments are what the signatures admit (collections.abc.Set): set, frozenset, dict keys view; a "
    "constructor must leave them as they are and its result must not depend on what happens to them later. One "
    "behaviour of the unchanged library is recorded (stat shared:failure_only_with_live_dict_keys_view_argument + "
    "evidence notes) instead of reported: an argument that is a dict keys view is stored in the DFA by reference "
    "(freeze_value copies only set/list/dict), so the caller's later edit of the dict shows through the DFA's "
    "input_symbols / final_states; with a plain set the same program is right",
    "minimality is claimed only for non-empty patterns over the alphabet, |Σ| ≥ 2, as the property "
    "states; of_length: for ALL numeric parameters and alphabets (C15_of_length_minimal has no hypothesis)",
]
EXPLANATION = ("Theorems C15_* state, for every alphabet / pattern / parameter, that the model's constructor "
               "returns a valid DFA accepting exactly the words over Σ that satisfy the predicate (or its "
               "complement), with all states reachable and pairwise distinguishable where minimality is "
               "promised; this run ties the model to the code by differential execution and evaluates the "
               "property on the real objects with an independent brute-force oracle — for single calls on fresh "
               "arguments and for short programs of calls that share mutable argument objects (a constructor that "
               "changes or keeps a caller's argument is right on every fresh literal and wrong for such a caller).")

MINIMAL_PROMISED = {"from_prefix", "from_suffix", "from_substring", "from_subsequence", "of_length",
                    "universal_language", "empty_language", "nth_from_start", "nth_from_end",
                    "from_finite_language"}


# ------------------------------------------------------------------ helpers
def words_upto(alpha: str, n: int):
    for k in range(n + 1):
        for t in itertools.product(alpha, repeat=k):
            yield "".join(t)


def foreign_for(chars) -> str:
    for c in "#@%&":
        if c not in chars:
            return c
    return "☃"


def case_chars(case: dict) -> List[str]:
    cs = set(case["syms"])
    for k in ("pattern", "symbol", "count"):
        v = case.get(k)
        if v:
            cs |= set(v)
    for k in ("patterns", "language"):
        for p in case.get(k) or []:
            cs |= set(p)
    return sorted(cs)


def borders(p: str) -> List[int]:
    return [k for k in range(1, len(p)) if p[:k] == p[-k:]]


def is_subseq(p: str, w: str) -> bool:
    it = iter(w)
    return all(c in it for c in p)


# ------------------------------------------------------------------ the real call
def make_set(items: List[str], ordered: bool):
    """A Python set (live iteration order) or, for replays / permutation tests, a dict keys
    view (a `collections.abc.Set` iterating in the given order)."""
    if ordered:
        return dict.fromkeys(items).keys()
    return set(items)


def real_call(case: dict, objs: Optional[Dict[str, Any]] = None):
    """Returns (("ok", dfa) | ("err", class name, is_library_exception), info) where info holds the
    live iteration orders that were used.  `objs` (shared-argument programs): the caller's own objects
    for the set-valued parameters (`syms`, `count`, `remainders`, `patterns`, `language`), passed as they
    are instead of a fresh literal built from `case`."""
    c = case["ctor"]
    objs = objs or {}
    sy = objs["syms"] if "syms" in objs else set(case["syms"])
    info: Dict[str, Any] = {"syms_order": list(sy)}
    try:
        if c == "universal_language":
            d = DFA.universal_language(sy)
        elif c == "empty_language":
            d = DFA.empty_language(sy)
        elif c == "from_prefix":
            d = DFA.from_prefix(sy, case["pattern"], contains=case["contains"], as_partial=case["as_partial"])
        elif c == "from_suffix":
            d = DFA.from_suffix(sy, case["pattern"], contains=case["contains"])
        elif c == "from_substring":
            d = DFA.from_substring(sy, case["pattern"], contains=case["contains"],
                                   must_be_suffix=case["must_be_suffix"])
        elif c == "from_substrings":
            S = objs["patterns"] if "patterns" in objs else make_set(case["patterns"], case.get("ordered", False))
            info["patterns_order"] = list(S)
            d = DFA.from_substrings(sy, S, contains=case["contains"], must_be_suffix=case["must_be_suffix"])
        elif c == "from_subsequence":
            d = DFA.from_subsequence(sy, case["pattern"], contains=case["contains"])
        elif c == "of_length":
            kw = {}
            if case.get("count") is not None:
                kw["symbols_to_count"] = objs["count"] if "count" in objs else set(case["count"])
            d = DFA.of_length(sy, min_length=case["min"], max_length=case["max"], **kw)
        elif c == "count_mod":
            kw = {}
            if case.get("count") is not None:
                kw["symbols_to_count"] = objs["count"] if "count" in objs else set(case["count"])
            if case.get("remainders") is not None:
                kw["remainders"] = objs["remainders"] if "remainders" in objs else set(case["remainders"])
            d = DFA.count_mod(sy, case["k"], **kw)
        elif c == "nth_from_start":
            d = DFA.nth_from_start(sy, case["symbol"], case["n"])
        elif c == "nth_from_end":
            d = DFA.nth_from_end(sy, case["symbol"], case["n"])
        elif c == "from_finite_language":
            L = objs["language"] if "language" in objs else make_set(case["language"], case.get("ordered", False))
            info["language_order"] = list(L)
            d = DFA.from_finite_language(sy, L, as_partial=case["as_partial"])
        else:
            raise InfraError(f"unknown constructor {c}")
        return ("ok", d), info
    except InfraError:
        raise
    except RecursionError:
        raise
    except Exception as e:  # noqa: BLE001 - every exception class is an observable
        return ("err", type(e).__name__, isinstance(e, AutomatonException)), info


# ------------------------------------------------------------------ the model call
def enc_w(rank: Dict[str, int], w) -> str:
    return toks(len(w), [rank[ch] for ch in w])


def enc_opt_w(rank, w) -> str:
    return "N" if w is None else enc_w(rank, sorted(set(w)))


def model_line(case: dict, info: dict, rank: Dict[str, int]) -> str:
    c = case["ctor"]
    sy = enc_w(rank, info["syms_order"])
    if c == "universal_language":
        return toks("UNIV", sy)
    if c == "empty_language":
        return toks("EMPTY", sy)
    if c == "from_prefix":
        return toks("PREFIX", sy, enc_w(rank, case["pattern"]), case["contains"], case["as_partial"])
    if c == "from_suffix":
        return toks("SUFFIX", sy, enc_w(rank, case["pattern"]), case["contains"])
    if c == "from_substring":
        return toks("SUBSTRING", sy, enc_w(rank, case["pattern"]), case["contains"], case["must_be_suffix"])
    if c == "from_substrings":
        ps = info["patterns_order"]
        return toks("SUBSTRINGS", sy, len(ps), [enc_w(rank, p) for p in ps], case["contains"],
                    case["must_be_suffix"])
    if c == "from_subsequence":
        return toks("SUBSEQ", sy, enc_w(rank, case["pattern"]), case["contains"])
    if c == "of_length":
        return toks("OFLEN", sy, case["min"], "N" if case["max"] is None else case["max"],
                    enc_opt_w(rank, case.get("count")))
    if c == "count_mod":
        r = case.get("remainders")
        return toks("COUNTMOD", sy, case["k"], "N" if r is None else toks(len(set(r)), sorted(set(r))),
                    enc_opt_w(rank, case.get("count")))
    if c == "nth_from_start":
        return toks("NTHSTART", sy, rank[case["symbol"]], case["n"])
    if c == "nth_from_end":
        return toks("NTHEND", sy, rank[case["symbol"]], case["n"])
    if c == "from_finite_language":
        L = info["language_order"]
        return toks("FINLANG", sy, len(L), [enc_w(rank, p) for p in L], case["as_partial"])
    raise InfraError(f"unknown constructor {c}")


def parse_model(line: str):
    """`ok DFA …` → ("ok", plain) (duplicate keys in the model's dicts are a model bug), `err C`."""
    t = Toks(line)
    k = t.next()
    if k == "err":
        return ("err", t.next())
    if k != "ok":
        raise InfraError(f"protocol: {line[:200]}")
    t.expect("DFA")
    states = t.ints()
    syms = t.ints()
    partial = bool(t.int())
    init = t.int()
    finals = t.ints()
    trans: Dict[int, Dict[int, int]] = {}
    for _ in range(t.int()):
        q = t.int()
        if q in trans:
            raise InfraError(f"model produced a duplicate row key {q}: {line[:200]}")
        row: Dict[int, int] = {}
        for _ in range(t.int()):
            a = t.int()
            if a in row:
                raise InfraError(f"model produced a duplicate symbol key {a}: {line[:200]}")
            row[a] = t.int()
        trans[q] = row
    return ("ok", dict(states=set(states), syms=set(syms), partial=partial, init=init,
                       finals=set(finals), trans=trans))


def real_plain(d: DFA, rank: Dict[str, int], st=None) -> dict:
    f = (lambda q: q) if st is None else st
    return dict(states={f(q) for q in d.states}, syms={rank[a] for a in d.input_symbols},
                partial=bool(d.allow_partial), init=f(d.initial_state),
                finals={f(q) for q in d.final_states},
                trans={f(q): {rank[a]: f(t) for a, t in row.items()} for q, row in d.transitions.items()})


# ------------------------------------------------------------------ the oracle
def predicate(case: dict):
    """(P, contains): P is the defining predicate on words (independent of any automaton)."""
    c = case["ctor"]
    if c == "universal_language":
        return (lambda w: True), True
    if c == "empty_language":
        return (lambda w: False), True
    if c == "from_prefix":
        p = case["pattern"]
        return (lambda w: w.startswith(p)), case["contains"]
    if c == "from_suffix":
        p = case["pattern"]
        return (lambda w: w.endswith(p)), case["contains"]
    if c == "from_substring":
        p = case["pattern"]
        if case["must_be_suffix"]:
            return (lambda w: w.endswith(p)), case["contains"]
        return (lambda w: p in w), case["contains"]
    if c == "from_substrings":
        ps = list(case["patterns"])
        if case["must_be_suffix"]:
            return (lambda w: any(w.endswith(p) for p in ps)), case["contains"]
        return (lambda w: any(p in w for p in ps)), case["contains"]
    if c == "from_subsequence":
        p = case["pattern"]
        return (lambda w: is_subseq(p, w)), case["contains"]
    if c == "of_length":
        cnt = set(case["syms"]) if case.get("count") is None else set(case["count"])
        mn, mx = case["min"], case["max"]
        return (lambda w: mn <= sum(ch in cnt for ch in w) and (mx is None or sum(ch in cnt for ch in w) <= mx)), True
    if c == "count_mod":
        cnt = set(case["syms"]) if case.get("count") is None else set(case["count"])
        k = case["k"]
        rem = {0} if case.get("remainders") is None else set(case["remainders"])
        return (lambda w: k > 0 and (sum(ch in cnt for ch in w) % k) in rem), True
    if c == "nth_from_start":
        s, n = case["symbol"], case["n"]
        return (lambda w: len(w) >= n >= 1 and w[n - 1] == s), True
    if c == "nth_from_end":
        s, n = case["symbol"], case["n"]
        return (lambda w: len(w) >= n >= 1 and w[len(w) - n] == s), True
    if c == "from_finite_language":
        L = set(case["language"])
        return (lambda w: w in L), True
    raise InfraError(c)


def expected_error(case: dict) -> Optional[str]:
    """The exception the documentation / validation layer announces for this input, if any
    (an input outside the constructor's documented domain); None = a DFA must be returned."""
    c = case["ctor"]
    sy = set(case["syms"])
    # a pattern symbol outside the alphabet ends up as a key of the transition table: the
    # validation layer rejects it (InvalidSymbolError, or MissingSymbolError when the foreign key
    # makes a row look complete) — any library exception is an announced rejection here
    if c in ("from_prefix", "from_subsequence") and not set(case["pattern"]) <= sy:
        return "LIB"
    if c == "from_finite_language" and not all(set(w) <= sy for w in case["language"]):
        return "LIB"
    if c == "count_mod":
        if case["k"] <= 0:
            return "ValueError"
        rem = {0} if case.get("remainders") is None else set(case["remainders"])
        if not rem <= set(range(case["k"])):
            return "InvalidStateError"
    if c in ("nth_from_start", "nth_from_end"):
        if case["n"] < 1:
            return "ValueError"
        if case["symbol"] not in sy:
            return "InvalidSymbolError"
    if c == "of_length":
        # C15_of_length_negative_min: the only raising inputs — a negative min_length with a
        # non-negative max_length and a counted symbol in Σ (final_states would contain negatives)
        cnt = sy if case.get("count") is None else set(case["count"])
        if case["max"] is not None and case["min"] < 0 <= case["max"] and (cnt & sy):
            return "InvalidStateError"
    return None


def minimality_in_domain(case: dict) -> bool:
    """Is this input inside the hypotheses of the Lean minimality theorems?  (They cover the
    property's claim 'where the documentation promises the minimal DFA … for non-empty patterns over
    alphabets of at least two symbols' and more: one-symbol and empty alphabets, empty patterns,
    all numeric parameters.)  One line per theorem:"""
    c = case["ctor"]
    if c not in MINIMAL_PROMISED:
        return False
    sy = set(case["syms"])
    if c in ("universal_language", "empty_language"):
        return True                                   # C15_universal, C15_empty: no hypothesis
    if c == "of_length":
        return True                                   # C15_of_length_minimal: no hypothesis (fix bcfb456)
    if c in ("from_suffix", "from_substring", "from_subsequence"):
        # C15_from_substring_minimal / C15_from_subsequence_minimal: pattern over Σ (the empty pattern
        # and one-symbol / empty alphabets included)
        return set(case["pattern"]) <= sy
    if c == "from_prefix":
        p = case["pattern"]
        if not set(p) <= sy:
            return False
        if case["as_partial"] and case["contains"]:
            return True                               # C15_from_prefix_minimal, partial form: pattern over Σ
        # complete form: p ≠ '' and a symbol of Σ different from p[0]
        return len(p) >= 1 and any(b != p[0] for b in sy)
    if c in ("nth_from_start", "nth_from_end"):
        # C15_nth_minimal_all: every alphabet containing the symbol (one-symbol delegation included)
        return case["n"] >= 1 and case["symbol"] in sy
    if c == "from_finite_language":
        # C15_from_finite_language_minimal: words over Σ; partial form of a non-empty language, or
        # (complete form / empty language) over a non-empty alphabet
        if not all(set(w) <= sy for w in case["language"]):
            return False
        if case["as_partial"] and len(case["language"]) > 0:
            return True
        return len(sy) >= 1
    return False


def nerode_size(d: DFA) -> int:
    """Number of states of the minimal DFA *of the same kind* (complete if `allow_partial` is
    False, partial otherwise) for L(d): Moore partition refinement on the reachable part of the
    table completed with a sink (None).  Written against the object's dicts only."""
    sy = sorted(d.input_symbols)
    tr = d.transitions
    step = lambda q, a: None if q is None else tr[q].get(a)  # noqa: E731
    reach = [d.initial_state]
    seen = {d.initial_state}
    for q in reach:
        for a in sy:
            t = step(q, a)
            if t not in seen:
                seen.add(t)
                reach.append(t)
    block = {q: (q is not None and q in d.final_states) for q in reach}
    while True:
        sig = {q: (block[q], tuple(block[step(q, a)] for a in sy)) for q in reach}
        ids: Dict[Any, int] = {}
        new = {q: ids.setdefault(sig[q], len(ids)) for q in reach}
        if len(set(new.values())) == len(set(block.values())):
            block = new
            break
        block = new
    classes = set(block.values())
    if not d.allow_partial:
        return len(classes)
    # partial kind: the dead class (no final state reachable) needs no state
    live = set()
    changed = True
    fin_blocks = {block[q] for q in reach if q is not None and q in d.final_states}
    live |= fin_blocks
    while changed:
        changed = False
        for q in reach:
            if block[q] not in live and any(block[step(q, a)] in live for a in sy):
                live.add(block[q])
                changed = True
    return max(1, len(live))


def oracle_words(case: dict, sy: List[str], fsym: str, bound: int, rng) -> List[str]:
    """All words over Σ up to `bound`, words with the foreign symbol spliced in, and — for long
    patterns — random words assembled from pieces of the patterns."""
    ws = list(words_upto("".join(sy), bound))
    out = list(ws)
    # foreign symbol at every position of the short words
    for w in ws:
        if len(w) <= 3:
            for i in range(len(w) + 1):
                out.append(w[:i] + fsym + w[i:])
    pats = []
    if case.get("pattern"):
        pats.append(case["pattern"])
    pats += [p for p in (case.get("patterns") or []) + (case.get("language") or []) if p]
    for p in pats:
        out.append(p)
        if sy:
            for _ in range(6):
                pre = "".join(rng.choice(sy) for _ in range(rng.randint(0, 4)))
                suf = "".join(rng.choice(sy) for _ in range(rng.randint(0, 3)))
                cut = rng.randint(0, len(p))
                out += [pre + p, pre + p + suf, p + suf, pre + p[:cut] + p, p[:cut] + suf, p[cut:] + p[:cut],
                        pre + p[:cut] + p + suf]
    n = case.get("n") or case.get("k") or case.get("max") or case.get("min") or 0
    if sy and isinstance(n, int) and n + 2 > bound:
        for _ in range(60):
            out.append("".join(rng.choice(sy) for _ in range(rng.randint(bound + 1, n + 3))))
    return out


def run_table(d: DFA, w: str):
    q = d.initial_state
    for ch in w:
        q = d.transitions[q].get(ch)
        if q is None:
            return False
    return q in d.final_states


def evaluate_property(ctx: Ctx, case: dict, res, bound: int) -> List[Tuple[str, Optional[str]]]:
    """Property failures of the *real* result for this case: list of (what, finding_key)."""
    c = case["ctor"]
    sy = sorted(set(case["syms"]))
    fails: List[Tuple[str, Optional[str]]] = []
    exp_err = expected_error(case)
    if res[0] == "err":
        name, is_lib = res[1], res[2]
        if exp_err is not None and (name == exp_err or (exp_err == "LIB" and is_lib)):
            return fails
        fails.append((f"{c} raises {name} on an input of its domain"
                      + (f" (announced: {exp_err})" if exp_err else ""), None))
        return fails
    d: DFA = res[1]
    if exp_err in ("ValueError",):
        fails.append((f"{c} returned a DFA where the documentation announces {exp_err}", None))
        return fails
    # (1) the result is a valid DFA
    try:
        d.validate()
    except Exception as e:  # noqa: BLE001
        fails.append((f"{c}: result does not validate ({type(e).__name__})", None))
        return fails
    if exp_err is not None:
        return fails  # out-of-domain input that happened to produce a DFA: no language claim
    # (2) language = predicate (or its complement) on words over Σ; nothing else accepted
    P, contains = predicate(case)
    fsym = foreign_for(case_chars(case))
    sys_set = set(sy)
    bad = None
    n_words = 0
    for w in oracle_words(case, sy, fsym, bound, ctx.rng):
        n_words += 1
        want = all(ch in sys_set for ch in w) and (P(w) == contains)
        got = run_table(d, w)
        if got != want:
            # re-confirm through the real reader
            got2 = d.accepts_input(w)
            if got2 != want and (bad is None or len(w) < len(bad[0])):
                bad = (w, got2, want)
            elif got2 == want:
                fails.append((f"{c}: accepts_input({w!r}) disagrees with the transition table run", None))
    # the real reader agrees with the table run on a sample (C01 covers the reader itself)
    sample_ws = list(words_upto("".join(sy), min(bound, 3)))
    for w in sample_ws:
        if d.accepts_input(w) != run_table(d, w):
            fails.append((f"{c}: accepts_input({w!r}) disagrees with the transition table run", None))
            break
    ctx.stat("oracle_words", n_words)
    if bad is not None:
        w, got, want = bad
        fails.append((f"{c}: accepts_input({w!r}) = {got}, the predicate says {want}", None))
    # (3) minimality where promised
    if c in MINIMAL_PROMISED and bad is None:
        size, best = len(d.states), nerode_size(d)
        if size != best:
            if minimality_in_domain(case):
                fails.append((f"{c}: {size} states, the minimal DFA of the same kind has {best}", None))
            else:
                ctx.stat("nonminimal_outside_claimed_domain:" + c)
        elif minimality_in_domain(case):
            ctx.stat("minimality_checked")
    return fails


# ------------------------------------------------------------------ one case
def describe(case: dict) -> str:
    c = case["ctor"]
    args = {k: v for k, v in case.items() if k not in ("ctor", "ordered", "origin")}
    return f"DFA.{c}({', '.join(f'{k}={v!r}' for k, v in args.items())})"


def _same_up_to_renaming(a: dict, b: dict) -> bool:
    try:
        if a.get("partial") != b.get("partial") or len(a["states"]) > 60:
            return False

        def as_nfa(p):
            return dict(states=p["states"], syms=p["syms"], finals=p["finals"], init=p["init"],
                        trans={q: {x: [t] for x, t in row.items()} for q, row in p["trans"].items()})
        return nfa_iso(as_nfa(a), as_nfa(b))
    except Exception:  # noqa: BLE001
        return False


def check_case(ctx: Ctx, case: dict, origin: str, bound: Optional[int] = None, pre=None, report: bool = True,
               skip_corr: bool = False):
    """`pre` = (res, info) of a real call already made (shared-argument programs make the call with the
    caller's objects); `report=False` returns the property failures instead of reporting them (the program
    runner confirms, shortens and reports the whole program); `skip_corr`: the live argument no longer has
    the value the caller wrote, so an exact model comparison says nothing."""
    c = case["ctor"]
    res, info = pre if pre is not None else real_call(case)
    # make the case self-contained for replay: record the live orders and freeze them
    rcase = dict(case)
    if "patterns_order" in info:
        rcase["patterns"] = info["patterns_order"]
        rcase["ordered"] = True
    if "language_order" in info:
        rcase["language"] = info["language_order"]
        rcase["ordered"] = True
    chars = case_chars(case)
    rank = {ch: i for i, ch in enumerate(chars)}
    line = model_line(case, info, rank)
    mod = parse_model(ctx.driver(DRV).ask(line))
    if bound is None:
        bound = {0: 3, 1: 9, 2: 7, 3: 5}.get(len(set(case["syms"])), 4)
    # --- correspondence
    same = True
    if res[0] == "err":
        impl_view: Any = ("err", res[1])
        same = mod == impl_view
    else:
        d = res[1]
        if c == "from_finite_language":
            st = Names(sorted(d.states, key=lambda q: (not isinstance(q, str), q if isinstance(q, str) else "")))
            pl = real_plain(d, rank, st)
            impl_view = ("ok", pl)
            same = mod[0] == "ok" and dfa_canon(pl) == dfa_canon(mod[1]) and len(pl["states"]) == len(mod[1]["states"])
        else:
            pl = real_plain(d, rank)
            impl_view = ("ok", pl)
            same = mod == impl_view
            if not same and mod[0] == "ok" and _same_up_to_renaming(pl, mod[1]):
                # the same DFA up to a bijective renaming of its states (e.g. another name for the
                # added trap state): C15 fixes the language, validity and (where promised) the
                # number of states of the result, not the names — all invariant under renaming
                same = True
                ctx.stat("result_equal_to_model_up_to_state_renaming")
    # --- property on the real result
    fails = evaluate_property(ctx, case, res, bound)
    # --- bookkeeping
    nontrivial = res[0] == "ok" and len(res[1].states) >= 2
    ctx.case((c, json.dumps(rcase, sort_keys=True)) if nontrivial else None)
    ctx.stat(origin)
    ctx.stat("ctor:" + c)
    ctx.stat("result:" + ("dfa" if res[0] == "ok" else res[1]))
    record_shape(ctx, case)
    if ctx.evaluations % 499 == 1:
        ctx.sample(dict(call=describe(rcase), result=(repr(res[1]) if res[0] == "ok" else res[1])[:400],
                        model_line=line, model_answer_equal=same))
    if not report:
        if not same and not fails and not skip_corr:
            ctx.corr_diff(c, rcase, impl_view, mod)
        return rcase, fails
    for what, key in fails:
        if key is not None:
            # an open finding: report the first few hits only (Ctx keeps a bounded list of failures
            # and failures of *other* kinds must never be crowded out), count the rest
            ctx.stat("finding_hit:" + key)
            if ctx.stats["finding_hit:" + key] > 3:
                continue
        ctx.prop_fail(f"{describe(rcase)}: {what}", dict(case=rcase, what=what), key)
    if not same and not fails:
        ctx.corr_diff(c, rcase, impl_view, mod)
    elif not same:
        ctx.stat("model_differs_where_property_fails")


def record_shape(ctx: Ctx, case: dict) -> None:
    """Generator distribution: border lengths, set relations, alphabet sizes, flags."""
    c = case["ctor"]
    ctx.stat(f"alphabet_size:{len(set(case['syms']))}")
    if "pattern" in case:
        p = case["pattern"]
        b = borders(p)
        ctx.stat("pattern_len:" + (str(len(p)) if len(p) < 6 else "6+"))
        ctx.stat("pattern_longest_border:" + (str(max(b)) if b else "0"))
        if len(b) >= 2:
            ctx.stat("pattern_with_several_borders")
        if not set(p) <= set(case["syms"]):
            ctx.stat("pattern_with_symbol_outside_alphabet")
    if "patterns" in case:
        ps = [p for p in case["patterns"]]
        ctx.stat(f"set_size:{len(set(ps))}")
        rel = set()
        for x in ps:
            for y in ps:
                if x != y and x != "":
                    if y.startswith(x):
                        rel.add("prefix")
                    if y.endswith(x):
                        rel.add("suffix")
                    if x in y and not y.startswith(x) and not y.endswith(x):
                        rel.add("inner_infix")
                    if any(x[-k:] == y[:k] for k in range(1, min(len(x), len(y)))):
                        rel.add("overlap")
        for r in rel:
            ctx.stat("set_has_" + r + "_pair")
        if "" in ps:
            ctx.stat("set_contains_empty_pattern")
        if any(borders(p) for p in ps):
            ctx.stat("set_has_self_overlapping_pattern")
        if any(not set(p) <= set(case["syms"]) for p in ps):
            ctx.stat("set_with_symbol_outside_alphabet")
    if "language" in case:
        L = case["language"]
        ctx.stat("language_size:" + (str(len(set(L))) if len(set(L)) < 6 else "6+"))
        if "" in L:
            ctx.stat("language_contains_empty_word")
        if any(x != y and y.startswith(x) for x in L for y in L):
            ctx.stat("language_has_prefix_pair")
        if any(x != y and x and y.endswith(x) for x in L for y in L):
            ctx.stat("language_has_shared_suffix")
    for fl in ("contains", "as_partial", "must_be_suffix"):
        if fl in case:
            ctx.stat(f"{fl}={case[fl]}")


# ------------------------------------------------------------------ generators
CORPUS: List[dict] = [
    # F10 (fixed c9be6ce, e7fb1d6): empty suffix, empty pattern in a suffix-mode set
    dict(ctor="from_suffix", syms="ab", pattern="", contains=True),
    dict(ctor="from_substring", syms="abc", pattern="", contains=False, must_be_suffix=True),
    dict(ctor="from_substrings", syms="abc", patterns=["", "cab"], ordered=True, contains=False, must_be_suffix=True),
    dict(ctor="from_substrings", syms="ab", patterns=[""], ordered=True, contains=True, must_be_suffix=True),
    # F20 (fixed e721303): end_state collision (pattern with a symbol outside the alphabet)
    dict(ctor="from_substrings", syms="ab", patterns=["cc", "ab"], ordered=True, contains=True, must_be_suffix=False),
    dict(ctor="from_substrings", syms="ab", patterns=["bbc", "aac"], ordered=True, contains=True, must_be_suffix=False),
    # F15 (fixed bcfb456): degenerate of_length parameters (empty range / nothing counted) were not minimal
    dict(ctor="of_length", syms="a", min=3, max=1, count=None),
    dict(ctor="of_length", syms="ab", min=2, max=3, count="c"),
    dict(ctor="of_length", syms="ab", min=1, max=2, count=""),
    dict(ctor="of_length", syms="ab", min=0, max=2, count="c"),
    dict(ctor="of_length", syms="ab", min=0, max=None, count=""),
    dict(ctor="of_length", syms="ab", min=2, max=None, count="#"),
    dict(ctor="of_length", syms="ab", min=0, max=-1, count=None),
    dict(ctor="of_length", syms="ab", min=-2, max=-1, count="a"),
    dict(ctor="of_length", syms="ab", min=-1, max=None, count="a"),
    dict(ctor="of_length", syms="ab", min=-1, max=1, count="a"),      # the one raising class
    dict(ctor="of_length", syms="ab", min=-1, max=1, count="c"),      # … not when nothing is counted
    dict(ctor="of_length", syms="", min=0, max=None, count=None),
    dict(ctor="of_length", syms="", min=1, max=None, count=None),
    # round-2 seeded mutants: first BFS depth-first (failure chains across branches, both insertion
    # orders), pruning of patterns that contain another one (suffix mode), foreign symbol with contains=False
    dict(ctor="from_substrings", syms="ab", patterns=["abba", "babaa"], ordered=True, contains=True, must_be_suffix=False),
    dict(ctor="from_substrings", syms="ab", patterns=["babaa", "abba"], ordered=True, contains=True, must_be_suffix=False),
    dict(ctor="from_substrings", syms="ab", patterns=["abb", "babaab"], ordered=True, contains=False, must_be_suffix=False),
    dict(ctor="from_substrings", syms="ab", patterns=["babaab", "abb"], ordered=True, contains=True, must_be_suffix=False),
    dict(ctor="from_substrings", syms="ab", patterns=["bba", "abbb"], ordered=True, contains=True, must_be_suffix=True),
    dict(ctor="from_substrings", syms="ab", patterns=["abbb", "bba"], ordered=True, contains=True, must_be_suffix=True),
    dict(ctor="from_substrings", syms="ab", patterns=["a", "aab", "baab"], ordered=True, contains=True, must_be_suffix=True),
    dict(ctor="from_substrings", syms="ab", patterns=["baab", "aab", "a"], ordered=True, contains=False, must_be_suffix=True),
    dict(ctor="from_substrings", syms="abc", patterns=["b", "abc"], ordered=True, contains=True, must_be_suffix=True),
    dict(ctor="from_substrings", syms="abc", patterns=["ab", "abc"], ordered=True, contains=False, must_be_suffix=True),
    dict(ctor="from_substrings", syms="abc", patterns=["ca", "bcab", "abcabc"], ordered=True, contains=True, must_be_suffix=True),
    dict(ctor="from_substring", syms="ab", pattern="ac", contains=False, must_be_suffix=False),
    dict(ctor="from_substring", syms="ab", pattern="ac", contains=False, must_be_suffix=True),
    dict(ctor="from_suffix", syms="ab", pattern="cb", contains=False),
    dict(ctor="from_substring", syms="ab", pattern="c", contains=True, must_be_suffix=False),
    dict(ctor="from_substrings", syms="ab", patterns=["ac", "cb"], ordered=True, contains=False, must_be_suffix=False),
    # killers of the mutants of notes/C15.md
    dict(ctor="from_suffix", syms="ab", pattern="a", contains=True),                       # KMP limit
    dict(ctor="from_suffix", syms="ab", pattern="aba", contains=False),
    dict(ctor="from_substring", syms="ab", pattern="aabaaa", contains=True, must_be_suffix=False),
    dict(ctor="from_substring", syms="ab", pattern="abab", contains=True, must_be_suffix=True),
    dict(ctor="from_substrings", syms="ab", patterns=["b", "ab", "aab"], ordered=True, contains=True, must_be_suffix=True),
    dict(ctor="from_substrings", syms="ab", patterns=["aab", "b"], ordered=True, contains=True, must_be_suffix=True),
    dict(ctor="from_substrings", syms="abc", patterns=["abc", "bc", "c"], ordered=True, contains=False, must_be_suffix=True),
    dict(ctor="nth_from_end", syms="ab", symbol="a", n=2),
    dict(ctor="nth_from_end", syms="abc", symbol="b", n=3),
    dict(ctor="count_mod", syms="ab", k=3, remainders=[1], count="a"),
    dict(ctor="from_finite_language", syms="ab", language=["aa", "ab", "ba", "bb"], as_partial=True),    # m34
    dict(ctor="from_finite_language", syms="ab", language=["a", "aa", "b"], as_partial=False),
    dict(ctor="from_finite_language", syms="ab", language=["", "ab", "abab", "b"], as_partial=True),
    dict(ctor="from_finite_language", syms="ab", language=[], as_partial=True),
    dict(ctor="nth_from_start", syms="a", symbol="a", n=3),
    dict(ctor="nth_from_start", syms="ab", symbol="c", n=1),
    dict(ctor="count_mod", syms="ab", k=0, remainders=None, count=None),
    dict(ctor="from_prefix", syms="ab", pattern="ac", contains=True, as_partial=True),
    dict(ctor="from_prefix", syms="a", pattern="aa", contains=False, as_partial=True),
    dict(ctor="from_subsequence", syms="ab", pattern="ca", contains=True),
    dict(ctor="universal_language", syms=""),
    dict(ctor="empty_language", syms="ab"),
]

BOOLS = (True, False)


def pattern_cases(syms: str, p: str):
    for c in BOOLS:
        for ap in BOOLS:
            yield dict(ctor="from_prefix", syms=syms, pattern=p, contains=c, as_partial=ap)
        for sf in BOOLS:
            yield dict(ctor="from_substring", syms=syms, pattern=p, contains=c, must_be_suffix=sf)
        yield dict(ctor="from_suffix", syms=syms, pattern=p, contains=c)
        yield dict(ctor="from_subsequence", syms=syms, pattern=p, contains=c)


def numeric_cases(syms: str, hi: int):
    counts = [None, "", syms[0], syms, syms[-1] + "#"]
    for mn in range(-2, hi + 1):
        for mx in [None] + list(range(-1 if mn <= 1 else 0, hi + 1)):
            for cnt in counts:
                yield dict(ctor="of_length", syms=syms, min=mn, max=mx, count=cnt)
    for k in range(-1, hi + 1):
        rems = [None, [], [0], [k - 1], list(range(max(k, 0))), [1, 2], [0, k]]
        for r in rems:
            for cnt in counts[:4]:
                yield dict(ctor="count_mod", syms=syms, k=k, remainders=r, count=cnt)
    for n in range(0, hi + 1):
        for s in sorted(set(syms)) + ["#"]:
            yield dict(ctor="nth_from_start", syms=syms, symbol=s, n=n)
            yield dict(ctor="nth_from_end", syms=syms, symbol=s, n=n)
    yield dict(ctor="universal_language", syms=syms)
    yield dict(ctor="empty_language", syms=syms)


def empty_alphabet_cases():
    """Every constructor over Σ = ∅ (the only word is ''): patterns '' (over Σ) and 'a' (foreign)."""
    for p in ("", "a", "ab"):
        yield from pattern_cases("", p)
    for ps in ([], [""], ["a"], ["a", "ab"], ["", "a"]):
        for c in BOOLS:
            for sf in BOOLS:
                yield dict(ctor="from_substrings", syms="", patterns=list(ps), ordered=True, contains=c,
                           must_be_suffix=sf)
    for L in ([], [""], ["a"], ["", "a"]):
        for ap in BOOLS:
            yield dict(ctor="from_finite_language", syms="", language=list(L), ordered=True, as_partial=ap)
    for mn in range(-1, 3):
        for mx in (None, -1, 0, 1, 2):
            for cnt in (None, "", "a"):
                yield dict(ctor="of_length", syms="", min=mn, max=mx, count=cnt)
    for k in range(-1, 4):
        for r in (None, [], [0], [k - 1], [0, k]):
            for cnt in (None, "", "a"):
                yield dict(ctor="count_mod", syms="", k=k, remainders=r, count=cnt)
    for n in range(0, 3):
        yield dict(ctor="nth_from_start", syms="", symbol="a", n=n)
        yield dict(ctor="nth_from_end", syms="", symbol="a", n=n)
    yield dict(ctor="universal_language", syms="")
    yield dict(ctor="empty_language", syms="")


def rand_pattern(rng, alpha: str, max_len: int) -> str:
    """Patterns biased towards self-overlap: powers of a short word with a partial period,
    palindromic borders, a border of a chosen length, or plain random."""
    mode = rng.random()
    n = rng.randint(1, max_len)
    if mode < 0.35:
        u = "".join(rng.choice(alpha) for _ in range(rng.randint(1, 3)))
        return (u * (n // len(u) + 1))[:n]
    if mode < 0.55:
        u = "".join(rng.choice(alpha) for _ in range(rng.randint(1, 3)))
        v = "".join(rng.choice(alpha) for _ in range(rng.randint(0, 2)))
        return (u + v + u)[:max_len + 2]
    if mode < 0.7:
        u = "".join(rng.choice(alpha) for _ in range(rng.randint(1, 2)))
        w = (u * 4)[:rng.randint(2, 5)]
        return w + rng.choice(alpha) + w
    return "".join(rng.choice(alpha) for _ in range(n))


def rand_pattern_set(rng, alpha: str, max_n: int, max_len: int) -> List[str]:
    """Sets where patterns are prefixes / suffixes / infixes / overlaps of one another."""
    base = rand_pattern(rng, alpha, max_len)
    out = [base]
    for _ in range(rng.randint(0, max_n - 1)):
        r = rng.random()
        src = rng.choice(out)
        if r < 0.2 and len(src) > 1:
            out.append(src[:rng.randint(1, len(src) - 1)])
        elif r < 0.4 and len(src) > 1:
            out.append(src[rng.randint(1, len(src) - 1):])
        elif r < 0.55 and len(src) > 2:
            i = rng.randint(1, len(src) - 2)
            out.append(src[i:rng.randint(i + 1, len(src) - 1)])
        elif r < 0.7:
            k = rng.randint(1, len(src))
            out.append(src[-k:] + rand_pattern(rng, alpha, 2))
        elif r < 0.8:
            out.append(rand_pattern(rng, alpha, 2) + src)
        else:
            out.append(rand_pattern(rng, alpha, max_len))
    seen, res = set(), []
    for p in out:
        if p not in seen:
            seen.add(p)
            res.append(p)
    return res


def rand_language(rng, alpha: str, max_n: int, max_len: int) -> List[str]:
    """Finite languages with shared prefixes and shared suffixes (what the register merges)."""
    n = rng.randint(0, max_n)
    sufs = ["".join(rng.choice(alpha) for _ in range(rng.randint(0, 2))) for _ in range(2)]
    out = set()
    for _ in range(n):
        r = rng.random()
        if r < 0.4:
            w = "".join(rng.choice(alpha) for _ in range(rng.randint(0, max_len - 1))) + rng.choice(sufs)
        elif r < 0.6 and out:
            src = rng.choice(sorted(out))
            w = src + "".join(rng.choice(alpha) for _ in range(rng.randint(1, 2)))
        elif r < 0.7 and out:
            src = rng.choice(sorted(out))
            w = src[:rng.randint(0, len(src))]
        else:
            w = "".join(rng.choice(alpha) for _ in range(rng.randint(0, max_len)))
        out.add(w)
    res = sorted(out)
    rng.shuffle(res)
    return res


# ------------------------------------------------------------------ programs sharing argument objects
# (generator and pure semantics: harness/c15_programs.py)
SHARED_BOUND = {0: 3, 1: 6, 2: 5, 3: 4, 4: 3}
MAX_PROGRAM_REPORTS = 5


def _fingerprint(obj) -> Tuple[str, list]:
    return type(obj).__name__, sorted(obj, key=repr)


def light_recheck(case: dict, d: DFA) -> Optional[str]:
    """A result looked at again after the rest of the program ran (later calls, the caller's own edits of
    the argument objects): same alphabet, still valid, same verdicts as the predicate on the short words."""
    try:
        if set(d.input_symbols) != set(case["syms"]):
            return (f"the result's input_symbols are now {sorted(d.input_symbols)!r}, the call was made with "
                    f"{sorted(set(case['syms']))!r}")
        d.validate()
        P, contains = predicate(case)
        sy = "".join(sorted(set(case["syms"])))
        for w in words_upto(sy, 4 if len(sy) <= 2 else 3):
            want = P(w) == contains
            got = d.accepts_input(w)
            if got != want:
                return f"accepts_input({w!r}) = {got}, the predicate says {want}"
    except Exception as e:  # noqa: BLE001
        return f"the result raises {type(e).__name__} when used"
    return None


def exec_program(ctx: Ctx, program: dict, origin: str, account: bool) -> List[dict]:
    """Runs the program on the real library with ONE live object per pool entry; judges every result
    against the values the caller wrote (`simulate` semantics); compares every argument object before and
    after every call.  `account=False`: confirmation / probe runs (no model, no case counting)."""
    from harness import c15_programs as cp
    pool = program["pool"]
    objs: Dict[str, Any] = {}
    owners: Dict[str, Any] = {}
    for name, spec in pool.items():
        objs[name], owners[name] = cp.build_object(spec)
    vals = {name: list(spec["items"]) for name, spec in pool.items()}
    entries: List[dict] = []
    for i, st in enumerate(program["steps"]):
        if "mutate" in st:
            name = st["mutate"]
            vals[name] = cp.mutate_value(vals[name], st["op"], st["value"])
            if owners[name] is not None:
                cp.mutate_real(owners[name], st["op"], st["value"])
            continue
        case = cp.semantic_case(st, vals)
        argobjs = {role: objs[name] for role, name in st["args"].items()}
        diverged = sorted(name for name in set(st["args"].values())
                          if _fingerprint(objs[name])[1] != sorted(vals[name], key=repr))
        before = {name: _fingerprint(o) for name, o in objs.items()}
        res, info = real_call(case, argobjs)
        after = {name: _fingerprint(o) for name, o in objs.items()}
        changes = [dict(obj=name, call=i, ctor=st["ctor"],
                        roles=sorted(r for r, n in st["args"].items() if n == name),
                        before=before[name][1], after=after[name][1])
                   for name in objs if before[name] != after[name]]
        if account:
            ctx.stat("shared:argument_objects_compared_before_after", len(objs))
        if diverged:
            # the live argument is no longer what the caller wrote: the model is asked about the written value
            info["syms_order"] = list(case["syms"])
            if "patterns_order" in info:
                info["patterns_order"] = list(case["patterns"])
            if "language_order" in info:
                info["language_order"] = list(case["language"])
        bound = SHARED_BOUND.get(len(set(case["syms"])), 3)
        if account:
            _rcase, fl = check_case(ctx, case, origin, bound=bound, pre=(res, info), report=False,
                                    skip_corr=bool(diverged))
        else:
            fl = evaluate_property(ctx, case, res, bound)
        fails = [what for what, _key in fl]
        if res[0] == "ok" and expected_error(case) is None and not fails:
            if set(res[1].input_symbols) != set(case["syms"]):
                fails.append(f"{case['ctor']}: the result is over {sorted(res[1].input_symbols)!r}, the caller "
                             f"wrote input_symbols = {sorted(set(case['syms']))!r}")
        entries.append(dict(step=i, case=case, res=res, fails=fails, changes=changes, diverged=diverged, late=False))
    # every earlier result once more, after the later calls and the caller's edits
    for e in entries[:-1]:
        if e["res"][0] == "ok" and not e["fails"] and expected_error(e["case"]) is None:
            msg = light_recheck(e["case"], e["res"][1])
            if msg is not None:
                e["fails"].append(f"{e['case']['ctor']}: right when it was returned, but after the rest of the program "
                                  + msg)
                e["late"] = True
    # … and the last one too when the caller edits an argument after it
    if entries and program["steps"] and "mutate" in program["steps"][-1]:
        e = entries[-1]
        if e["res"][0] == "ok" and not e["fails"] and expected_error(e["case"]) is None:
            msg = light_recheck(e["case"], e["res"][1])
            if msg is not None:
                e["fails"].append(f"{e['case']['ctor']}: right when it was returned, but after the rest of the program "
                                  + msg)
                e["late"] = True
    return entries


def report_program_failure(ctx: Ctx, program: dict, step: int, late: bool) -> bool:
    """Re-confirms the failure on fresh objects through real library calls, shortens the history to the
    fewest steps that still show it, and reports it.  Returns True when a violation was reported."""
    from harness import c15_programs as cp
    ctx.stat("shared:failing_programs")
    if any(spec["type"] == "keys" for spec in program["pool"].values()):
        ctl = exec_program(ctx, cp.with_plain_sets(program), "confirm", account=False)
        if not any(e["fails"] for e in ctl):
            # only a live dict keys view shows it (the library keeps a non-`set` Set argument by reference
            # instead of copying it, so the caller's later edit of the dict reaches the DFA): recorded with the
            # program in the evidence notes, not counted as a violation of C15
            ctx.stat("shared:failure_only_with_live_dict_keys_view_argument")
            if ctx.stats["shared:failure_only_with_live_dict_keys_view_argument"] <= 3:
                ents = exec_program(ctx, program, "confirm", account=False)
                msgs = [e["fails"][0] for e in ents if e["fails"]]
                ctx.note("only with a dict keys view as the argument (a plain set gives the right result): "
                         + cp.describe_program(program) + " — " + (msgs[0] if msgs else "not reproduced"))
            return False
    if ctx.stats.get("shared:violations_reported", 0) >= MAX_PROGRAM_REPORTS:
        ctx.stat("shared:further_failing_programs_not_shortened")
        ctx.n_prop_fails += 1
        return False
    best = None
    for sub, pos in cp.subprograms(program, step, late):
        ents = exec_program(ctx, sub, "confirm", account=False)
        hit = [e for e in ents if e["step"] == pos and e["fails"]]
        if hit:
            best = (sub, pos, hit[0], ents)
            break
    if best is None:
        ctx.stat("shared:failure_not_reconfirmed_on_fresh_objects")
        return False
    sub, pos, entry, ents = best
    alone = cp.n_calls(sub) == 1 and len(sub["steps"]) == 1
    notes = []
    for e in ents:
        for ch in e["changes"]:
            notes.append(f"{ch['obj']} ({'/'.join(cp.PARAM_NAME[r] for r in ch['roles'])}) was changed in place by "
                         f"call [{ch['call'] + 1}] DFA.{ch['ctor']}: {ch['before']!r} → {ch['after']!r}")
    what = (f"{cp.describe_program(sub)} — step [{pos + 1}] = {describe(entry['case'])} (arguments as the caller "
            f"wrote them): {entry['fails'][0]}"
            + ("; " + "; ".join(notes) if notes else "")
            + ("" if alone else "; the same call on fresh argument objects is right"
               if not _fails_alone(ctx, sub, pos) else "; the same call fails on fresh argument objects too"))
    ctx.stat("shared:violations_reported")
    ctx.stat("shared:failing_history_length:" + str(len(sub["steps"])))
    ctx.prop_fail("calls sharing argument objects: " + what,
                  dict(program=sub, failing_step=pos, what=entry["fails"][0]), None)
    return True


def _fails_alone(ctx: Ctx, program: dict, pos: int) -> bool:
    from harness import c15_programs as cp
    case = cp.simulate(program)[pos]
    if case is None:
        return False
    res, _info = real_call(dict(case, ordered=True) if ("patterns" in case or "language" in case) else case)
    return bool(evaluate_property(ctx, case, res, SHARED_BOUND.get(len(set(case["syms"])), 3)))


def run_program(ctx: Ctx, program: dict, origin: str) -> None:
    from harness import c15_programs as cp
    entries = exec_program(ctx, program, origin, account=True)
    record_program_shape(ctx, program, entries)
    failing = [e for e in entries if e["fails"]]
    if failing:
        report_program_failure(ctx, program, failing[0]["step"], failing[0]["late"])
        return
    changed = [ch for e in entries for ch in e["changes"]]
    if not changed:
        return
    # a call changed a caller's argument in place and no result of this program is wrong: continue the
    # program with calls in which the value of that object decides the language
    if ctx.stats.get("shared:violations_reported", 0) >= MAX_PROGRAM_REPORTS:
        ctx.stat("shared:in_place_change_not_probed_after_enough_reports")
        return
    chars = "".join(sorted({ch for spec in program["pool"].values() for it in spec["items"] if isinstance(it, str)
                            for ch in it} | {"a", "b"}))
    for ch in changed:
        prefix_ids = [i for i in range(ch["call"] + 1)]
        calls_in_prefix = [i for i in prefix_ids if "ctor" in program["steps"][i]]
        if len(calls_in_prefix) > 3:
            first_kept = calls_in_prefix[-3]
            prefix_ids = [i for i in prefix_ids if i >= first_kept]
        for extra, pst in cp.probe_steps(ch["obj"], program["pool"][ch["obj"]], chars):
            probe = dict(pool={**program["pool"], **extra},
                         steps=[program["steps"][i] for i in prefix_ids] + [pst])
            ctx.stat("shared:probe_programs_after_in_place_change")
            ents = exec_program(ctx, probe, origin, account=False)
            bad = [e for e in ents if e["fails"]]
            if bad:
                if report_program_failure(ctx, cp.prune_pool(probe), bad[0]["step"], bad[0]["late"]):
                    return
    ctx.stat("shared:in_place_change_without_wrong_language")


def record_program_shape(ctx: Ctx, program: dict, entries: List[dict]) -> None:
    from harness import c15_programs as cp
    ctx.stat("shared:programs")
    ctx.stat(f"shared:calls_per_program:{cp.n_calls(program)}")
    if any("mutate" in st for st in program["steps"]):
        ctx.stat("shared:programs_with_caller_edit_between_calls")
    refs: Dict[str, List[Tuple[str, str, str]]] = {}
    for e in entries:
        st = program["steps"][e["step"]]
        seen_here: Dict[str, int] = {}
        for role, name in st["args"].items():
            refs.setdefault(name, []).append((role, st["ctor"], e["case"]["syms"]))
            seen_here[name] = seen_here.get(name, 0) + 1
            if role in ("count", "patterns", "language"):
                v = e["case"].get(role) or ""
                if any(ch not in e["case"]["syms"] for it in v for ch in it):
                    ctx.stat(f"shared:{cp.PARAM_NAME[role]}_with_symbol_outside_the_call_alphabet")
        if any(k > 1 for k in seen_here.values()):
            ctx.stat("shared:one_object_as_two_parameters_of_one_call")
        for ch in e["changes"]:
            ctx.stat(f"shared:argument_changed_in_place:{st['ctor']}.{'/'.join(cp.PARAM_NAME[r] for r in ch['roles'])}")
        if e["diverged"]:
            ctx.stat("shared:call_on_argument_no_longer_as_written")
    for name, rs in refs.items():
        ctx.stat(f"shared:object_type:{program['pool'][name]['type']}")
        if len(rs) >= 2:
            ctx.stat("shared:object_roles:" + "+".join(sorted({cp.PARAM_NAME[r] for r, _c, _s in rs})))
            if len({c for _r, c, _s in rs}) > 1:
                ctx.stat("shared:object_passed_to_different_constructors")
            if len({s for _r, _c, s in rs}) > 1:
                ctx.stat("shared:object_passed_under_different_alphabets")
    if refs:
        ctx.stat(f"shared:max_uses_of_one_object:{max(len(rs) for rs in refs.values())}")


def shared_argument_programs(ctx: Ctx) -> None:
    from harness import c15_programs as cp
    import time
    t0 = time.time()
    for sub, program in cp.exhaustive_programs(ctx.thorough()):
        ctx.stat("shared:subfamily:" + sub)
        run_program(ctx, program, "shared_args_exhaustive")
    ctx.exhaustive("programs of 2 constructor calls sharing argument objects, every result judged against the "
                   "argument values as written and every argument compared before/after each call: one symbols_to_count "
                   "set through all pairs of of_length / count_mod calls over alphabets {a,b}/{a,c}/{b}; one input_symbols "
                   "set through all 13×13 ordered pairs of constructor calls (also passed as the second set parameter of "
                   "the same call); one substrings/language set through all pairs of from_substrings / "
                   "from_finite_language calls over {a,b}/{a,b,c}; one remainders set under moduli 2…4; every "
                   "constructor followed by the caller's own edit of the alphabet object (set and dict keys view)")
    for _ in range(ctx.budget(400, 6000)):
        ctx.stat("shared:subfamily:random")
        run_program(ctx, cp.random_program(ctx.rng), "shared_args_random")
    ctx.note(f"programs sharing argument objects: {ctx.stats.get('shared:programs', 0)} programs, "
             f"{ctx.stats.get('shared_args_exhaustive', 0) + ctx.stats.get('shared_args_random', 0)} calls judged, "
             f"{time.time() - t0:.1f} s")


def run(ctx: Ctx):
    rng = ctx.rng
    thorough = ctx.thorough()
    # 0. corpus
    for case in CORPUS:
        check_case(ctx, dict(case), "corpus")
    # 0b. programs of 2–4 calls sharing (mutable) argument objects
    shared_argument_programs(ctx)
    # 1. bounded-exhaustive
    for syms, maxlen in (("ab", 4), ("abc", 3), ("a", 4)):
        for p in words_upto(syms, maxlen):
            for case in pattern_cases(syms, p):
                check_case(ctx, case, "exhaustive_pattern")
    ctx.exhaustive("from_prefix / from_suffix / from_substring / from_subsequence: all patterns of length ≤4 over {a,b}, "
                   "≤3 over {a,b,c}, ≤4 over {a}, all flag values; brute-force words ≤7 (binary), ≤5 (ternary), ≤9 (unary) + foreign symbol")
    for p in words_upto("ab#", 3):
        if "#" in p:
            for case in pattern_cases("ab", p):
                check_case(ctx, case, "exhaustive_foreign_pattern", bound=5)
    ctx.exhaustive("patterns with a symbol outside the alphabet: all patterns of length ≤3 over {a,b,#} containing #, "
                   "alphabet {a,b}, all 12 constructor/flag combinations (from_prefix / from_subsequence: the announced "
                   "library exception; from_substring / from_suffix: the language, both values of contains)")
    pats = list(words_upto("ab", 3))
    set_max = 3
    for k in range(1, set_max + 1):
        for combo in itertools.combinations(pats, k):
            if not thorough and k == 3 and sum(map(len, combo)) > 7:
                # quick tier: the largest triples are sampled below; thorough enumerates all
                if rng.random() > 0.25:
                    continue
            for c in BOOLS:
                for sf in BOOLS:
                    check_case(ctx, dict(ctor="from_substrings", syms="ab", patterns=list(combo),
                                         contains=c, must_be_suffix=sf), "exhaustive_set", bound=6)
    ctx.exhaustive("from_substrings: all sets of ≤2 patterns of length ≤3 over {a,b} (incl. the empty pattern), all flags, "
                   "live set iteration order" + ("; all sets of 3 patterns" if thorough else "; sets of 3 patterns: all with total length ≤7, 25% of the rest"))
    # all insertion orders of small sets (labels depend on the order)
    for combo in itertools.combinations(list(words_upto("ab", 2))[1:], 3 if thorough else 2):
        for perm in itertools.permutations(combo):
            for sf in BOOLS:
                check_case(ctx, dict(ctor="from_substrings", syms="ab", patterns=list(perm), ordered=True,
                                     contains=True, must_be_suffix=sf), "exhaustive_set_orders", bound=5)
    # pairs of longer patterns in BOTH insertion orders: failure links of one branch point into the
    # other branch at depth ≥ 2 (the BFS order of the first pass matters exactly there)
    longer = [p for p in words_upto("ab", 4) if len(p) >= 2]
    for x, y in itertools.combinations(longer, 2):
        if not thorough and len(x) + len(y) < 6:
            continue  # covered by the sets of patterns ≤3 above
        for perm in ((x, y), (y, x)):
            for sf in BOOLS:
                check_case(ctx, dict(ctor="from_substrings", syms="ab", patterns=list(perm), ordered=True,
                                     contains=sf, must_be_suffix=sf), "exhaustive_pair_orders", bound=7)
    ctx.exhaustive("from_substrings: all pairs of patterns of length 2…4 over {a,b}" + ("" if thorough else " with total length ≥6")
                   + ", both insertion orders, both modes; brute-force words ≤7")
    for syms in ("ab", "a", "abc"):
        for case in numeric_cases(syms, 5 if (thorough or syms == "ab") else 3):
            if case["ctor"] == "nth_from_end" and case["n"] > 4 and not thorough:
                continue
            check_case(ctx, case, "exhaustive_numeric", bound={"ab": 7, "a": 9, "abc": 5}[syms])
    ctx.exhaustive("of_length / count_mod / nth_from_start / nth_from_end / universal / empty: all numeric parameters ≤5 "
                   "(≤3 over {a}, {a,b,c} in the quick tier), min_length from −2, max_length from −1, k and n from −1/0, "
                   "remainders ∅/{0}/{k−1}/all/out of range, symbols_to_count None/∅/one/all/with a foreign symbol")
    for case in empty_alphabet_cases():
        check_case(ctx, case, "exhaustive_empty_alphabet", bound=3)
    ctx.exhaustive("the empty alphabet: every constructor with patterns '' / 'a' / 'ab', pattern sets and languages "
                   "⊆ {'', 'a', 'ab'}, min −1…2 × max None/−1…2, k −1…3, n 0…2")
    lw = list(words_upto("ab", 2))
    for k in range(0, len(lw) + 1):
        for combo in itertools.combinations(lw, k):
            for ap in BOOLS:
                check_case(ctx, dict(ctor="from_finite_language", syms="ab", language=list(combo), as_partial=ap),
                           "exhaustive_language", bound=4)
    lw3 = list(words_upto("ab", 3))
    for k in (1, 2, 3):
        for combo in itertools.combinations(lw3, k):
            if max(map(len, combo)) < 3:
                continue
            if not thorough and k == 3 and rng.random() > 0.3:
                continue
            check_case(ctx, dict(ctor="from_finite_language", syms="ab", language=list(combo),
                                 as_partial=bool(rng.getrandbits(1))), "exhaustive_language", bound=5)
    ctx.exhaustive("from_finite_language: all 128 languages of words ≤2 over {a,b} × as_partial; languages of ≤3 words ≤3"
                   + ("" if thorough else " (30% sample of the triples)"))
    # 2. shaped random
    alphabets = ["ab", "abc", "ab", "abcd", "a", "ba", "01"]
    for _ in range(ctx.budget(700, 14000)):
        syms = rng.choice(alphabets)
        src = syms + ("#" if rng.random() < 0.08 else "")
        p = rand_pattern(rng, src, 9)
        case = rng.choice(list(pattern_cases(syms, p)))
        check_case(ctx, case, "random_pattern", bound=min(6, {1: 9, 2: 6, 3: 4, 4: 3}[len(set(syms))]))
    for _ in range(ctx.budget(700, 14000)):
        syms = rng.choice(alphabets)
        src = syms + ("#" if rng.random() < 0.1 else "")
        ps = rand_pattern_set(rng, src, 5, 5)
        if rng.random() < 0.05:
            ps.append("")
        rng.shuffle(ps)
        check_case(ctx, dict(ctor="from_substrings", syms=syms, patterns=ps, ordered=rng.random() < 0.3,
                             contains=rng.random() < 0.6, must_be_suffix=rng.random() < 0.5),
                   "random_set", bound={1: 8, 2: 6, 3: 4, 4: 3}[len(set(syms))])
    for _ in range(ctx.budget(500, 10000)):
        syms = rng.choice(alphabets)
        src = syms + ("#" if rng.random() < 0.05 else "")
        L = rand_language(rng, src, 9, 5)
        check_case(ctx, dict(ctor="from_finite_language", syms=syms, language=L, ordered=rng.random() < 0.3,
                             as_partial=rng.random() < 0.5), "random_language",
                   bound={1: 7, 2: 6, 3: 4, 4: 3}[len(set(syms))])
    for _ in range(ctx.budget(300, 6000)):
        syms = rng.choice(alphabets)
        r = rng.random()
        cnt = rng.choice([None, None, syms[0], syms[-1], syms[:2], ""])
        if r < 0.3:
            mn = rng.randint(0, 9) if rng.random() < 0.9 else rng.randint(-3, -1)
            mx = rng.choice([None, rng.randint(0, 9), mn, mn + 1, mn - 1])
            case = dict(ctor="of_length", syms=syms, min=mn, max=mx, count=cnt)
        elif r < 0.6:
            k = rng.randint(1, 9)
            rem = rng.choice([None, [rng.randrange(k)], sorted({rng.randrange(k) for _ in range(3)})])
            case = dict(ctor="count_mod", syms=syms, k=k, remainders=rem, count=cnt)
        elif r < 0.8:
            case = dict(ctor="nth_from_start", syms=syms, symbol=rng.choice(syms), n=rng.randint(1, 9))
        else:
            case = dict(ctor="nth_from_end", syms=syms, symbol=rng.choice(syms), n=rng.randint(1, 7 if thorough else 6))
        check_case(ctx, case, "random_numeric", bound={1: 9, 2: 6, 3: 4, 4: 3}[len(set(syms))])


def replay(ctx: Ctx, path: str) -> int:
    data = json.load(open(path))
    rp = data.get("replay", data)
    if "program" in rp:
        run_program(ctx, rp["program"], "replay")
    else:
        case = rp.get("case", rp)
        check_case(ctx, dict(case), "replay")
    if ctx.prop_fails:
        print(f"VIOLATION property=C15 replay={path}")
        print("  " + ctx.prop_fails[0]["what"])
        return 1
    print("replay: property holds on this input now")
    return 0


def search(ctx: Ctx):
    """Deeper failing-input search when the correspondence or an obligation is broken but run()
    found no failing input: longer words on the cases where model and code differ, then a larger
    random budget."""
    for diff in list(ctx.corr_diffs):
        case = diff["case"]
        if isinstance(case, dict) and "ctor" in case:
            nsy = len(set(case["syms"]))
            check_case(ctx, dict(case), "search", bound={0: 3, 1: 12, 2: 10, 3: 7}.get(nsy, 5))
    if not ctx.prop_fails:
        rng = ctx.rng
        for _ in range(ctx.budget(1500, 6000)):
            syms = rng.choice(["ab", "abc"])
            p = rand_pattern(rng, syms, 7)
            for case in pattern_cases(syms, p):
                check_case(ctx, case, "search", bound=9 if syms == "ab" else 6)
