"""C12 — state elimination yields a regular expression for the same language.

Property (evaluated on the real code, independently of the model): for a valid DFA / NFA with a
non-empty language, `GNFA.from_dfa/from_nfa(m).to_regex()` is a string that the library's own
`NFA.from_regex` accepts and whose language equals the language of `m`.  Alphabets that contain a
reserved regex character or a white-space character are INSIDE this domain; the code violates the
property there (the output syntax has no escaping) — that is the open finding
`C12:alphabet-has-reserved-regex-character`, produced on every run by the family
`reserved_alphabet` below and proved on the model by `C12_reserved_alphabet_fails`.  The language comparison is done here by
subset construction + product BFS over the real objects' dicts (shortest distinguishing word),
and every reported word is re-confirmed through the real `accepts_input`.

Correspondence (model ↔ code, through drv_gnfa):
  GNFA_BUILD      from_dfa / from_nfa: the transition table exactly (names through the harness map;
                  `_add_new_state` gets the ids of the Python ints 0,1,2,…), exceptions by class;
  GNFA_TO_REGEX   the real string equals the model's string when the model breaks ties of
                  `_find_min_connected_node` the way the real run did (the rip sequence is recorded by
                  wrapping the static method), and the model's rip sequence equals the real one (so
                  every real choice was a minimal-degree state); on small cases additionally
                  real string ∈ {model strings over all tie-breaks};
  GNFA_DIRECT     hand-made GNFAs with compound labels (exercises every string rule of to_regex);
  GNFA_VALIDATE   malformed GNFA definitions: exception class of the constructor;
  ISBRACKET       `_isbracket_req` on random strings.

Source families: corpus, bounded-exhaustive, shaped random, sparse 6–8 states, reserved alphabets, and `wordgraph`
(harness/c12_wordgraph.py): hub states joined by parallel word paths with permuted state names, so that the labels
a rip combines are already composite (multi-symbol concatenations, bracketed unions of ≥3 alternatives, λ by-passes
over several λ-states) and every elimination order among equal-degree states occurs; run() takes a slice, search()
a large sweep.
"""
from __future__ import annotations

import itertools
import json
import re as _pyre
from collections import deque
from typing import Any, Dict, List, Optional, Tuple

from automata.fa.dfa import DFA
from automata.fa.gnfa import GNFA
from automata.fa.nfa import NFA
from automata.regex.parser import RESERVED_CHARACTERS

from harness import gen
from harness.c12_wordgraph import wordgraph_source
from harness.common import Ctx, InfraError, Names, Toks, call, enc_dfa, enc_nfa, toks

LEVEL = "proof"
RULE = ("cases = valid DFAs / NFAs (ε included); corpus of past defects, then every DFA with ≤2 states over "
        "{a,b} and every ε-NFA with 1 state over {a,b} / 2 states over {a} (thorough: 3-state ε-only/one-symbol "
        "NFAs), then shaped random automata with ≤4 (thorough ≤5) states: dense parallel/cyclic ε-transitions, "
        "final = initial, several final states, unreachable and dead states, adversarial name pools, alphabets "
        "with digits, ',', '-', 'é' and the astral '𝒳'; sparse sources with 6–8 states (property oracle only); "
        "the `wordgraph` family (harness/c12_wordgraph.py): series-parallel NFAs / trie-and-DAG-shaped partial DFAs "
        "with ≤9 states built from a few hub states joined by parallel PATHS spelling words of length 0–3 (bundles "
        "of 3–4 parallel symbols, empty-string by-passes over 0–2 λ-states, shared prefixes, skip / back / loop "
        "paths, accepting leaves, words that re-occur on several paths), state names permuted and numbered role "
        "by role so that the tie-breaks of the rip selection take every order — i.e. elimination steps whose "
        "operands are already composite labels (multi-symbol concatenations, bracketed unions with ≥3 "
        "alternatives) next to `|`, `?`, `*`; "
        "a family of sources whose alphabet contains a reserved / white-space character (open finding); plus "
        "hand-made GNFAs with compound labels and malformed GNFA definitions. A case is non-trivial when the "
        "language is non-empty, the source has ≥2 states and the resulting regex contains an operator; "
        "distinct = distinct (kind, definition)")
ASSUMPTIONS = [
    "source automata are valid and their language is non-empty (empty languages are counted, not judged)",
    "NOT assumed: an alphabet of literal characters. Sources whose alphabet contains a reserved regex character "
    "or white space are generated on every run and judged by the same oracle; the property fails there and is "
    "reported as the open finding C12:alphabet-has-reserved-regex-character (the positive theorems carry the "
    "hypothesis `IsLit` for every symbol; C12_reserved_alphabet_fails proves that it cannot be dropped)",
    "state names are hashable; Python-specific equalities between names (1 == True == 1.0) are out of scope",
    "the set-iteration order that breaks ties in _find_min_connected_node is quantified over in the theorems "
    "and replayed (recorded from the real run) in the correspondence",
]
EXPLANATION = ("Props/C12.lean proves, for the model, that ripping states in any order preserves the language "
               "and that every label string assembled by to_regex is a well-formed rendering (library regex "
               "syntax) of an expression with exactly that language; this run ties the model to the code by "
               "differential execution and evaluates the property itself on the real code with an "
               "independent language-equivalence oracle through the library's own parser. Because the correctness of "
               "the assembled string depends on how ALREADY COMPOSITE labels are bracketed, the sources include a "
               "structured family (wordgraph) in which the labels combined by a rip are concatenations of several "
               "symbols and bracketed unions of ≥3 alternatives, under every elimination order the state names can "
               "induce; the evidence counters `wordgraph_*` show its distribution.")


# --------------------------------------------------------------------------- encoding
class CodeSyms:
    """Symbols travel as code points (the model assembles label strings from them)."""

    def __call__(self, a: str) -> int:
        if len(a) != 1:
            raise InfraError(f"multi-character symbol {a!r} is outside every property")
        return ord(a)


CODE = CodeSyms()


def enc_str(s: str) -> str:
    return toks(len(s), [ord(c) for c in s])


def enc_label(l: Optional[str]) -> str:
    return "N" if l is None else toks("S", enc_str(l))


def enc_gnfa_def(states, input_symbols, transitions, initial_state, final_state,
                 st: Optional[Names] = None) -> Tuple[str, Names]:
    st = st or Names(states)
    rows = []
    for k, row in transitions.items():
        rows.append(toks(st(k), len(row), [[st(t), enc_label(l)] for t, l in row.items()]))
    syms = [ord(a) for a in input_symbols]
    return toks(len(st.order), len(syms), syms, st(initial_state), st(final_state), len(rows), rows), st


def enc_gnfa(g: GNFA) -> Tuple[str, Names]:
    return enc_gnfa_def(g.states, g.input_symbols, g.transitions, g.initial_state, g.final_state)


def read_label(t: Toks) -> Optional[str]:
    k = t.next()
    if k == "N":
        return None
    if k != "S":
        raise InfraError(f"protocol: expected label, got {k}")
    return "".join(chr(c) for c in t.ints())


def read_gnfa(t: Toks) -> dict:
    t.expect("GNFA")
    states = set(t.ints())
    init = t.int()
    final = t.int()
    trans = {}
    for _ in range(t.int()):
        k = t.int()
        row = {}
        for _ in range(t.int()):
            to = t.int()
            row[to] = read_label(t)
        trans[k] = row
    return dict(states=states, init=init, final=final, trans=trans)


def gnfa_plain(g: GNFA, st: Names) -> dict:
    return dict(states={st(q) for q in g.states}, init=st(g.initial_state), final=st(g.final_state),
                trans={st(k): {st(t): l for t, l in row.items()} for k, row in g.transitions.items()})


# --------------------------------------------------------------------------- recording the real tie-breaks
class RipRecorder:
    """Wraps GNFA._find_min_connected_node (a static method looked up on the class at call time)
    to record the states the real `to_regex` rips, in order."""

    def __enter__(self):
        self.orig = GNFA.__dict__["_find_min_connected_node"]
        f = self.orig.__func__
        self.rips: List[Any] = []

        def wrapper(*a, **kw):
            q = f(*a, **kw)
            self.rips.append(q)
            return q

        GNFA._find_min_connected_node = staticmethod(wrapper)
        return self

    def __exit__(self, *exc):
        GNFA._find_min_connected_node = self.orig
        return False


# --------------------------------------------------------------------------- independent oracle
def as_nfa_table(m, is_nfa: bool) -> Dict[Any, Dict[str, set]]:
    if is_nfa:
        return {q: {a: set(ts) for a, ts in row.items()} for q, row in m.transitions.items()}
    return {q: {a: {t} for a, t in row.items()} for q, row in m.transitions.items()}


def closure(table, S) -> frozenset:
    S = set(S)
    work = list(S)
    while work:
        q = work.pop()
        for t in table.get(q, {}).get("", ()):
            if t not in S:
                S.add(t)
                work.append(t)
    return frozenset(S)


def step(table, S, a) -> frozenset:
    nxt = set()
    for q in S:
        nxt |= table.get(q, {}).get(a, set())
    return closure(table, nxt)


def language_nonempty(m, is_nfa: bool) -> bool:
    table = as_nfa_table(m, is_nfa)
    seen = {m.initial_state}
    work = [m.initial_state]
    while work:
        q = work.pop()
        if q in m.final_states:
            return True
        for ts in table.get(q, {}).values():
            for t in ts:
                if t not in seen:
                    seen.add(t)
                    work.append(t)
    return False


def distinguishing_word(A, a_is_nfa: bool, B, b_is_nfa: bool, alphabet: List[str]) -> Optional[str]:
    """Shortest word accepted by exactly one of A, B (subset construction + product BFS),
    None when the languages are equal."""
    ta, tb = as_nfa_table(A, a_is_nfa), as_nfa_table(B, b_is_nfa)
    s0 = (closure(ta, {A.initial_state}), closure(tb, {B.initial_state}))
    seen = {s0}
    queue = deque([(s0, "")])
    while queue:
        (sa, sb), w = queue.popleft()
        if bool(sa & A.final_states) != bool(sb & B.final_states):
            return w
        for c in alphabet:
            nx = (step(ta, sa, c), step(tb, sb, c))
            if nx not in seen:
                seen.add(nx)
                queue.append((nx, w + c))
    return None


def describe(m, is_nfa: bool) -> dict:
    return dict(kind="NFA" if is_nfa else "DFA", automaton=repr(m))


def property_on_real_code(ctx: Ctx, m, is_nfa: bool) -> Tuple[Optional[str], Optional[str]]:
    """Evaluates C12 on the real code for source `m`.  Returns (regex or None, failure or None)."""
    kind = "from_nfa" if is_nfa else "from_dfa"
    try:
        g = (GNFA.from_nfa if is_nfa else GNFA.from_dfa)(m)
        s = g.to_regex()
    except Exception as e:  # noqa: BLE001
        return None, f"GNFA.{kind}(m).to_regex() raised {type(e).__name__}: {e}"
    if not language_nonempty(m, is_nfa):
        ctx.stat("out_of_domain_empty_language")
        return s, None
    if not isinstance(s, str):
        return s, f"GNFA.{kind}(m).to_regex() returned {s!r} although the language is non-empty"
    try:
        n = NFA.from_regex(s, input_symbols=set(m.input_symbols))
    except Exception as e:  # noqa: BLE001
        return s, f"to_regex() = {s!r} is rejected by the library's parser: {type(e).__name__}: {e}"
    w = distinguishing_word(m, is_nfa, n, True, sorted(m.input_symbols))
    if w is None:
        return s, None
    a, b = m.accepts_input(w), n.accepts_input(w)
    if a == b:
        # the transition tables of the source and of the compiled regex differ on w, but the library's
        # reader answers alike: the reader does not follow the tables on this tree (broken too, C01)
        ctx.stat("tables_differ_reader_agrees")
        return s, (f"to_regex() = {s!r} denotes a different language: the transition tables of the source and of "
                   f"NFA.from_regex({s!r}) differ on {w!r} (the library's reader answers {a} for both: it does "
                   f"not follow the tables here)")
    return s, (f"to_regex() = {s!r} denotes a different language: source accepts {w!r} = {a}, "
               f"NFA.from_regex({s!r}) accepts it = {b}")


# --------------------------------------------------------------------------- open finding: reserved alphabets
FINDING_RESERVED = "C12:alphabet-has-reserved-regex-character"

# one representative of every kind of Python white space (`str.isspace`) that is not already reserved
WHITE_SPACE = ["\n", "\x0b", "\x0c", "\r", "\x1c", "\x1f", "\x85", "\xa0", "\u1680", "\u2003", "\u2028",
               "\u202f", "\u205f", "\u3000"]


def non_literal_symbols(m) -> List[str]:
    """Symbols of the source alphabet that the regex syntax cannot spell as themselves: the lexer reads a
    reserved character as an operator / wildcard / blank and refuses other white space (= ¬ IsLit)."""
    return sorted(a for a in m.input_symbols if a in RESERVED_CHARACTERS or a.isspace())


def reserved_corpus() -> List[Tuple[Any, bool]]:
    """For every reserved character c and a sample of white space: the DFA and the NFA
    0 -c→ 1 -a→ 1 (language c·a*), plus the reviewer's two-state DFA over {'.', 'a'}."""
    out: List[Tuple[Any, bool]] = []
    for c in sorted(RESERVED_CHARACTERS) + WHITE_SPACE:
        out.append((DFA(states={0, 1}, input_symbols={c, "a"}, transitions={0: {c: 1}, 1: {"a": 1}},
                        initial_state=0, final_states={1}, allow_partial=True), False))
        out.append((NFA(states={0, 1}, input_symbols={c, "a"}, transitions={0: {c: {1}}, 1: {"a": {1}, "": {0}}},
                        initial_state=0, final_states={1}), True))
    out.append((DFA(states={0, 1}, input_symbols={".", "a"},
                    transitions={0: {"a": 0, ".": 1}, 1: {"a": 1, ".": 0}}, initial_state=0, final_states={1}),
                False))
    return out


def check_reserved_source(ctx: Ctx, m, is_nfa: bool, origin: str):
    """A source whose alphabet is not made of literal characters: the SAME property oracle as everywhere
    else; a failure is the open finding (and only a failure is reported)."""
    bad = non_literal_symbols(m)
    if not bad:
        raise InfraError("reserved-alphabet family produced a literal alphabet")
    ctx.case(None)
    ctx.stat(origin)
    # model ↔ code also here: the executable model has no literal-alphabet restriction (the constructors
    # validate with `reValidate`, the C10 lexer model, so LexerError / ValueError / InvalidRegexError of
    # from_dfa / from_nfa on such alphabets are compared by class, and the strings exactly)
    correspondence(ctx, m, is_nfa, describe(m, is_nfa), False, False)
    if not language_nonempty(m, is_nfa):
        ctx.stat("out_of_domain_empty_language")
        return
    s, failure = property_on_real_code(ctx, m, is_nfa)
    if failure is None:
        # e.g. the offending symbol is white space that no live transition uses
        ctx.stat("reserved_alphabet_property_holds")
        return
    if "to_regex() raised" in failure:
        ctx.stat("reserved_alphabet_fails_conversion_raises")
    elif "rejected by the library's parser" in failure:
        ctx.stat("reserved_alphabet_fails_parser_rejects_with_source_alphabet")
    else:
        ctx.stat("reserved_alphabet_fails_wrong_language")
    # The parser refuses the source alphabet itself when it contains a reserved character.  Give the
    # string its best chance: let from_regex infer the alphabet.  Only when that does not yield the
    # source language either is the property violated (no way of reading the string back works).
    if isinstance(s, str):
        try:
            n = NFA.from_regex(s)
            sig = sorted(set(m.input_symbols) | set(n.input_symbols))
            w = distinguishing_word(m, is_nfa, n, True, sig)
            if w is None:
                # the offending symbol occurs on no accepting path, so the string does not mention it
                ctx.stat("reserved_alphabet_holds_with_inferred_alphabet")
                return
            ctx.stat("reserved_alphabet_inferred_alphabet_wrong_language")
            a = m.accepts_input(w)
            b = all(c in n.input_symbols for c in w) and n.accepts_input(w)
            if a == b:
                ctx.stat("tables_differ_reader_agrees")
            failure += (f"; with the inferred alphabet NFA.from_regex({s!r}) compiles but "
                        f"{'accepts' if b else 'rejects'} {w!r} wrongly")
        except InfraError:
            raise
        except Exception as e:  # noqa: BLE001
            ctx.stat("reserved_alphabet_inferred_alphabet_raises_" + type(e).__name__)
            failure += f"; with the inferred alphabet NFA.from_regex({s!r}) raises {type(e).__name__}"
    ctx.stat("reserved_alphabet_property_fails")
    ctx.prop_fail(f"{'NFA' if is_nfa else 'DFA'} over an alphabet containing {bad!r} (reserved in the regex "
                  f"syntax / white space; to_regex has no escaping): {failure}",
                  dict(describe(m, is_nfa), regex=s), FINDING_RESERVED)


def rand_reserved_source(rng) -> Tuple[Any, bool]:
    c = rng.choice(sorted(RESERVED_CHARACTERS) + WHITE_SPACE)
    alpha = rng.choice([(c, "a"), (c,), ("a", c, "b"), (c, rng.choice(sorted(RESERVED_CHARACTERS)))])
    alpha = tuple(dict.fromkeys(alpha))
    if rng.random() < 0.5:
        return gen.rand_dfa(rng, 3, alphabet=alpha, junk_rows=False), False
    return gen.rand_nfa(rng, 3, alphabet=alpha), True


# --------------------------------------------------------------------------- one source automaton
def shape_stats(ctx: Ctx, m, is_nfa: bool, s: Optional[str], origin: str):
    ctx.stat(origin)
    ctx.stat("src_nfa" if is_nfa else "src_dfa")
    ctx.stat(f"src_states_{len(m.states)}")
    if m.initial_state in m.final_states:
        ctx.stat("initial_is_final")
    if len(m.final_states) > 1:
        ctx.stat("several_final_states")
    table = as_nfa_table(m, is_nfa)
    # reachable / co-reachable
    reach = {m.initial_state}
    work = [m.initial_state]
    while work:
        q = work.pop()
        for ts in table.get(q, {}).values():
            for t in ts:
                if t not in reach:
                    reach.add(t)
                    work.append(t)
    if len(reach) < len(m.states):
        ctx.stat("has_unreachable_state")
    live = set(m.final_states)
    changed = True
    while changed:
        changed = False
        for q, row in table.items():
            if q not in live and any(t in live for ts in row.values() for t in ts):
                live.add(q)
                changed = True
    if any(q not in live for q in reach):
        ctx.stat("has_reachable_dead_state")
    if is_nfa:
        eps_edges = sum(len(row.get("", ())) for row in table.values())
        if eps_edges:
            ctx.stat("nfa_with_eps")
        if eps_edges >= 3:
            ctx.stat("nfa_with_3plus_eps_edges")
        # ε-cycle?
        for q in table:
            c = closure(table, table.get(q, {}).get("", set()))
            if q in c:
                ctx.stat("nfa_with_eps_cycle")
                break
        # parallel ε and symbol edge / two symbols on the same pair
        for q, row in table.items():
            tg = [t for ts in row.values() for t in ts]
            if len(tg) != len(set(tg)):
                ctx.stat("parallel_edges_merged")
                break
    if isinstance(s, str):
        ctx.stat("regex_len_%s" % ("0" if len(s) == 0 else "1-5" if len(s) <= 5 else "6-20" if len(s) <= 20
                                   else "21-100" if len(s) <= 100 else "100+"))
        if "()" in s:
            ctx.stat("regex_has_explicit_empty_string")
        if "?" in s:
            ctx.stat("regex_has_option")
        if ")*" in s:
            ctx.stat("regex_has_bracketed_star")
        if "|(" in s:
            ctx.stat("regex_has_bracketed_union_operand")
    elif s is None:
        ctx.stat("regex_is_None")


def check_source(ctx: Ctx, m, is_nfa: bool, origin: str, all_ties: bool = False):
    case = describe(m, is_nfa)
    # --- the property itself, on the real code
    s_prop, failure = property_on_real_code(ctx, m, is_nfa)
    nontrivial = (failure is None and isinstance(s_prop, str) and len(m.states) >= 2
                  and language_nonempty(m, is_nfa) and any(c in s_prop for c in "*|?"))
    if is_nfa:
        enc, _, _ = enc_nfa(m, sy=CODE)
    else:
        enc, _, _ = enc_dfa(m, sy=CODE)
    ctx.case((case["kind"], enc) if nontrivial else None)
    shape_stats(ctx, m, is_nfa, s_prop, origin)
    if failure is not None:
        ctx.prop_fail(f"{case['kind']}: {failure}", dict(case, regex=s_prop), None)
    correspondence(ctx, m, is_nfa, case, failure is not None, all_ties)


def correspondence(ctx: Ctx, m, is_nfa: bool, case: dict, prop_failed: bool, all_ties: bool):
    """Model ↔ code on one source: GNFA_BUILD, GNFA_TO_REGEX (real tie-breaks), optionally every tie-break.
    Differences are not reported when the property already failed on this input (one report per input)."""
    drv = ctx.driver("drv_gnfa")
    if is_nfa:
        enc, st, _ = enc_nfa(m, sy=CODE)
    else:
        enc, st, _ = enc_dfa(m, sy=CODE)
    # --- GNFA_BUILD
    natmap = [st(k) for k in range(len(st.order) + 3)]
    rb = call(lambda: (GNFA.from_nfa if is_nfa else GNFA.from_dfa)(m))
    line = drv.ask(toks("GNFA_FROM_NFA" if is_nfa else "GNFA_FROM_DFA", enc, len(natmap), natmap))
    t = Toks(line)
    mb = t.res(lambda: read_gnfa(t))
    ib = ("ok", gnfa_plain(rb[1], st)) if rb[0] == "ok" else rb
    if ib != mb:
        if not prop_failed:
            ctx.corr_diff("GNFA_BUILD", case, ib, mb)
        return
    if rb[0] != "ok":
        ctx.stat("gnfa_build_both_raise_" + rb[1])
        return
    g = rb[1]
    # --- GNFA_TO_REGEX with the real tie-breaks
    with RipRecorder() as rec:
        rr = call(g.to_regex)
    enc_g, gst = enc_gnfa(g)
    rips = [gst(q) for q in rec.rips]
    line = drv.ask(toks("GNFA_TO_REGEX", enc_g, len(rips), rips))
    t = Toks(line)

    def rd():
        t.expect("rips")
        r = t.ints()
        return (r, read_label(t))
    mr = t.res(rd)
    ir = ("ok", (rips, rr[1])) if rr[0] == "ok" else rr
    if ir != mr:
        if not prop_failed:
            ctx.corr_diff("GNFA_TO_REGEX", dict(case, rips=[repr(q) for q in rec.rips]), ir, mr)
        return
    if ctx.evaluations % 499 == 1:
        ctx.sample(dict(case, regex=rr[1] if rr[0] == "ok" else rr, rips=[repr(q) for q in rec.rips],
                        model_line=line[:300]))
    # --- every tie-break (small cases)
    if all_ties:
        line = drv.ask(toks("GNFA_TO_REGEX_ALL", enc_g))
        t = Toks(line)
        outs = t.many(lambda: t.res(lambda: read_label(t)))
        ctx.stat("all_tie_breaks_checked")
        ctx.stat("all_tie_breaks_distinct_results", len({repr(o) for o in outs}))
        if rr not in outs:
            if not prop_failed:
                ctx.corr_diff("GNFA_TO_REGEX_ALL", case, rr, outs)


# --------------------------------------------------------------------------- family `wordgraph`
_GROUP3 = _pyre.compile(r"\([^()|]*(\|[^()|]*){2,}\)")       # innermost bracket group with ≥3 alternatives
_GROUP3_IN_CONCAT = _pyre.compile(r"([^|(]\([^()|]*(\|[^()|]*){2,}\))|(\([^()|]*(\|[^()|]*){2,}\)[^|)*?])")
_OPTION_OF_COMPOSITE = _pyre.compile(r"\)\?")
_STAR_OF_COMPOSITE = _pyre.compile(r"\)\*")


def wordgraph_stats(ctx: Ctx, info: dict, rips: List[Any], s: Optional[str]):
    """Distribution of the family: shape features, naming style, the elimination order that really happened
    (by the role of the ripped states) and the structure of the returned string."""
    ctx.stat("wordgraph_names_" + info["names"])
    ctx.stat(f"wordgraph_hubs_{info['n_hubs']}")
    ctx.stat(f"wordgraph_paths_{min(info['n_paths'], 8)}{'+' if info['n_paths'] >= 8 else ''}")
    ctx.stat(f"wordgraph_longest_word_{info['max_word']}")
    for f in info["shape"]:
        ctx.stat("wordgraph_shape_" + f)
    roles = [info["role"].get(q, "?") for q in rips]
    if roles:
        ctx.stat("wordgraph_first_rip_" + roles[0])
        ctx.stat("wordgraph_last_rip_" + roles[-1])
        if "inner" in roles and "hub" in roles:
            if roles.index("hub") < len(roles) - 1 - roles[::-1].index("inner"):
                ctx.stat("wordgraph_order_a_hub_before_an_inner_state")
            else:
                ctx.stat("wordgraph_order_all_inner_states_before_the_hubs")
        if "leaf" in roles and "hub" in roles:
            if roles.index("leaf") < len(roles) - 1 - roles[::-1].index("hub"):
                ctx.stat("wordgraph_order_a_leaf_before_a_hub")
            else:
                ctx.stat("wordgraph_order_all_hubs_before_the_leaves")
    if isinstance(s, str):
        if _GROUP3.search(s):
            ctx.stat("wordgraph_regex_group_of_3plus_alternatives")
        if _GROUP3_IN_CONCAT.search(s):
            ctx.stat("wordgraph_regex_group_of_3plus_inside_concatenation")
        if _OPTION_OF_COMPOSITE.search(s):
            ctx.stat("wordgraph_regex_option_of_bracketed_operand")
        if _STAR_OF_COMPOSITE.search(s):
            ctx.stat("wordgraph_regex_star_of_bracketed_operand")
        if _pyre.search(r"[^()|*?][^()|*?]+\|", s) or _pyre.search(r"\|[^()|*?][^()|*?]+", s):
            ctx.stat("wordgraph_regex_multi_symbol_alternative")


def check_wordgraph(ctx: Ctx, rng, origin: str, with_model: bool) -> bool:
    """One source of the family: the property on the real code (the oracle of `property_on_real_code`, word
    re-confirmed through accepts_input), optionally also model ↔ code.  Returns True when the property failed."""
    m, is_nfa, info = wordgraph_source(rng)
    case = describe(m, is_nfa)
    with RipRecorder() as rec:
        s, failure = property_on_real_code(ctx, m, is_nfa)
    nontrivial = (failure is None and isinstance(s, str) and len(m.states) >= 2
                  and language_nonempty(m, is_nfa) and any(c in s for c in "*|?"))
    ctx.case((origin, repr(m)) if nontrivial else None)
    shape_stats(ctx, m, is_nfa, s, origin)
    wordgraph_stats(ctx, info, rec.rips, s)
    if failure is not None:
        ctx.stat("wordgraph_property_fails")
        ctx.prop_fail(f"{case['kind']} (family wordgraph: {', '.join(info['shape']) or 'plain chain'}; names "
                      f"{info['names']}; real rip order {[repr(q) for q in rec.rips]}): {failure}",
                      dict(case, regex=s, family="wordgraph"), None)
    if with_model:
        ctx.stat("wordgraph_with_model_correspondence")
        correspondence(ctx, m, is_nfa, case, failure is not None, False)
    return failure is not None


# --------------------------------------------------------------------------- hand-made GNFAs
LABEL_POOL = ["", "a", "b", "ab", "a|b", "a*", "(a|b)*", "a?", "(ab)?", "a|b|a", "(a|b)a", "a(b|a)", "()",
              "b*a", "(a|b)|a", "a|(b)", "(())?", "()*", "(a)", "((a|b))", "a?|b", "(a|b)?", "ba*b|a"]


def rand_direct_gnfa(rng, n_inner: int) -> dict:
    inner = list(range(n_inner))
    rng.shuffle(inner)
    qi, qf = n_inner, n_inner + 1
    if rng.random() < 0.3:
        qi, qf = qf, qi
    states = inner + [qi, qf]
    p_none = rng.choice([0.2, 0.4, 0.6])

    def lab():
        if rng.random() < p_none:
            return None
        if rng.random() < 0.5:
            return rng.choice(["", "a", "b", "a|b", "ab"])
        return rng.choice(LABEL_POOL)
    trans = {}
    for p in states:
        if p == qf:
            continue
        row = {}
        tg = [q for q in states if q != qi]
        rng.shuffle(tg)
        for q in tg:
            row[q] = lab()
        trans[p] = row
    keys = list(trans)
    rng.shuffle(keys)
    return dict(states=set(states), input_symbols={"a", "b"}, transitions={k: trans[k] for k in keys},
                initial_state=qi, final_state=qf)


def check_direct(ctx: Ctx, params: dict, origin: str):
    """GNFA(**params) then to_regex(): constructor verdict and result, real vs model."""
    drv = ctx.driver("drv_gnfa")
    case = dict(kind="GNFA", params=repr(params))
    ctx.case(None)
    ctx.stat(origin)
    rc = call(lambda: GNFA(**params))
    enc, st = enc_gnfa_def(params["states"], params["input_symbols"], params["transitions"],
                           params["initial_state"], params["final_state"])
    line = drv.ask(toks("GNFA_VALIDATE", enc))
    t = Toks(line)
    mv = t.res(lambda: None)
    iv = ("ok", None) if rc[0] == "ok" else rc
    ctx.stat("gnfa_ctor_" + (rc[1] if rc[0] == "err" else "ok"))
    if iv != mv:
        ctx.corr_diff("GNFA_VALIDATE", case, iv, mv)
        return
    if rc[0] != "ok":
        return
    g = rc[1]
    with RipRecorder() as rec:
        rr = call(g.to_regex)
    rips = [st(q) for q in rec.rips]
    line = drv.ask(toks("GNFA_TO_REGEX", enc, len(rips), rips))
    t = Toks(line)

    def rd():
        t.expect("rips")
        r = t.ints()
        return (r, read_label(t))
    mr = t.res(rd)
    if rr[0] == "ok":
        ir = ("ok", (rips, rr[1]))
        ctx.stat("direct_to_regex_ok")
    else:
        ir = rr
        ctx.stat("direct_to_regex_" + rr[1])
        if mr[0] == "ok":
            pass
    if ir != mr:
        ctx.corr_diff("GNFA_DIRECT", dict(case, rips=[repr(q) for q in rec.rips]), ir, mr)


BRACE_LABELS = ["a{1,1}", "{|,|}", "a{,}", "{", "}", "a{1,a}", "a{2,1}", "a{1,2}", "{1,2}", "a{-1,2}", "a{ 1,2}",
                "a{1,2", "(a){,1}", "a|{", "a{,}}", "1,", "a{1,2}{1,2}", "", "a", "()", "a{1_0,}", ","]


def rand_brace_gnfa(rng) -> dict:
    """GNFA definitions over an alphabet containing `{ , }` and digits: labels on which `re._validate`
    runs the quantifier rule (ValueError of int(), InvalidRegexError of the bound checks, valid quantifiers)."""
    n_inner = rng.randint(0, 2)
    inner = list(range(n_inner))
    qi, qf = n_inner, n_inner + 1
    states = inner + [qi, qf]
    trans = {}
    for p in states:
        if p == qf:
            continue
        trans[p] = {q: (None if rng.random() < 0.4 else rng.choice(BRACE_LABELS)) for q in states if q != qi}
    return dict(states=set(states), input_symbols=set(rng.choice(["a{},12", "a{,}1", "{},a12-_ "])),
                transitions=trans, initial_state=qi, final_state=qf)


RE_VALIDATE_CHARS = "ab()|*?&+^. \t\n{},12-_"


def check_re_validate(ctx: Ctx, s: str):
    """`re._validate(s)` (True / False / escaping exception) vs the model `reValidate`; on strings without
    `{` also vs the stand-alone model `simpleRxValid` that the theorems of Props/C12.lean mention."""
    import automata.regex.regex as re_mod
    drv = ctx.driver("drv_gnfa")
    ctx.case(None)
    impl = call(lambda: bool(re_mod._validate(s)))
    ctx.stat("re_validate_" + (str(impl[1])))

    def ask(cmd):
        t = Toks(drv.ask(toks(cmd, enc_str(s))))
        return t.res(lambda: t.next() == "1")
    mod = ask("RX_VALID")
    if impl != mod:
        ctx.corr_diff("RE_VALIDATE", dict(s=s), impl, mod)
    if "{" not in s:
        mod2 = ask("RX_VALID_SIMPLE")
        if impl != mod2:
            ctx.corr_diff("RE_VALIDATE_SIMPLE", dict(s=s), impl, mod2)


BAD_LABELS = ["a|", "|a", "(", ")", "a)(", "*a", "a||b", "(|a)", "?", "z", "a z", "a+", "(a", "a**", "a?*", "()(",
              "a b", " ", "a\tb"]


def mutate_def(rng, params: dict) -> dict:
    """One corruption of a (usually valid) GNFA definition."""
    p = dict(params)
    p["states"] = set(p["states"])
    p["transitions"] = {k: dict(r) for k, r in p["transitions"].items()}
    tr = p["transitions"]
    keys = list(tr)
    kind = rng.randrange(12)
    if kind == 0 and keys:
        k = rng.choice(keys)
        if tr[k]:
            del tr[k][rng.choice(list(tr[k]))]
    elif kind == 1 and keys:
        tr[rng.choice(keys)]["ghost"] = rng.choice([None, "a", ""])
    elif kind == 2 and keys:
        k = rng.choice(keys)
        if tr[k]:
            tr[k][rng.choice(list(tr[k]))] = rng.choice(BAD_LABELS)
    elif kind == 3:
        tr[p["final_state"]] = rng.choice([{}, {p["final_state"]: None}, {q: "a" for q in list(p["states"])[:2]}])
    elif kind == 4:
        tr.pop(p["initial_state"], None)
    elif kind == 5 and keys:
        tr.pop(rng.choice(keys), None)
    elif kind == 6:
        p["initial_state"] = "ghost"
    elif kind == 7:
        p["final_state"] = "ghost"
    elif kind == 8 and keys:
        tr[rng.choice(keys)][p["initial_state"]] = rng.choice([None, "a", ""])
    elif kind == 9:
        p["final_state"] = p["initial_state"]
    elif kind == 10:
        tr["ghost"] = {q: None for q in p["states"] if q != p["initial_state"]}
    elif kind == 11 and keys:
        k = rng.choice(keys)
        if tr[k]:
            tr[k][rng.choice(list(tr[k]))] = rng.choice(LABEL_POOL)
    return p


# --------------------------------------------------------------------------- generators of sources
# literal alphabets: letters, digits, 'é', and characters that look special but are NOT reserved in the
# library's regex syntax (',' and '-' — ',' only means something inside `{m,n}`), the astral '𝒳' (U+1D4B3)
C12_ALPHABETS = list(gen.ALPHABETS[:5]) + [(",", "-"), ("7", "a", ","), ("𝒳", "a"), ("-", "𝒳", "7", ",")]


def sparse_source(rng) -> Tuple[Any, bool]:
    """A source with 6–8 states and few transitions (a random spanning path from the initial state, a few
    extra / back / ε edges): long elimination runs whose regex stays small enough for the oracle."""
    n = rng.randint(6, 8)
    names = gen.name_pool(rng, n)[:n]
    n = len(names)
    sy = list(rng.choice(C12_ALPHABETS))
    order = list(names)
    rng.shuffle(order)
    is_nfa = rng.random() < 0.6
    edges: List[Tuple[Any, str, Any]] = []
    for p, q in zip(order, order[1:]):
        if rng.random() < 0.85:
            edges.append((p, rng.choice(sy), q))
    for _ in range(rng.randint(1, 4)):
        edges.append((rng.choice(order), rng.choice(sy), rng.choice(order)))
    if is_nfa:
        for _ in range(rng.randint(0, 3)):
            edges.append((rng.choice(order), "", rng.choice(order)))
    rng.shuffle(edges)
    finals = {order[-1]} | {q for q in order if rng.random() < 0.15}
    if is_nfa:
        tn: Dict[Any, Dict[str, set]] = {}
        for p, a, q in edges:
            tn.setdefault(p, {}).setdefault(a, set()).add(q)
        tn.setdefault(order[0], {})
        return NFA(states=set(names), input_symbols=set(sy), transitions=tn, initial_state=order[0],
                   final_states=finals), True
    td: Dict[Any, Dict[str, Any]] = {q: {} for q in names}
    for p, a, q in edges:
        td[p].setdefault(a, q)
    keys = list(td)
    rng.shuffle(keys)
    return DFA(states=set(names), input_symbols=set(sy), transitions={k: td[k] for k in keys},
               initial_state=order[0], final_states=finals, allow_partial=True), False


def check_property_only(ctx: Ctx, m, is_nfa: bool, origin: str):
    """The property on the real code, no model run (sources too large for the all-pairs driver protocol
    to be worth it; the theorems are size-independent)."""
    s, failure = property_on_real_code(ctx, m, is_nfa)
    nontrivial = (failure is None and isinstance(s, str) and language_nonempty(m, is_nfa)
                  and any(c in s for c in "*|?"))
    ctx.case((origin, repr(m)) if nontrivial else None)
    shape_stats(ctx, m, is_nfa, s, origin)
    if failure is not None:
        ctx.prop_fail(f"{'NFA' if is_nfa else 'DFA'}: {failure}", dict(describe(m, is_nfa), regex=s), None)


def eps_heavy_nfa(rng, max_states: int = 4) -> NFA:
    """NFA with dense parallel / cyclic ε-transitions and few symbol transitions."""
    n = rng.randint(2, max_states)
    names = gen.name_pool(rng, n)[:n]
    sy = list(rng.choice([("a",), ("a", "b"), ("0", "1"), (",", "7"), ("-", "𝒳")]))
    p_eps = rng.choice([0.3, 0.5, 0.7])
    p_sym = rng.choice([0.1, 0.25, 0.4])
    trans: Dict[Any, Dict[str, set]] = {}
    for q in names:
        row: Dict[str, set] = {}
        items = []
        for a in sy:
            ts = {t for t in names if rng.random() < p_sym}
            if ts:
                items.append((a, ts))
        ts = {t for t in names if rng.random() < p_eps}
        if ts:
            items.append(("", ts))
        rng.shuffle(items)
        for a, ts in items:
            row[a] = ts
        trans[q] = row
    init = rng.choice(names)
    shape = rng.random()
    if shape < 0.25:
        finals = {init}
    elif shape < 0.5:
        finals = {q for q in names if rng.random() < 0.6} | {rng.choice(names)}
    else:
        finals = {rng.choice(names)}
    keys = list(names)
    rng.shuffle(keys)
    st = list(names)
    rng.shuffle(st)
    return NFA(states=set(st), input_symbols=set(sy), transitions={k: trans[k] for k in keys},
               initial_state=init, final_states=finals)


def with_junk_row(rng, m, is_nfa: bool):
    """The same automaton with an extra transition row keyed by a name that is not a state
    (accepted by the library's validation; from_dfa / from_nfa must ignore it)."""
    junk = rng.choice(["junk", ("j", 0), -7, frozenset({"j"})])
    if junk in m.states:
        return m
    sy = sorted(m.input_symbols)
    names = list(m.states)
    tr = {k: dict(r) for k, r in m.transitions.items()}
    if is_nfa:
        row = {a: {rng.choice(names)} for a in sy if rng.random() < 0.6}
        if rng.random() < 0.5:
            row[""] = {rng.choice(names)}
        items = list(tr.items())
        items.insert(rng.randrange(len(items) + 1), (junk, row))
        return NFA(states=set(m.states), input_symbols=set(m.input_symbols), transitions=dict(items),
                   initial_state=m.initial_state, final_states=set(m.final_states))
    row = {a: rng.choice(names) for a in sy if m.allow_partial is False or rng.random() < 0.6}
    items = list(tr.items())
    items.insert(rng.randrange(len(items) + 1), (junk, row))
    return DFA(states=set(m.states), input_symbols=set(m.input_symbols), transitions=dict(items),
               initial_state=m.initial_state, final_states=set(m.final_states), allow_partial=m.allow_partial)


def all_eps_nfas_3() -> Any:
    """Every NFA with states {0,1,2}, initial 0, ε-edges any subset of the 9 pairs, at most one `a`-edge,
    every final set containing a state other than... (all 7 non-empty final sets)."""
    states = [0, 1, 2]
    pairs = [(p, q) for p in states for q in states]
    for mask in range(2 ** 9):
        eps = [pairs[i] for i in range(9) if (mask >> i) & 1]
        for a_edge in [None] + pairs:
            trans: Dict[int, Dict[str, set]] = {q: {} for q in states}
            for p, q in eps:
                trans[p].setdefault("", set()).add(q)
            if a_edge is not None:
                trans[a_edge[0]].setdefault("a", set()).add(a_edge[1])
            for fm in (1, 2, 4, 6, 7, 3):
                yield NFA(states=set(states), input_symbols={"a"}, transitions=trans, initial_state=0,
                          final_states={q for q in states if (fm >> q) & 1})


# --------------------------------------------------------------------------- corpus
def corpus() -> List[Tuple[Any, bool, str]]:
    out = []
    # F8 (fixed by 75cecc0): empty concatenation next to `?` / `|`
    out.append((NFA(states={0, 1, 2}, input_symbols={"a"}, transitions={0: {"": {1, 2}}, 1: {"": {2}}},
                    initial_state=0, final_states={2}), True, "F8 '?'"))
    out.append((NFA(states={"s", "t", "u"}, input_symbols={"a"},
                    transitions={"s": {"a": {"s", "t"}}, "t": {"": {"u"}}}, initial_state="s",
                    final_states={"t", "u"}), True, "F8 a*a?"))
    out.append((NFA(states={0, 1}, input_symbols={"a"}, transitions={0: {"": {1}, "a": {0}}, 1: {"": {0}}},
                    initial_state=0, final_states={0, 1}), True, "F8 (|a)*"))
    out.append((NFA(states={0, 1}, input_symbols={"a"}, transitions={0: {"": {1}}},
                    initial_state=0, final_states={0, 1}), True, "F8 two-state '?'"))
    # m25: a two-character loop label must be bracketed before `*`
    out.append((DFA(states={0, 1}, input_symbols={"a", "b"}, transitions={0: {"a": 1}, 1: {"b": 0}},
                    initial_state=0, final_states={0}, allow_partial=True), False, "m25 (ab)*"))
    out.append((DFA(states={0, 1, 2}, input_symbols={"a", "b"},
                    transitions={0: {"a": 1, "b": 2}, 1: {"a": 0, "b": 2}, 2: {"a": 2, "b": 0}},
                    initial_state=0, final_states={0, 2}), False, "3-state complete DFA"))
    # union inside a concatenation needs brackets
    out.append((DFA(states={0, 1, 2}, input_symbols={"a", "b"},
                    transitions={0: {"a": 1, "b": 1}, 1: {"a": 2, "b": 2}, 2: {}},
                    initial_state=0, final_states={2}, allow_partial=True), False, "(a|b)(a|b)"))
    # names that collide with the fresh state ids 0,1,2…
    out.append((DFA(states={0, 1, 3}, input_symbols={"a"}, transitions={0: {"a": 1}, 1: {"a": 3}, 3: {"a": 0}},
                    initial_state=0, final_states={3}), False, "names 0,1,3"))
    out.append((NFA(states={2, 4, "x"}, input_symbols={"a", "b"},
                    transitions={2: {"a": {4, "x"}, "": {4}}, 4: {"b": {2}, "a": {4}}, "x": {"": {2}}},
                    initial_state=2, final_states={"x", 4}), True, "mixed names"))
    # composite operands (family wordgraph): a by-pass added to a label that is already a concatenation
    # containing a bracketed 3-way union; an option / a star of a multi-symbol concatenation
    out.append((DFA(states={0, 1, 2, 3, 4}, input_symbols={"a", "b", "c"},
                    transitions={0: {"c": 1, "b": 4}, 1: {"a": 2, "b": 2, "c": 2}, 2: {"a": 3}, 3: {}, 4: {}},
                    initial_state=0, final_states={3, 4}, allow_partial=True), False, "c(a|b|c)a | b, leaf last"))
    out.append((DFA(states={0, 1, 2, 3, 4}, input_symbols={"a", "b", "c"},
                    transitions={4: {"c": 3, "b": 0}, 3: {"a": 2, "b": 2, "c": 2}, 2: {"a": 1}, 1: {}, 0: {}},
                    initial_state=4, final_states={1, 0}, allow_partial=True), False, "c(a|b|c)a | b, leaf first"))
    out.append((NFA(states={0, 1, 2, 3}, input_symbols={"a", "b"},
                    transitions={0: {"a": {1}, "": {2}}, 1: {"b": {3}}, 2: {"": {3}}, 3: {}},
                    initial_state=0, final_states={3}), True, "(ab)? by two λ-steps, word first"))
    out.append((NFA(states={0, 1, 2, 3}, input_symbols={"a", "b"},
                    transitions={0: {"a": {2}, "": {1}}, 2: {"b": {3}}, 1: {"": {3}}, 3: {"": {0}}},
                    initial_state=0, final_states={3}), True, "((ab)?)* by λ-steps, by-pass first"))
    out.append((NFA(states={0, 1, 2, 3, 4}, input_symbols={"a", "b", "c"},
                    transitions={0: {"a": {1}, "": {4}}, 1: {"b": {2}, "c": {2}, "a": {2}}, 2: {"c": {3}},
                                 4: {"b": {3}}, 3: {}},
                    initial_state=0, final_states={3}), True, "a(b|c|a)c | λb"))
    # single state, final = initial, ε self-loop
    out.append((NFA(states={0}, input_symbols={"a"}, transitions={0: {"": {0}, "a": {0}}},
                    initial_state=0, final_states={0}), True, "ε self-loop"))
    return out


# --------------------------------------------------------------------------- run
def run(ctx: Ctx):
    rng = ctx.rng
    thorough = ctx.thorough()
    drv = ctx.driver("drv_gnfa")
    # 0. corpus
    for m, is_nfa, _why in corpus():
        check_source(ctx, m, is_nfa, "corpus", all_ties=True)
    # 1. bounded-exhaustive
    for n_states in (1, 2):
        for d in gen.all_dfas(n_states, ("a", "b")):
            check_source(ctx, d, False, "exhaustive_dfa", all_ties=True)
    ctx.exhaustive("all DFAs (complete and partial, all final sets) with ≤2 states over {a,b}, all tie-breaks")
    for n_states, alpha in ((1, ("a", "b")), (2, ("a",))):
        for n in gen.all_nfas(n_states, alpha):
            check_source(ctx, n, True, "exhaustive_nfa", all_ties=True)
    ctx.exhaustive("all NFAs with ε: 1 state over {a,b}, 2 states over {a}, all tie-breaks")
    if thorough:
        for n in gen.all_nfas(2, ("a", "b")):
            check_source(ctx, n, True, "exhaustive_nfa_2ab", all_ties=False)
        ctx.exhaustive("all NFAs with ε with 2 states over {a,b}")
        for n in all_eps_nfas_3():
            check_source(ctx, n, True, "exhaustive_eps3", all_ties=False)
        ctx.exhaustive("all 3-state NFAs over {a} with any set of ε-edges and at most one a-edge, 6 final sets")
    else:
        # a deterministic slice of the 3-state ε-graphs
        for i, n in enumerate(all_eps_nfas_3()):
            if i % 97 == ctx.seed % 97:
                check_source(ctx, n, True, "slice_eps3", all_ties=True)
    # 2. shaped random sources
    big = 5 if thorough else 4
    for i in range(ctx.budget(1500, 12000)):
        check_source(ctx, eps_heavy_nfa(rng, big), True, "random_eps_heavy_nfa", all_ties=(i % 4 == 0))
    for i in range(ctx.budget(1500, 12000)):
        n = gen.rand_nfa(rng, big, alphabet=rng.choice(C12_ALPHABETS), min_states=1)
        if i % 8 == 3:
            n = with_junk_row(rng, n, True)
            ctx.stat("source_with_junk_row")
        check_source(ctx, n, True, "random_nfa", all_ties=(i % 4 == 0))
    for i in range(ctx.budget(1500, 12000)):
        d = gen.rand_dfa(rng, big, alphabet=rng.choice(C12_ALPHABETS))
        if i % 8 == 3:
            d = with_junk_row(rng, d, False)
            ctx.stat("source_with_junk_row")
        check_source(ctx, d, False, "random_dfa", all_ties=(i % 4 == 0))
    # 3. hand-made GNFAs (compound labels) and malformed definitions
    for _ in range(ctx.budget(1200, 15000)):
        check_direct(ctx, rand_direct_gnfa(rng, rng.randint(0, 3)), "direct_gnfa")
    for _ in range(ctx.budget(1200, 15000)):
        base = rand_direct_gnfa(rng, rng.randint(0, 2))
        p = mutate_def(rng, base)
        if rng.random() < 0.3:
            p = mutate_def(rng, p)
        check_direct(ctx, p, "malformed_gnfa")
    for _ in range(ctx.budget(300, 4000)):
        check_direct(ctx, rand_brace_gnfa(rng), "brace_gnfa")
    # 3b. re._validate itself: the shared model (C10 lexer + validate_tokens) and the stand-alone one
    for s in BRACE_LABELS + BAD_LABELS + LABEL_POOL:
        check_re_validate(ctx, s)
    for _ in range(ctx.budget(1500, 20000)):
        check_re_validate(ctx, "".join(rng.choice(RE_VALIDATE_CHARS) for _ in range(rng.randint(0, 9))))
    # 4. _isbracket_req
    for _ in range(ctx.budget(500, 10000)):
        s = "".join(rng.choice("ab()|*?") for _ in range(rng.randint(0, 10)))
        impl = bool(GNFA._isbracket_req(s))
        mod = drv.ask(toks("ISBRACKET", enc_str(s))) == "1"
        ctx.case(None)
        ctx.stat("isbracket_" + str(impl))
        if impl != mod:
            ctx.corr_diff("ISBRACKET", dict(s=s), impl, mod)
    # 5. sparse sources with 6–8 states: the property on the real code only
    for _ in range(ctx.budget(150, 2000)):
        m, is_nfa = sparse_source(rng)
        check_property_only(ctx, m, is_nfa, "sparse_6to8_states")
    # 5b. family wordgraph: hubs joined by parallel word paths, permuted names (composite operands of a rip);
    #     every 8th source also model ↔ code
    for i in range(ctx.budget(2400, 30000)):
        check_wordgraph(ctx, rng, "wordgraph", with_model=(i % 8 == 0))
    # 6. alphabets with a reserved regex character / white space: inside the property's domain, the
    #    property FAILS there (open finding, see FINDING_RESERVED); same oracle as everywhere else
    for m, is_nfa in reserved_corpus():
        check_reserved_source(ctx, m, is_nfa, "reserved_alphabet_corpus")
    for _ in range(ctx.budget(80, 800)):
        m, is_nfa = rand_reserved_source(rng)
        check_reserved_source(ctx, m, is_nfa, "reserved_alphabet_random")


def search(ctx: Ctx):
    """Deeper failing-input search, property only: a large sweep of the wordgraph family (composite operands,
    every elimination order), then larger random sources."""
    rng = ctx.rng
    for _ in range(ctx.budget(8000, 100000)):
        if check_wordgraph(ctx, rng, "search_wordgraph", with_model=False) and ctx.n_prop_fails >= 5:
            return
    for _ in range(ctx.budget(3000, 30000)):
        k = rng.randrange(3)
        if k == 0:
            m, is_nfa = eps_heavy_nfa(rng, 5), True
        elif k == 1:
            m, is_nfa = gen.rand_nfa(rng, 5, alphabet=rng.choice(C12_ALPHABETS)), True
        else:
            m, is_nfa = gen.rand_dfa(rng, 5, alphabet=rng.choice(C12_ALPHABETS)), False
        s, failure = property_on_real_code(ctx, m, is_nfa)
        ctx.case(None)
        ctx.stat("search")
        if failure is not None:
            ctx.prop_fail(f"{'NFA' if is_nfa else 'DFA'}: {failure}", dict(describe(m, is_nfa), regex=s), None)
            if ctx.n_prop_fails >= 5:
                return


def replay(ctx: Ctx, path: str) -> int:
    data = json.load(open(path))
    rp = data.get("replay", data)
    env = {"DFA": DFA, "NFA": NFA, "frozenset": frozenset}
    if "automaton" not in rp:
        print("replay: this replay file names a broken obligation / correspondence, not a failing input")
        return 0
    m = eval(rp["automaton"], env)  # repr() of the automaton, produced by this harness
    s, failure = property_on_real_code(ctx, m, rp["kind"] == "NFA")
    if failure is not None:
        print(f"VIOLATION property=C12 replay={path}")
        print(f"  {rp['kind']}: {failure}")
        return 1
    print(f"replay: property holds on this input now (to_regex() = {s!r})")
    return 0
