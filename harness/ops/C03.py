"""C03 — Turing-machine simulation is faithful step by step (DTM, NTM, multitape).

Correspondence (real code vs. the Lean model through drv_tm, exact comparison):
  DTM_STEPS n   first n next() calls of DTM.read_input_stepwise: every yielded configuration
                (state, head index, stored cells — cell by cell) and how the generator stands
                (returned / raised <class> / still running);
  NTM_LEVELS n  the same for NTM (each yield is a set of configurations, compared as sets);
  MNTM_VISIT n  the same for MNTM (yield order exactly);
  *_VALIDATE    exception class of validate() on valid and on mutated (invalid) definitions.
Property oracle (independent of the model and of TMTape: a textbook interpreter on dict tapes
that are blank everywhere else; configurations are compared *by head-relative view*):
  DTM   k-th yield = k-fold transition function of the start configuration, the generator
        returns exactly at the first final state and raises RejectionException exactly at the
        first configuration without an applicable row, nothing else;
  NTM   k-th yielded set = set of k-step successors; returns as soon as a level contains a
        final state, RejectionException when a level is empty;
  MNTM  the yielded sequence is block₀ block₁ … where block d is a permutation of the multiset
        of depth-d configurations (path multiplicity; the last block may be partial), returns
        at the first final configuration, RejectionException when the tree is exhausted;
  TRIPLE the same deterministic table as DTM, as NTM and as 1-tape MNTM: equal verdicts
        whenever decided within the budget, equal to the textbook verdict.
  DEEP  (round 6, harness/tm_deep.py) runs of 1000–4100 steps / over 3000 cells / 2000 cells to the left of
        the start cell by machines with closed-form behaviour, as DTM, NTM and 1-tape MNTM: every step against
        an in-place textbook run, verdict / number of yields / final configuration / accepts_input against
        the closed form and against each other.  Real code vs. reference only (no model call).
"""
from __future__ import annotations

import json
from collections import Counter

import automata.base.config as global_config
from automata.tm.dtm import DTM
from automata.tm.mntm import MNTM
from automata.tm.ntm import NTM

from harness import enc_tm as E
from harness import tm_deep as TD
from harness import tm_long as TL
from harness.common import Ctx, InfraError, call, toks

LEVEL = "proof"
RULE = ("cases = (valid DTM / NTM / MNTM, input, number n of next() calls); corpus (F11 trigger, "
        "machines leaving both tape ends), bounded-exhaustive tiny deterministic tables (2 states + 1 "
        "final, tape alphabets {0,#} / {0,1,#}, few rows, inputs ≤3) each run as DTM, as NTM and as 1-tape "
        "MNTM, then shaped random machines (≤4 states and a family with 5–6 states, L/R/N, blank writes, "
        "nondeterministic, 1–3 tapes, adversarial state-name pools, MNTM transition lists with a repeated entry "
        "and given as tuples, inputs with a symbol outside the tape alphabet), a two-tape guess-and-verify machine "
        "whose breadth-first frontier exceeds 8192 pending configurations (real run vs. reference only) "
        ", long tapes (inputs of 62–300 symbols: zig-zag programs sweeping to the far right, off the right end, back "
        "over the whole tape and off the left end, as DTM / NTM (also branching) / 1-tape MNTM, a 2-tape copy-and-return "
        "machine, shuttles that grow a 50–62-cell tape past 64 cells at both ends), "
        "long runs (machines with closed-form behaviour run for 1000–4100 steps: the library's 0^n1^n machine on "
        "n = 23–42 and on n/n±1, a binary counter on 8–10 cells that ends left of the start cell, a sweep over an input "
        "of 1500–3100 symbols, a walk of 2000+ cells into the blank region on the left observed through a budget, each "
        "as DTM, as NTM and as 1-tape MNTM; a nondeterministic walk with a frontier of two over 1000–1400 levels; real "
        "run vs. in-place reference and closed form only) "
        "and mutated invalid definitions for validate(); a case is "
        "non-trivial when at least 3 configurations are yielded; distinct = distinct (kind, definition, "
        "input, n)")
ASSUMPTIONS = [
    "symbols are single characters; state names are hashable values",
    "Python set/dict/tuple semantics are modelled (lists / association lists); NTM levels are compared as sets",
    "halting is not assumed: every observation is bounded by a number of next() calls",
]
EXPLANATION = ("Theorems C03_* state step-by-step faithfulness of the model w.r.t. the transition relation on "
               "blank-extended (head-relative) tapes for every machine, input and step count; this run ties "
               "the model to the code by differential execution and re-evaluates the property on the real "
               "code with a textbook interpreter; runs of thousands of steps / cells (size thresholds of the run: "
               "recursion depth, tape copies, left growth) are judged against closed-form answers.")

DRV = "drv_tm"


# ------------------------------------------------------------------ oracles
def _lookup_dtm(m, state, sym):
    row = m.transitions.get(state)
    if row is None:
        return None
    return row.get(sym)


def oracle_dtm(m, w, n):
    """Textbook run observed through n next() calls: [(state, view)], end."""
    blank = m.blank_symbol
    cells, head = E.ref_start(w)
    state = m.initial_state
    ys, end = [], "run"
    info = dict(left=False, right=False)
    for i in range(n):
        if i == 0:
            ys.append((state, E.view_of_ref(cells, head, blank)))
            continue
        if state in m.final_states:
            end = "ret"
            break
        r = _lookup_dtm(m, state, cells.get(head, blank))
        if r is None:
            end = "raise RejectionException"
            break
        cells, head = E.ref_apply(cells, head, r[1], r[2])
        state = r[0]
        info["left"] |= head < 0
        info["right"] |= head >= max(1, len(w))
        ys.append((state, E.view_of_ref(cells, head, blank)))
    return ys, end, info


def oracle_ntm(m, w, n):
    blank = m.blank_symbol
    cells, head = E.ref_start(w)
    level = {(m.initial_state, E.view_of_ref(cells, head, blank)): (m.initial_state, cells, head)}
    ys, end = [], "run"
    for i in range(n):
        if i == 0:
            ys.append(set(level))
            continue
        if not level:
            end = "raise RejectionException"
            break
        if any(st in m.final_states for (st, _c, _h) in level.values()):
            end = "ret"
            break
        new = {}
        for (st, c, h) in level.values():
            for r in m.transitions.get(st, {}).get(c.get(h, blank), ()):
                c2, h2 = E.ref_apply(c, h, r[1], r[2])
                new[(r[0], E.view_of_ref(c2, h2, blank))] = (r[0], c2, h2)
        level = new
        ys.append(set(level))
    return ys, end


def _mkey(state, tapes, blank):
    return (state, tuple(E.view_of_ref(c, h, blank) for (c, h) in tapes))


def oracle_mntm_check(m, w, ys, end, n, info=None):
    """Check a real MNTM observation (ys: [(state, (tape views…))], end) against textbook
    breadth-first levels with path multiplicity.  Returns a list of complaints."""
    blank = m.blank_symbol
    tapes = [E.ref_start(w)] + [({}, 0) for _ in range(m.n_tapes - 1)]
    level = [(m.initial_state, tapes)]
    wrong = []
    i = 0
    depth = 0
    accepted_at = None
    while True:
        if not level:
            break
        want = Counter(_mkey(s, t, blank) for (s, t) in level)
        if info is not None:
            info["maxlevel"] = max(info.get("maxlevel", 0), len(level))
            info["depth"] = depth
        block = ys[i:i + len(level)]
        got = Counter(block)
        if len(block) == len(level):
            if got != want:
                wrong.append(f"depth-{depth} block is not the multiset of depth-{depth} configurations")
                return wrong
        else:
            if got - want:
                wrong.append(f"partial depth-{depth} block contains a configuration that is not at depth {depth}")
                return wrong
        # acceptance inside the block: the run must stop at the first final configuration
        for j, y in enumerate(block):
            if y[0] in m.final_states:
                accepted_at = i + j
                break
        if accepted_at is not None or len(block) < len(level):
            i += len(block)
            break
        i += len(block)
        nxt = []
        for (s, t) in level:
            key = tuple(c.get(h, blank) for (c, h) in t)
            for (q, moves) in (m.transitions.get(s, {}).get(key) or ()):
                t2 = [E.ref_apply(c, h, sy, d) for (sy, d), (c, h) in zip(moves, t)]
                if info is not None:
                    for j, (_c, h) in enumerate(t2):
                        if h < 0:
                            info["left"] = True
                        if h >= (max(1, len(w)) if j == 0 else 1):
                            info["right"] = True
                nxt.append((q, t2))
        level = nxt
        depth += 1
    if accepted_at is not None:
        if len(ys) != accepted_at + 1:
            wrong.append("configurations are yielded after a final state was visited")
        elif end == "run" and len(ys) == n:
            pass
        elif end != "ret":
            wrong.append(f"final state visited but the generator ends with {end}")
    else:
        if i != len(ys):
            wrong.append("more configurations yielded than the breadth-first levels contain")
        elif not level and len(ys) < n:
            if end != "raise RejectionException":
                wrong.append(f"all branches stuck but the generator ends with {end}")
        elif not level and len(ys) == n:
            if end not in ("run", "raise RejectionException"):
                wrong.append(f"all branches stuck but the generator ends with {end}")
        else:
            if end != "run" or len(ys) != n:
                wrong.append(f"reachable configurations remain but the generator ends with {end} after {len(ys)} yields")
    return wrong


# ------------------------------------------------------------------ checks
def _describe(kind, m, w, n):
    return dict(kind=kind, machine=repr(m), word=w, n=n)


def _short(w: str) -> str:
    return repr(w) if len(w) <= 40 else f"{w[:16]!r}…{w[-8:]!r} (length {len(w)})"


def _detail(w: str, n: int, **parts):
    """Observations kept in a replay file for the reader (replay() re-runs machine/word/n and does not use
    them): left out for long runs, where they are megabytes of cells."""
    if n * (len(w) + 1) > 4000:
        return dict(detail=f"{n} observed configurations of a tape of {len(w)}+ cells left out; re-run the replay")
    return {k: (v() if callable(v) else v) for k, v in parts.items()}


def check_dtm(ctx: Ctx, m: DTM, w: str, n: int, origin: str):
    if E.skip(ctx):
        return None
    drv = ctx.driver(DRV)
    enc, st = E.enc_dtm(m)
    ys, end = E.observe(m.read_input_stepwise(w), n)
    impl = ([E.canon_cfg(c, st) for c in ys], end)
    mod = E.parse_run(drv.ask(toks("DTM_STEPS", enc, E.enc_word(w), n, 0)), E.p_cfg)
    oys, oend, info = oracle_dtm(m, w, n)
    got = [(c.state, E.view_of_tape(c.tape, m.blank_symbol)) for c in ys]
    ctx.case(("D", enc, w, n) if len(ys) >= 3 else None)
    ctx.stat(origin)
    ctx.stat("dtm_end_" + end.replace(" ", "_"))
    if any(c not in m.tape_symbols for c in w):
        ctx.stat("dtm_input_with_a_symbol_outside_the_tape_alphabet")
    if info["left"]:
        ctx.stat("dtm_head_left_of_cell0")
    if info["right"]:
        ctx.stat("dtm_head_right_of_input")
    wrong = []
    if got != oys:
        k = next((i for i, (a, b) in enumerate(zip(got, oys)) if a != b), min(len(got), len(oys)))
        wrong.append(f"configuration {k} differs from {k} applications of the transition function")
    if end != oend:
        wrong.append(f"generator ends with {end}, textbook run with {oend}")
    if any(c.tape.blank_symbol != m.blank_symbol for c in ys):
        wrong.append("a tape lost the machine's blank symbol")
    case = _describe("DTM", m, w, n)
    if wrong:
        ctx.prop_fail(f"DTM on {_short(w)} ({n} next() calls): " + "; ".join(wrong),
                      dict(case, **_detail(w, n, impl=impl, textbook=(oys, oend))), None)
    elif impl != mod:
        ctx.corr_diff("DTM_STEPS", case, impl, mod)
    if ctx.evaluations % 1499 == 1:
        ctx.sample(dict(case, yields=[repr(c) for c in ys[:6]], end=end))
    return end


def check_ntm(ctx: Ctx, m: NTM, w: str, n: int, origin: str):
    if E.skip(ctx):
        return None
    drv = ctx.driver(DRV)
    enc, st = E.enc_ntm(m)
    ys, end = E.observe(m.read_input_stepwise(w), n)
    impl = ([sorted(E.canon_cfg(c, st) for c in lvl) for lvl in ys], end)
    mys, mend = E.parse_run(drv.ask(toks("NTM_LEVELS", enc, E.enc_word(w), n, 0)),
                            lambda t: t.many(lambda: E.p_cfg(t)))
    mod = ([sorted(lvl) for lvl in mys], mend)
    oys, oend = oracle_ntm(m, w, n)
    got = [{(c.state, E.view_of_tape(c.tape, m.blank_symbol)) for c in lvl} for lvl in ys]
    ctx.case(("N", enc, w, n) if len(ys) >= 3 else None)
    ctx.stat(origin)
    ctx.stat("ntm_end_" + end.replace(" ", "_"))
    if any(c not in m.tape_symbols for c in w):
        ctx.stat("ntm_input_with_a_symbol_outside_the_tape_alphabet")
    if any(len(l) >= 2 for l in ys):
        ctx.stat("ntm_level_with_2+_configurations")
    if any(len(l) != len(g) for l, g in zip(ys, got)):
        ctx.stat("ntm_level_with_same_view_stored_differently")
    wrong = []
    if got != oys:
        k = next((i for i, (a, b) in enumerate(zip(got, oys)) if a != b), min(len(got), len(oys)))
        wrong.append(f"level {k} is not the set of {k}-step successors")
    if end != oend:
        wrong.append(f"generator ends with {end}, textbook run with {oend}")
    case = _describe("NTM", m, w, n)
    if wrong:
        ctx.prop_fail(f"NTM on {_short(w)} ({n} next() calls): " + "; ".join(wrong),
                      dict(case, **_detail(w, n, impl=impl,
                                           textbook=lambda: ([sorted(map(repr, l)) for l in oys], oend))), None)
    elif impl != mod:
        ctx.corr_diff("NTM_LEVELS", case, impl, mod)
    if ctx.evaluations % 1499 == 2:
        ctx.sample(dict(case, level_sizes=[len(l) for l in ys], end=end))
    return end


def check_mntm(ctx: Ctx, m: MNTM, w: str, n: int, origin: str):
    if E.skip(ctx):
        return None
    drv = ctx.driver(DRV)
    enc, st = E.enc_mntm(m)
    ys, end = E.observe(m.read_input_stepwise(w), n)
    wrong = []
    cfgs = []
    for y in ys:
        if not isinstance(y, (set, frozenset)) or len(y) != 1:
            wrong.append("a yielded value is not a singleton set of configurations")
            break
        cfgs.append(next(iter(y)))
    impl = ([E.canon_mcfg(c, st) for c in cfgs], end)
    mod = E.parse_run(drv.ask(toks("MNTM_VISIT", enc, E.enc_word(w), n, 0)), E.p_mcfg)
    got = [(c.state, tuple(E.view_of_tape(t, m.blank_symbol) for t in c.tapes)) for c in cfgs]
    info = {}
    if not wrong:
        if end.startswith("raise ") and end != "raise RejectionException":
            wrong.append(f"crash {end[6:]}")
        else:
            wrong += oracle_mntm_check(m, w, got, end, n, info)
    if info.get("maxlevel", 0) >= 2:
        ctx.stat("mntm_level_with_2+_configurations")
    if info.get("depth", 0) >= 3:
        ctx.stat("mntm_depth_3+")
    if info.get("left"):
        ctx.stat("mntm_head_left_of_cell0")
    if info.get("right"):
        ctx.stat("mntm_head_right_of_input")
    ctx.case(("M", enc, w, n) if len(ys) >= 3 else None)
    ctx.stat(origin)
    ctx.stat("mntm_end_" + end.replace(" ", "_"))
    ctx.stat(f"mntm_tapes_{m.n_tapes}")
    if any(len(rs) == 0 for row in m.transitions.values() for rs in row.values()):
        ctx.stat("mntm_with_empty_transition_list")
    if any(len(set(rs)) != len(rs) for row in m.transitions.values() for rs in row.values()):
        ctx.stat("mntm_with_a_repeated_list_entry")
    if any(c not in m.tape_symbols for c in w):
        ctx.stat("mntm_input_with_a_symbol_outside_the_tape_alphabet")
    case = _describe("MNTM", m, w, n)
    if wrong:
        ctx.prop_fail(f"MNTM on {_short(w)} ({n} next() calls): " + "; ".join(wrong),
                      dict(case, **_detail(w, n, impl=impl)), None)
    elif impl != mod:
        ctx.corr_diff("MNTM_VISIT", case, impl, mod)
    if ctx.evaluations % 1499 == 3:
        ctx.sample(dict(case, yields=[repr(c) for c in cfgs[:5]], end=end))
    return end


def model_verdict(ctx: Ctx, cmd: str, enc: str, w: str, n: int) -> str:
    cnt, end = E.parse_run(ctx.driver(DRV).ask(toks(cmd, enc, E.enc_word(w), n, 1)), None)
    return E.verdict_of(end)


def check_triple(ctx: Ctx, kw, table, w: str, n: int, origin: str):
    """The same deterministic table as DTM / NTM / one-tape MNTM: verdicts under a budget."""
    if E.skip(ctx):
        return None
    d, nt, mt = E.dtm_from(kw, table), E.ntm_from(kw, table), E.mntm1_from(kw, table)
    vd = E.verdict_of(E.observe(d.read_input_stepwise(w), n)[1])
    vn = E.verdict_of(E.observe(nt.read_input_stepwise(w), n + 1)[1])
    vm = E.verdict_of(E.observe(mt.read_input_stepwise(w), n + 1)[1])
    # accepts_input itself when the run is known to halt
    # (only for a machine whose own bounded run halted: never call an unbounded run blindly)
    for name, mach, v in (("DTM", d, vd), ("NTM", nt, vn), ("MNTM", mt, vm)):
        if v in ("accept", "reject"):
            r = E.bounded_call(lambda: mach.accepts_input(w))
            if r != ("ok", v == "accept"):
                ctx.prop_fail(f"{name}.accepts_input({w!r}) = {r}, step-by-step verdict {v}",
                              dict(kind="TRIPLE", machine=repr(d), word=w, n=n), None)
    _oys, oend, _ = oracle_dtm(d, w, n)
    vt = E.verdict_of(oend)
    ctx.case(None)
    ctx.stat(origin)
    ctx.stat("triple_" + vd)
    wrong = []
    if vd != vt:
        wrong.append(f"DTM verdict {vd} but textbook verdict {vt}")
    if vd != "fuel" and (vn != vd or vm != vd):
        wrong.append(f"verdicts differ: DTM {vd}, NTM {vn}, 1-tape MNTM {vm}")
    vt1 = E.verdict_of(oracle_dtm(d, w, n + 1)[1])
    if vd == "fuel" and (vn not in ("fuel", ) and vn != vt1):
        wrong.append(f"NTM verdict {vn} where the DTM is undecided")
    if vm != vt1 and not vm.startswith("crash"):
        # the one-tape MNTM visits exactly the DTM's configurations: after n+1 calls it stands as the
        # textbook run does after n+1 calls — also where the DTM (n calls) is still undecided
        wrong.append(f"1-tape MNTM verdict {vm} after {n + 1} calls, textbook run {vt1}")
    for v in (vd, vn, vm):
        if v.startswith("crash"):
            wrong.append(v)
    case = dict(kind="TRIPLE", machine=repr(d), word=w, n=n)
    if wrong:
        ctx.prop_fail(f"deterministic table on {w!r}: " + "; ".join(wrong), case, None)
        return
    enc_d, _ = E.enc_dtm(d)
    enc_n, _ = E.enc_ntm(nt)
    enc_m, _ = E.enc_mntm(mt)
    mv = (model_verdict(ctx, "DTM_STEPS", enc_d, w, n), model_verdict(ctx, "NTM_LEVELS", enc_n, w, n + 1),
          model_verdict(ctx, "MNTM_VISIT", enc_m, w, n + 1))
    if mv != (vd, vn, vm):
        ctx.corr_diff("VERDICT_TRIPLE", case, (vd, vn, vm), mv)


# ------------------------------------------------------------------ wide frontier (impl vs. reference only)
def guess_and_verify(accepting: bool = True) -> MNTM:
    """Two tapes, branching 2: while reading the input on tape 1 guess a bit per cell onto tape 2, then walk
    both heads back comparing the tapes; exactly one of the 2^n branches survives.  The breadth-first
    frontier reaches 2^n pending configurations.  `accepting=False`: the last row is missing, so the whole
    tree is explored and the input rejected."""
    table = {
        "g": {("0", "#"): [("g", (("0", "R"), ("0", "R"))), ("g", (("0", "R"), ("1", "R")))],
              ("1", "#"): [("g", (("1", "R"), ("0", "R"))), ("g", (("1", "R"), ("1", "R")))],
              ("#", "#"): [("c", (("#", "L"), ("#", "L")))]},
        "c": {("0", "0"): [("c", (("0", "L"), ("0", "L")))],
              ("1", "1"): [("c", (("1", "L"), ("1", "L")))]},
    }
    if accepting:
        table["c"][("#", "#")] = [("acc", (("#", "N"), ("#", "N")))]
    return MNTM(states={"g", "c", "acc"}, input_symbols={"0", "1"}, tape_symbols={"0", "1", "#"}, n_tapes=2,
                transitions=table, initial_state="g", blank_symbol="#", final_states={"acc"})


def ref_level_sizes(m: MNTM, w: str, max_total: int):
    """Textbook breadth-first levels (dict tapes, path multiplicity): (verdict, configurations in the levels
    before the last one, size of the last level, widest level); verdict None = budget exhausted."""
    blank = m.blank_symbol
    level = [(m.initial_state, [E.ref_start(w)] + [({}, 0) for _ in range(m.n_tapes - 1)])]
    before, widest = 0, 1
    while True:
        widest = max(widest, len(level))
        if not level:
            return "reject", before, 0, widest
        if any(s in m.final_states for (s, _t) in level):
            return "accept", before, len(level), widest
        before += len(level)
        if before > max_total:
            return None, before, 0, widest
        nxt = []
        for (s, t) in level:
            key = tuple(c.get(h, blank) for (c, h) in t)
            for (q, moves) in (m.transitions.get(s, {}).get(key) or ()):
                nxt.append((q, [E.ref_apply(c, h, sy, d) for (sy, d), (c, h) in zip(moves, t)]))
        level = nxt


def check_wide(ctx: Ctx, m: MNTM, w: str, origin: str, max_total: int = 400000):
    """A breadth-first frontier of thousands of pending configurations: the real run against the
    independent reference only (verdict and number of visited configurations; no model call — the Lean
    theorems are about all frontiers, the driver need not enumerate 60 000 configurations)."""
    if E.skip(ctx):
        return None
    verdict, before, last, widest = ref_level_sizes(m, w, max_total)
    if verdict is None:
        ctx.note(f"wide frontier: reference budget exhausted on {w!r}")
        return None
    lo, hi = (before + 1, before + last) if verdict == "accept" else (before, before)
    count, end = 0, "run"
    try:
        with E.time_limit(120.0):
            try:
                for y in m.read_input_stepwise(w):
                    count += 1
                    if count > hi:
                        break
                else:
                    end = "ret"
            except (RecursionError, E.HarnessTimeout):
                raise
            except Exception as e:  # noqa: BLE001
                end = "raise " + type(e).__name__
    except E.HarnessTimeout:
        end = "raise HarnessTimeout"
    got = E.verdict_of(end)
    acc = E.bounded_call(lambda: m.accepts_input(w), 180.0)   # up to 10^5 configurations: seconds, more under load
    ctx.case(("W", repr(m), w))
    ctx.stat(origin)
    ctx.stat("wide_frontier_" + ("8192+" if widest > 8192 else "4096+" if widest > 4096 else "1024+" if widest > 1024
                                  else "small"))
    wrong = []
    if got != verdict:
        wrong.append(f"the run ends with {got if got != 'fuel' else 'more visited configurations than exist'}, "
                     f"the reference verdict is {verdict}")
    elif not lo <= count <= hi:
        wrong.append(f"{count} configurations visited, the breadth-first levels of the reference contain "
                     f"{lo}" + (f"–{hi}" if hi != lo else "") + " up to that point")
    if acc != ("ok", verdict == "accept"):
        wrong.append(f"accepts_input = {acc}")
    if wrong:
        ctx.prop_fail(f"MNTM with a wide breadth-first frontier (up to {widest} pending configurations) on {w!r}: "
                      + "; ".join(wrong), dict(kind="WIDE", machine=repr(m), word=w, n=0), None)
    return got


def wide_frontier(ctx: Ctx):
    acc, rej = guess_and_verify(True), guess_and_verify(False)
    for w in ("0" * 13, "0" * 14, "0110100110010"):
        check_wide(ctx, acc, w, "wide_frontier")
    check_wide(ctx, rej, "1" * 12, "wide_frontier")
    if ctx.thorough():
        check_wide(ctx, acc, "10" * 8, "wide_frontier")
        check_wide(ctx, rej, "0" * 14, "wide_frontier")


# ------------------------------------------------------------------ long tapes (round 4)
def _halting_calls(d: DTM, w: str, cap: int) -> int:
    """Number of next() calls after which the textbook run of `d` on `w` has ended (+1), at most cap."""
    oys, oend, _ = oracle_dtm(d, w, cap)
    return min(cap, len(oys) + 2) if oend != "run" else cap


def _stat_tape(ctx: Ctx, cells: int):
    ctx.stat("long_tape_cells_" + ("300+" if cells >= 300 else "256-299" if cells >= 256 else "128-255" if cells >= 128
                                    else "64-127" if cells >= 64 else "below_64"))


def long_tapes(ctx: Ctx):
    """Stored tapes of 63–300 cells: zig-zag programs whose head sweeps to the far right, off the right end,
    back over the whole tape and off the left end (and on, and back again), as DTM, as NTM (also with a
    two-way branch at a turning point), as 1-tape MNTM and as a 2-tape copy machine; shuttles that grow a
    short tape past 64 cells by themselves.  Judged like every other case: textbook interpreter on dict
    tapes (two-way infinite), head-relative views, and the model through drv_tm."""
    rng = ctx.rng
    thorough = ctx.thorough()
    lengths = list(TL.LONG_LENGTHS)
    if thorough:
        lengths = lengths * 3 + [rng.randint(63, 300) for _ in range(30)]
    for L in lengths:
        big = L >= 200
        names, isy, tsy, blank = TL.rand_parts(rng, 24)
        prog = TL.rand_program(rng, tsy, blank, max_sweeps=2 if big and not thorough else 4)
        table, final, used = TL.compile_program(prog, names, tsy, blank)
        kw = TL.kw_of(used, isy, tsy, blank, final, used[0])
        w = TL.rand_long_input(rng, isy, L)
        d = E.dtm_from(kw, table)
        n = _halting_calls(d, w, 5 * L + 60)
        _stat_tape(ctx, L + 1)
        which = rng.randrange(3) if big and not thorough else None  # the largest sizes: one class per machine
        if which in (None, 0):
            check_dtm(ctx, d, w, n, "long_tape_zigzag")
        if which in (None, 1):
            nt = E.ntm_from(kw, table)
            check_ntm(ctx, nt, w, n, "long_tape_zigzag")
        if which in (None, 2):
            check_mntm(ctx, E.mntm1_from(kw, table), w, n, "long_tape_zigzag")
        check_triple(ctx, kw, table, w, n, "long_tape_zigzag")
        if not big or thorough:
            # the same program with a two-way branch at the first turning point (two marks)
            s0 = used[0]
            r = table[s0][blank]
            alt = (r[0], next(a for a in tsy if a != r[1]), r[2])
            lists = {q: {a: [x] for a, x in row.items()} for q, row in table.items()}
            lists[s0][blank] = [r, alt]
            check_ntm(ctx, E.ntm_from_lists(kw, lists), w, n, "long_tape_zigzag_branching")
            check_mntm(ctx, E.mntm1_from_lists(kw, lists, swap=rng.random() < 0.5), w, 2 * n,
                       "long_tape_zigzag_branching")
    # two tapes, the second one written by the machine
    for L in ([63, 64, 65, 128] if not thorough else [63, 64, 65, 127, 128, 129, 255, 256, 257, 300]):
        mkw, isy = TL.copy_and_return(rng)
        w = TL.rand_long_input(rng, isy, L)
        _stat_tape(ctx, L + 1)
        check_mntm(ctx, MNTM(**mkw), w, 2 * L + 8, "long_tape_two_tapes")
    # short inputs, the machine grows the tape past 64 cells at both ends
    for L0 in ([50, 58, 61, 62] if not thorough else [30, 40, 50, 55, 58, 60, 61, 62, 63, 64]):
        kw, table = TL.shuttle(rng)
        w = TL.rand_long_input(rng, sorted(kw["input_symbols"])[0] if rng.random() < 0.5 else
                               "".join(sorted(kw["input_symbols"])), L0)
        n = sum(range(L0 + 1, 70)) + 5
        _stat_tape(ctx, 69)
        k = rng.randrange(3)
        if k == 0 or thorough:
            check_dtm(ctx, E.dtm_from(kw, table), w, n, "long_tape_shuttle")
        if k == 1 or thorough:
            check_ntm(ctx, E.ntm_from(kw, table), w, n, "long_tape_shuttle")
        if k == 2 or thorough:
            check_mntm(ctx, E.mntm1_from(kw, table), w, n, "long_tape_shuttle")


# ------------------------------------------------------------------ long runs (round 6)
def _stat_bucket(ctx: Ctx, prefix: str, v: int, edges=(1000, 2000, 3000, 4000)):
    lo = 0
    for e in edges:
        if v < e:
            ctx.stat(f"{prefix}_{lo}-{e - 1}")
            return
        lo = e
    ctx.stat(f"{prefix}_{lo}+")


def check_deep(ctx: Ctx, sp: "TD.Spec", origin: str) -> bool:
    """One closed-form case of harness/tm_deep.py: the table as DTM / NTM / 1-tape MNTM (the nondeterministic
    family: NTM / MNTM), each driven to its end (or through the budget) on the real code.  Judged by the in-place
    textbook run at every step, by the closed form (verdict, number of yields, final configuration) and against
    each other; `accepts_input` must give the closed-form verdict.  No model round trip: the answers are known.
    Every complaint comes from calls into the library made here, so the replay (family + parameters) re-runs
    exactly this.  Returns True when the case held."""
    if E.skip(ctx):
        return False
    TD.verify_closed_form(sp)          # InfraError if this harness' own closed form is wrong
    ctx.stat(origin)
    ctx.stat("long_run_family_" + sp.family)
    ctx.stat("long_run_no_model_round_trip")
    ctx.stat("long_run_closed_form_" + sp.verdict)
    _stat_bucket(ctx, "long_run_steps", sp.steps)
    results = {}
    held = True
    for cls, m in TD.machines(sp):
        ctx.case(("DEEP", sp.family, tuple(sorted(sp.params.items())), cls))
        ctx.stat("long_run_as_" + cls)
        wrong, info = TD.judge(sp, cls, m)
        _stat_bucket(ctx, "long_run_yields", info["count"])
        _stat_bucket(ctx, "long_run_stored_tape_cells", info["maxlen"], (100, 1000, 2000, 3000))
        if info["minpos"] <= -1000:
            ctx.stat("long_run_head_1000+_cells_left_of_cell0")
        elif info["minpos"] < 0:
            ctx.stat("long_run_head_left_of_cell0")
        if info.get("maxlevel", 0) >= 2:
            ctx.stat("long_run_frontier_of_2")
        if sp.verdict != "running" and not any("HarnessTimeout" in x for x in wrong):
            acc = TD.safe_accepts(m, sp.word)
            if acc != ("ok", sp.verdict == "accept"):
                wrong.append(f"accepts_input = {acc}, closed-form verdict {sp.verdict}")
        results[cls] = (E.verdict_of(info["end"]), info["count"])
        if wrong:
            held = False
            ctx.prop_fail(f"{cls} {sp.label()} on {_short(sp.word)} (closed form: {sp.verdict} after {sp.steps} steps): "
                          + "; ".join(wrong[:3]), dict(sp.replay(), machine=repr(m) if len(sp.word) < 200 else cls,
                                                       cls=cls), None)
    # against each other (implied by the closed form; said separately so that the evidence shows the triple)
    if held and len({v for v, _c in results.values()}) != 1:
        held = False
        ctx.prop_fail(f"{sp.label()}: verdicts differ: {results}", dict(sp.replay(), cls="all"), None)
    if ctx.evaluations % 7 == 0:
        ctx.sample(dict(kind="DEEP", case=sp.label(), closed_form=dict(verdict=sp.verdict, steps=sp.steps,
                        state=repr(sp.state), head=sp.head, nonblank_cells=len(sp.cells)), observed=results))
    return held


def _selftest_branching(ctx: Ctx):
    """The closed-form levels of the nondeterministic family against the generic textbook level oracle of this
    module on a small instance (a disagreement is a defect of the harness)."""
    for accept in (True, False):
        sp = TD.branchy_walk(5, accept)
        oys, oend = oracle_ntm(E.ntm_from_lists(sp.kw, sp.lists), sp.word, 12)
        want = [{(s, TD.view(h, c, sp.blank)) for (s, h, c) in sp.level(j)} for j in range(sp.depth + 1)]
        if not accept:
            want.append(set())
        if oys != want or oend != TD.expected_end(sp) or len(oys) != TD.expected_yields(sp, "NTM"):
            raise InfraError("tm_deep.branchy_walk: closed-form levels disagree with the textbook level oracle")


def long_runs(ctx: Ctx):
    """Size thresholds of the run (round 6): thousands of steps, thousands of cells, far left of the start cell."""
    _selftest_branching(ctx)
    specs = TD.plan(ctx.rng, ctx.thorough())
    for i, sp in enumerate(specs):
        held = check_deep(ctx, sp, "long_runs")
        if i == 0 and held:
            # the documentation machine on 23–30 pairs (1100–1900 configurations) once more through the usual
            # checks: cell-by-cell comparison with the Lean model at more than a thousand next() calls
            n = sp.steps + 3
            check_dtm(ctx, E.dtm_from(sp.kw, sp.table), sp.word, n, "long_runs_model_round_trip")
            check_ntm(ctx, E.ntm_from(sp.kw, sp.table), sp.word, n, "long_runs_model_round_trip")
            check_mntm(ctx, E.mntm1_from(sp.kw, sp.table), sp.word, n, "long_runs_model_round_trip")
            check_triple(ctx, sp.kw, sp.table, sp.word, n, "long_runs_model_round_trip")
        elif i == 0:
            ctx.stat("long_runs_model_round_trip_skipped_after_failure")


# ------------------------------------------------------------------ validation stream
def _mutate(rng, kind, kw):
    """One random defect in the constructor arguments (dict kw is modified in place)."""
    states = list(kw["states"])
    tsy = sorted(kw["tape_symbols"])
    trans = kw["transitions"]
    rows = [q for q in trans if trans[q]]
    choice = rng.randrange(14 if kind == "M" else 12)

    def some_entry():
        q = rng.choice(rows)
        k = rng.choice(list(trans[q]))
        return q, k

    def set_result(f):
        if not rows:
            return
        q, k = some_entry()
        if kind == "D":
            trans[q][k] = f(trans[q][k])
        elif kind == "N":
            rs = list(trans[q][k])
            if rs:
                i = rng.randrange(len(rs))
                rs[i] = f(rs[i])
                trans[q][k] = set(rs)
        else:
            rs = list(trans[q][k])
            if rs:
                i = rng.randrange(len(rs))
                st, moves = rs[i]
                moves = list(moves)
                if moves:
                    j = rng.randrange(len(moves))
                    r = f((st, moves[j][0], moves[j][1]))
                    moves[j] = (r[1], r[2])
                    rs[i] = (r[0], tuple(moves))
                    trans[q][k] = rs
    if choice == 0:
        kw["blank_symbol"] = "~"
    elif choice == 1:
        kw["input_symbols"] = set(kw["tape_symbols"])
    elif choice == 2:
        kw["input_symbols"] = set(kw["input_symbols"]) | {"%"}
    elif choice == 3:
        trans["zz"] = {}
    elif choice == 4 and rows:
        q = rng.choice(rows)
        k = rng.choice(list(trans[q]))
        v = trans[q].pop(k)
        trans[q]["%" if kind != "M" else tuple("%" for _ in k)] = v
    elif choice == 5:
        set_result(lambda r: ("zz", r[1], r[2]))
    elif choice == 6:
        set_result(lambda r: (r[0], "%", r[2]))
    elif choice == 7:
        set_result(lambda r: (r[0], r[1], rng.choice(["X", "l", "", "LR"])))
    elif choice == 8:
        kw["initial_state"] = "zz"
    elif choice == 9:
        trans.pop(kw["initial_state"], None)
    elif choice == 10:
        kw["final_states"] = set(kw["final_states"]) | {rng.choice([kw["initial_state"], "zz"])}
    elif choice == 11:
        if rows:
            kw["final_states"] = set(kw["final_states"]) | {rng.choice(rows)}
    elif choice == 12 and rows:
        q, k = some_entry()
        v = trans[q].pop(k)
        trans[q][tuple(k) + (tsy[0],) if rng.random() < 0.5 else tuple(k)[:-1]] = v
    elif choice == 13 and rows:
        q, k = some_entry()
        rs = list(trans[q][k])
        if rs:
            st, moves = rs[0]
            rs[0] = (st, tuple(moves) + ((tsy[0], "N"),) if rng.random() < 0.5 else tuple(moves)[:-1])
            trans[q][k] = rs


def _thaw(m, kind):
    kw = dict(states=set(m.states), input_symbols=set(m.input_symbols), tape_symbols=set(m.tape_symbols),
              initial_state=m.initial_state, blank_symbol=m.blank_symbol, final_states=set(m.final_states))
    if kind == "D":
        kw["transitions"] = {q: dict(r) for q, r in m.transitions.items()}
    elif kind == "N":
        kw["transitions"] = {q: {s: set(rs) for s, rs in r.items()} for q, r in m.transitions.items()}
    else:
        kw["transitions"] = {q: {k: list(rs) for k, rs in r.items()} for q, r in m.transitions.items()}
        kw["n_tapes"] = m.n_tapes
    return kw


CLS = {"D": DTM, "N": NTM, "M": MNTM}
ENC = {"D": E.enc_dtm, "N": E.enc_ntm, "M": E.enc_mntm}
VCMD = {"D": "DTM_VALIDATE", "N": "NTM_VALIDATE", "M": "MNTM_VALIDATE"}


def check_validate(ctx: Ctx, kind: str, m, origin: str):
    """validate() of the (possibly invalid) definition `m`: exception class, code vs model."""
    r = call(m.validate)
    impl = "ok" if r[0] == "ok" else "err " + r[1]
    enc, _ = ENC[kind](m)
    mod = ctx.driver(DRV).ask(toks(VCMD[kind], enc)).strip()
    ctx.case(None)
    ctx.stat(origin)
    ctx.stat("validate_" + impl.replace(" ", "_"))
    if impl != mod:
        ctx.corr_diff(VCMD[kind], dict(kind="VALIDATE", cls=kind, machine=repr(m)), impl, mod)
        if impl == "ok":
            # the code accepts a definition the model rejects: it is "valid" for the code, so the
            # property must hold for it — evaluate it on this machine
            behaviour_of_accepted(ctx, kind, m)


def behaviour_of_accepted(ctx: Ctx, kind: str, m):
    words = E.words_upto(sorted(m.input_symbols)[:2], 2)
    try:
        for w in words:
            if kind == "D":
                check_dtm(ctx, m, w, 10, "accepted_by_code_only")
                kw = dict(states=set(m.states), input_symbols=set(m.input_symbols),
                          tape_symbols=set(m.tape_symbols), initial_state=m.initial_state,
                          blank_symbol=m.blank_symbol, final_states=set(m.final_states))
                check_triple(ctx, kw, {q: dict(r) for q, r in m.transitions.items()}, w, 20,
                             "accepted_by_code_only")
            elif kind == "N":
                check_ntm(ctx, m, w, 8, "accepted_by_code_only")
            else:
                check_mntm(ctx, m, w, 12, "accepted_by_code_only")
    except Exception as e:  # noqa: BLE001 — e.g. the three constructors disagree about validity
        # a definition the code accepts is a valid machine as far as the code is concerned: an exception
        # while running it / giving the same table to the sibling classes is a failure of the property
        ctx.stat("accepted_by_code_only_raises")
        ctx.prop_fail(f"definition accepted by {CLS[kind].__name__}.validate (the model rejects it): running it / "
                      f"building the same table as NTM / 1-tape MNTM raises {type(e).__name__}: {e}",
                      dict(kind="VALIDATE", cls=kind, machine=repr(m)), None)


def validation_stream(ctx: Ctx, count: int):
    rng = ctx.rng
    for _ in range(count):
        kind = rng.choice("DNM")
        if kind == "D":
            kw, table = E.rand_dtm_table(rng)
            m = E.dtm_from(kw, table)
        elif kind == "N":
            m = E.rand_ntm(rng)
        else:
            m = E.rand_mntm(rng)
        check_validate(ctx, kind, m, "validate_valid")
        kw = _thaw(m, kind)
        for _ in range(rng.choice([1, 1, 1, 2])):
            _mutate(rng, kind, kw)
        try:
            bad = E.mk_unchecked(CLS[kind], **kw)
        except Exception as e:  # noqa: BLE001 — unhashable / malformed beyond the typed model
            ctx.stat("validate_mutant_dropped_unconstructible")
            ctx.stat("validate_mutant_dropped:" + type(e).__name__)
            continue
        check_validate(ctx, kind, bad, "validate_mutated")
    dropped = ctx.stats.get("validate_mutant_dropped_unconstructible", 0)
    if dropped:
        ctx.note(f"NOTE: {dropped} of {count} mutated definitions could not even be constructed with validation "
                 f"switched off (see validate_mutant_dropped:* in the generator distribution) and were not compared")


# ------------------------------------------------------------------ corpus
def corpus(ctx: Ctx):
    # F11 (fixed 5a3675d): an empty transition list is treated like a missing transition
    m = MNTM(states={"q0", "q1"}, input_symbols={"1"}, tape_symbols={"1", "#"}, n_tapes=1,
             transitions={"q0": {("1",): [], ("#",): [("q1", (("#", "N"),))]}},
             initial_state="q0", blank_symbol="#", final_states={"q1"})
    for w in ("", "1", "11"):
        check_mntm(ctx, m, w, 6, "corpus_F11")
    m2 = MNTM(states={"q0", "q1"}, input_symbols={"1"}, tape_symbols={"1", "#"}, n_tapes=2,
              transitions={"q0": {("1", "#"): [("q0", (("1", "R"), ("1", "L"))), ("q0", (("#", "L"), ("#", "R")))],
                                  ("#", "#"): []}},
              initial_state="q0", blank_symbol="#", final_states={"q1"})
    for w in ("", "1", "11"):
        check_mntm(ctx, m2, w, 9, "corpus_F11")
    # heads leaving both ends, blank writes, N moves
    kw = dict(states={"q0", "q1", "qf"}, input_symbols={"0"}, tape_symbols={"0", "#"}, initial_state="q0",
              blank_symbol="#", final_states={"qf"})
    tables = [
        {"q0": {"0": ("q0", "#", "L"), "#": ("q1", "0", "L")}, "q1": {"#": ("q1", "#", "L")}},
        {"q0": {"0": ("q0", "0", "R"), "#": ("q1", "#", "R")}, "q1": {"#": ("qf", "0", "N")}},
        {"q0": {"0": ("q1", "#", "N"), "#": ("q0", "#", "L")}, "q1": {"#": ("q0", "0", "L")}},
        {"q0": {}},
    ]
    for table in tables:
        for w in ("", "0", "00", "0#0", "#"):
            check_dtm(ctx, E.dtm_from(kw, table), w, 9, "corpus_edges")
            check_ntm(ctx, E.ntm_from(kw, table), w, 9, "corpus_edges")
            check_mntm(ctx, E.mntm1_from(kw, table), w, 9, "corpus_edges")
            check_triple(ctx, kw, table, w, 20, "corpus_edges")


# ------------------------------------------------------------------ run
def run(ctx: Ctx):
    rng = ctx.rng
    thorough = ctx.thorough()
    E.reset_watchdog()
    corpus(ctx)
    wide_frontier(ctx)
    # 1. bounded-exhaustive tiny deterministic tables
    kw2 = dict(states={"q0", "q1", "qf"}, input_symbols={"0"}, tape_symbols={"0", "#"}, initial_state="q0",
               blank_symbol="#", final_states={"qf"})
    kw3 = dict(states={"q0", "q1", "qf"}, input_symbols={"0", "1"}, tape_symbols={"0", "1", "#"},
               initial_state="q0", blank_symbol="#", final_states={"qf"})
    plans = [(kw2, "0#", 2 if not thorough else 3, E.words_upto("0", 3), 1.0)]
    if thorough:
        plans.append((kw3, "01#", 2, E.words_upto("01", 2) + ["011", "101", "1#0"], 1.0))
    else:
        plans.append((kw3, "01#", 1, E.words_upto("01", 2) + ["011"], 1.0))
    for kw, tsy, rows, words, _ in plans:
        cnt = 0
        for table in E.tiny_dtm_tables(tsy, rows):
            cnt += 1
            d, nt, mt = E.dtm_from(kw, table), E.ntm_from(kw, table), E.mntm1_from(kw, table)
            for w in words:
                check_dtm(ctx, d, w, 8, "exhaustive_tiny")
                check_ntm(ctx, nt, w, 8, "exhaustive_tiny")
                check_mntm(ctx, mt, w, 8, "exhaustive_tiny")
                check_triple(ctx, kw, table, w, 14, "exhaustive_tiny")
        ctx.exhaustive(f"all {cnt} deterministic tables over states q0,q1 (+final qf), tape alphabet "
                       f"{{{','.join(tsy)}}}, ≤{rows} rows (q0 has a row) × {len(words)} inputs, each as DTM, NTM and "
                       f"1-tape MNTM, 8 next() calls; verdict triple with budget 14")
    # 1b. bounded-exhaustive tiny nondeterministic tables (dead-end state q1, two-way branching)
    cnt = 0
    for table in E.tiny_nondet_tables("0#"):
        cnt += 1
        if not thorough and cnt % 3 != ctx.seed % 3:
            continue
        nt = E.ntm_from_lists(kw2, table)
        mt = E.mntm1_from_lists(kw2, table, swap=bool(cnt & 1))
        for w in ("0", "00"):
            check_ntm(ctx, nt, w, 6, "exhaustive_nondet")
            check_mntm(ctx, mt, w, 10, "exhaustive_nondet")
    ctx.exhaustive(("all" if thorough else "a third (by seed) of the") + f" {cnt} nondeterministic one-tape tables: q0 with two "
                   "distinct results on '0' (+ optionally one of 3 rows on '#'), q1 a dead end or one of 2 rows; inputs "
                   "'0','00'; as NTM (6 calls) and as MNTM (10 calls, both list orders)")
    # 2. shaped random
    budgets = [1, 2, 3, 6, 12, 25]
    for _ in range(ctx.budget(1200, 20000)):
        kw, table = E.rand_dtm_table(rng)
        d = E.dtm_from(kw, table)
        for _ in range(2):
            w = E.rand_input(rng, d)
            n = rng.choice(budgets)
            check_dtm(ctx, d, w, n, "random_dtm")
            check_triple(ctx, kw, table, w, rng.choice([10, 30, 60]), "random_triple")
    for _ in range(ctx.budget(1500, 20000)):
        m = E.rand_ntm(rng)
        for _ in range(2):
            check_ntm(ctx, m, E.rand_input(rng, m), rng.choice([1, 2, 3, 5, 8]), "random_ntm")
    for _ in range(ctx.budget(2000, 25000)):
        m = E.rand_mntm(rng)
        for _ in range(2):
            check_mntm(ctx, m, E.rand_input(rng, m), rng.choice([1, 2, 4, 8, 16, 30]), "random_mntm")
    # 2b. a family with 5–6 states (longer chains of distinct states), inputs up to length 6
    for _ in range(ctx.budget(250, 4000)):
        kw, table = E.rand_dtm_table(rng, max_states=6, min_states=5)
        d = E.dtm_from(kw, table)
        w = E.rand_input(rng, d, max_len=6)
        check_dtm(ctx, d, w, rng.choice([6, 12, 25, 40]), "random_5to6_states")
        check_triple(ctx, kw, table, w, rng.choice([30, 60]), "random_5to6_states")
        mn = E.rand_ntm(rng, max_states=6, min_states=5)
        check_ntm(ctx, mn, E.rand_input(rng, mn, max_len=6), rng.choice([3, 5, 8]), "random_5to6_states")
        mm = E.rand_mntm(rng, max_states=6, min_states=5)
        check_mntm(ctx, mm, E.rand_input(rng, mm, max_len=6), rng.choice([8, 16, 30, 45]), "random_5to6_states")
    # 3. validation
    validation_stream(ctx, ctx.budget(1000, 12000))
    # 4. long tapes (after the other families: their case streams are unchanged)
    long_tapes(ctx)
    # 5. long runs (round 6; last, the older case streams are unchanged)
    long_runs(ctx)
    E.report_watchdog(ctx)


def replay(ctx: Ctx, path: str) -> int:
    data = json.load(open(path))
    rp = data.get("replay", data)
    env = {"DTM": DTM, "NTM": NTM, "MNTM": MNTM, "frozenset": frozenset}
    kind = rp["kind"]
    if kind == "DEEP":
        check_deep(ctx, TD.build(rp["family"], rp["params"]), "replay")
        return _replay_verdict(ctx, path)
    old = global_config.should_validate_automata
    global_config.should_validate_automata = kind != "VALIDATE"
    try:
        m = eval(rp["machine"], env)  # repr() of the machine, produced by this harness
    finally:
        global_config.should_validate_automata = old
    if kind == "DTM":
        check_dtm(ctx, m, rp["word"], rp["n"], "replay")
    elif kind == "NTM":
        check_ntm(ctx, m, rp["word"], rp["n"], "replay")
    elif kind == "MNTM":
        check_mntm(ctx, m, rp["word"], rp["n"], "replay")
    elif kind == "WIDE":
        check_wide(ctx, m, rp["word"], "replay")
    elif kind == "TRIPLE":
        kw = dict(states=set(m.states), input_symbols=set(m.input_symbols), tape_symbols=set(m.tape_symbols),
                  initial_state=m.initial_state, blank_symbol=m.blank_symbol, final_states=set(m.final_states))
        check_triple(ctx, kw, {q: dict(r) for q, r in m.transitions.items()}, rp["word"], rp["n"], "replay")
    elif kind == "VALIDATE":
        check_validate(ctx, rp["cls"], m, "replay")
    return _replay_verdict(ctx, path)


def _replay_verdict(ctx: Ctx, path: str) -> int:
    if ctx.prop_fails:
        print(f"VIOLATION property=C03 replay={path}")
        print("  " + ctx.prop_fails[0]["what"])
        return 1
    if ctx.corr_diffs:
        print("replay: model and code still differ on this input (no property failure)")
        return 0
    print("replay: property holds on this input now")
    return 0
