"""C02 — pushdown acceptance: NPDA explores all runs; DPDA is deterministic and agrees.

Correspondence (real code vs. Lean model through drv_pda, after canonicalisation):
  NPDA_RUN       level sets yielded by NPDA.read_input_stepwise (as sorted sets), how the
                 generator ends (returned / raised <class> / budget), read_input, accepts_input
  DPDA_RUN       configuration sequence of DPDA.read_input_stepwise, outcome, read_input, accepts_input
  DPDA_LIFT_RUN  the real NPDA built from a DPDA table vs. the model's `DPDA.lift`
  NPDA_VALIDATE / DPDA_VALIDATE   constructor outcome (exception class) on arbitrary, also malformed, tables

Both readers can loop forever on λ-cycles.  The harness pulls the real generators by hand with
a level/step budget (and a level-size budget) and gives the model exactly the fuel that
corresponds to the pulled prefix, so decided runs and undecided prefixes are both compared.

Property oracle (independent of the model and of the library's stepping code): `Ref`, a
bounded breadth-first interpreter over the textbook one-move relation with the stack
written top-first, plus a brute-force "two applicable moves" test for determinism.  It is
evaluated on every case, not only on disagreements.

DEEP (harness/pda_deep.py): runs over 1100–3000 symbols with stacks growing to 1100–3000 and shrinking again,
lambda-chains of 1100+ moves, one move pushing 1500–3000 symbols, tables of 1100+ rows, rows of 220–320 entries —
judged by closed forms (verdict, number of yields, every configuration, final configuration, peak depth), DPDA
against NPDA, no model round trip; the same constructions with parameters 2–5 go through `Ref`, the Lean model
and the ordinary checks on every run.
"""
from __future__ import annotations

import itertools
import json

from automata.pda.dpda import DPDA
from automata.pda.npda import NPDA

from harness import gen
from harness import pda_deep as PD
from harness.common import Ctx, InfraError, Names, Toks, exc_name, toks

LEVEL = "proof"
RULE = ("cases = (PDA definition, word) for runs and (definition) for validation; corpus of past defects "
        "and mutant killers, then every table of a small domain (≤2 states, 1 input symbol, 2 stack "
        "symbols, ≤3 rows, pushes ≤2, all modes and final sets, words ≤3), then shaped random tables "
        "(≤3 states, adversarial state names, λ-cycles, accepting start configurations, overlapping "
        "alphabets incl. non-ASCII ones, str/tuple pushes, NPDA entries that are empty sets), a dense family "
        "with 4–5 states and words up to length 9, definitions declaring '' as a stack symbol (must be "
        "refused), malformed definitions, tables whose stack symbols and state names have more than one "
        "character ('Z0', 'bottom', names that are prefixes of each other; pushes as tuples of symbols, rarely "
        "as the concatenated str) and tables with rows keyed by names missing from `states` that a move of the "
        "start configuration enters (sometimes with a λ-move next to a symbol move in such a row only: must be "
        "refused; if accepted, a word on which DPDA and NPDA disagree is searched); deep / large instances built from "
        "small parameter dicts with answers known in closed form (harness/pda_deep.py: a^n b^m, nested brackets with "
        "an end marker, u c u^R, a chain of 1100+ states pushing by lambda-moves then popping by lambda-moves, one "
        "move pushing 1500–3000 symbols, as DPDA and as NPDA with the same table; two NPDA families with a frontier "
        "of two; all acceptance modes, accepting and rejecting twins; words of 1100–3000 symbols, stacks of "
        "1100–3000, and the constructors on tables of 1100–1500 rows / rows of 220–320 entries with and without ONE "
        "lambda/symbol clash) — every yield, the number of yields, the final configuration, accepts_input and "
        "read_input against the closed form, DPDA against NPDA, no model round trip for the big ones, their small "
        "twins through the textbook oracle, the model and the ordinary checks; a run is non-trivial when at least one "
        "move is taken; distinct = distinct (definition, word) pairs")
ASSUMPTIONS = [
    "input symbols are single characters (the input is a str, read character by character); a stack symbol is any "
    "non-empty str — a tuple push is a sequence of symbols, a str push a sequence of one-character symbols (so "
    "('Z0',) and 'Z0' are different pushes); the empty string is not a stack symbol: PDA.validate refuses it (fix cb4efab; "
    "PDAStack.top() returns '' for an empty stack, so a table keyed by '' let an empty stack move), hence no valid "
    "table has such a key and the model's stack-symbol type has no such value — every run checks that the "
    "constructors refuse such definitions and, if one is accepted, evaluates the property on it",
    "pushed values are str or tuple (a list inside a DPDA entry is unhashable in _get_next_configuration)",
    "state names are hashable values without int/bool/float collisions",
    "runs are compared up to a level/step budget: a λ-cycle makes the real reader loop forever, the model "
    "answers outOfFuel there and the theorems claim nothing about undecided runs",
]
EXPLANATION = ("Theorems C02_* (Props/C02.lean) state the property about the model for all tables, modes and "
               "words; this run ties the model to the code by differential execution and evaluates the "
               "property itself on the real code with an independent bounded interpreter.  The property quantifies "
               "over inputs of any size, the model round trip is affordable only on small ones: runs of 1100–3000 moves "
               "with stacks of that depth, lambda-chains of 1100+ moves, pushes of 1500–3000 symbols and tables of "
               "1100+ rows are therefore judged on the real code against closed forms derived from the construction "
               "parameters (checked against an in-place interpreter at full size and against the textbook oracle on "
               "small twins), so that a recursion limit, a cache size, a cut-off or a fixed-size buffer inside the "
               "readers, the stack or the determinism validation shows up as a failing input.")

MODES = ("final_state", "empty_stack", "both")
DRV = "drv_pda"


# ----------------------------------------------------------------- building / encoding
def build(kind: str, spec: dict):
    cls = NPDA if kind == "N" else DPDA
    try:
        return ("ok", cls(**spec))
    except RecursionError:
        raise
    except Exception as e:  # noqa: BLE001
        return ("err", exc_name(e))


class Enc:
    """Protocol encoding of a definition (from the plain spec, valid or not)."""

    def __init__(self, kind: str, spec: dict):
        self.st = Names(list(spec["states"]))
        self.sy = Names(sorted(spec["input_symbols"]))
        self.ss = Names(sorted(spec["stack_symbols"]))
        st, sy, ss = self.st, self.sy, self.ss
        rows = []
        for q, row in spec["transitions"].items():
            ents = []
            for a, sp in row.items():
                e2 = []
                for X, entry in sp.items():
                    if kind == "D":
                        p, push = entry
                        e2.append(toks(ss(X), st(p), len(push), [ss(y) for y in push]))
                    else:
                        e2.append(toks(ss(X), len(entry),
                                       [toks(st(p), len(push), [ss(y) for y in push]) for (p, push) in entry]))
                ents.append(toks(-1 if a == "" else sy(a), len(sp), e2))
            rows.append(toks(st(q), len(row), ents))
        mode = str(spec["acceptance_mode"])
        assert mode and " " not in mode
        fin = list(spec["final_states"])
        self.text = toks(len(st.order), len(sy.order), len(ss.order), st(spec["initial_state"]),
                         ss(spec["initial_stack_symbol"]), len(fin), [st(f) for f in fin], mode, len(rows), rows)

    def word(self, w: str) -> str:
        return toks(len(w), [self.sy(c) for c in w])

    def cfg(self, c):
        """Real PDAConfiguration → canonical tuple (stack bottom first, as in the code)."""
        return (self.st(c.state), tuple(self.sy(x) for x in c.remaining_input), tuple(self.ss(y) for y in c.stack))

    def ref_cfg(self, c):
        """Reference configuration (stack top-first) → canonical tuple."""
        q, rest, stack = c
        return (self.st(q), tuple(self.sy(x) for x in rest), tuple(self.ss(y) for y in reversed(stack)))


# ----------------------------------------------------------------- pulling the real readers
def impl_npda(obj, w: str, level_cap: int, size_cap: int):
    g = obj.read_input_stepwise(w)
    levels, out = [], None
    while True:
        if len(levels) > level_cap:
            out = "fuel"
            break
        try:
            lv = next(g)
        except StopIteration:
            out = "returned"
            break
        except RecursionError:
            raise
        except Exception as e:  # noqa: BLE001
            out = "raised " + exc_name(e)
            break
        levels.append(frozenset(lv))  # the generator keeps using the yielded set: snapshot
        if len(lv) > size_cap:
            out = "fuel"
            break
    g.close()
    return levels, out


def impl_dpda(obj, w: str, step_cap: int):
    g = obj.read_input_stepwise(w)
    trace, out = [], None
    while True:
        try:
            c = next(g)
        except StopIteration:
            out = "returned"
            break
        except RecursionError:
            raise
        except Exception as e:  # noqa: BLE001
            out = "raised " + exc_name(e)
            break
        if len(trace) > step_cap:
            out = "fuel"  # c is the look-ahead pull: the run goes on, nothing decided
            break
        trace.append(c)
    g.close()
    return trace, out


def fuel_for(n_yields: int, out: str) -> int:
    """Loop iterations of the model that correspond to the pulled prefix."""
    return n_yields - 1 if out == "fuel" else n_yields


def call_res(f):
    try:
        return ("ok", f())
    except RecursionError:
        raise
    except Exception as e:  # noqa: BLE001
        return ("err", exc_name(e))


# ----------------------------------------------------------------- independent oracle
class Ref:
    """Textbook PDA semantics straight from the table: a configuration is
    (state, unread input, stack as a tuple with the TOP FIRST); one move replaces the top
    symbol X by the pushed string (its first symbol is the new top) and reads a symbol or
    nothing; an empty stack has no move."""

    def __init__(self, kind: str, spec: dict):
        self.rules = {}
        for q, row in spec["transitions"].items():
            for a, sp in row.items():
                for X, entry in sp.items():
                    for (p, push) in ([entry] if kind == "D" else list(entry)):
                        self.rules.setdefault((q, X), []).append((a, p, tuple(push)))
        self.mode = spec["acceptance_mode"]
        self.finals = set(spec["final_states"])
        self.init = spec["initial_state"]
        self.z = spec["initial_stack_symbol"]

    def start(self, w):
        return (self.init, w, (self.z,))

    def succ(self, c):
        q, rest, stack = c
        out = set()
        if not stack:
            return out
        for a, p, push in self.rules.get((q, stack[0]), ()):
            if a == "":
                out.add((p, rest, push + stack[1:]))
            elif rest[:1] == a:
                out.add((p, rest[1:], push + stack[1:]))
        return out

    def accepting(self, c):
        q, rest, stack = c
        if rest:
            return False
        if self.mode == "final_state":
            return q in self.finals
        if self.mode == "empty_stack":
            return not stack
        return (not stack) or q in self.finals

    def expected_npda(self, w, level_cap, size_cap):
        """k-move reachable sets until the first set with an accepting configuration (accept),
        the first empty set (reject) or the budget."""
        cur = {self.start(w)}
        levels = [cur]
        while True:
            if len(cur) > size_cap or len(levels) > level_cap:
                return levels, "fuel"
            if any(self.accepting(c) for c in cur):
                return levels, "returned"
            if not cur:
                return levels, "raised RejectionException"
            nxt = set()
            for c in cur:
                nxt |= self.succ(c)
            cur = nxt
            levels.append(cur)

    def expected_dpda(self, w, step_cap):
        c = self.start(w)
        trace = [c]
        while True:
            if self.accepting(c):
                return trace, "returned"
            nxt = self.succ(c)
            if not nxt:
                return trace, "raised RejectionException"
            if len(nxt) > 1:
                return trace, "two-moves"
            if len(trace) > step_cap:
                return trace, "fuel"
            c = next(iter(nxt))
            trace.append(c)

    def two_moves(self):
        """Some configuration has two applicable moves: a stack top with a λ-move and a symbol
        move from the same state (entries of a DPDA table are single-valued)."""
        for (q, X), rs in self.rules.items():
            if any(a == "" for a, _, _ in rs) and any(a != "" for a, _, _ in rs):
                return True
            if len(rs) != len({a for a, _, _ in rs}):
                return True
        return False


def other_rules_ok(spec: dict) -> bool:
    """Everything PDA.validate checks apart from determinism."""
    for q, row in spec["transitions"].items():
        for a, sp in row.items():
            if a != "" and a not in spec["input_symbols"]:
                return False
            for X in sp:
                if X not in spec["stack_symbols"]:
                    return False
    if "" in spec["stack_symbols"]:  # fix cb4efab: the empty string is no stack symbol
        return False
    return (spec["initial_state"] in spec["states"] and spec["initial_stack_symbol"] in spec["stack_symbols"]
            and set(spec["final_states"]) <= set(spec["states"]) and spec["acceptance_mode"] in MODES)


# ----------------------------------------------------------------- parsing the model's answers
def p_cfg(t: Toks):
    q = t.int()
    return (q, tuple(t.ints()), tuple(t.ints()))


def p_level(t: Toks):
    return t.many(lambda: p_cfg(t))


def p_out(t: Toks):
    x = t.next()
    return "raised " + t.next() if x == "raised" else x


def p_optres(t: Toks, f):
    k = t.next()
    if k == "N":
        return None
    if k == "ok":
        return ("ok", f())
    return ("err", t.next())


def p_runs(line: str, npda: bool):
    t = Toks(line)
    t.expect("valid")
    valid = t.res(lambda: None)
    t.expect("runs")
    runs = []
    for _ in range(t.int()):
        if npda:
            t.expect("levels")
            ys = t.many(lambda: p_level(t))
            dup = any(len(set(l)) != len(l) for l in ys)
            ys = [sorted(set(l)) for l in ys]
        else:
            t.expect("trace")
            ys = t.many(lambda: p_cfg(t))
            dup = False
        t.expect("out")
        out = p_out(t)
        t.expect("read")
        read = p_optres(t, (lambda: sorted(set(p_level(t)))) if npda else (lambda: p_cfg(t)))
        t.expect("acc")
        acc = p_optres(t, t.int)
        runs.append(dict(yields=ys, out=out, read=read, acc=acc, dup=dup))
    return valid, runs


# ----------------------------------------------------------------- one definition, several words
def spec_repr(spec: dict) -> str:
    return repr(spec)


def nontrivial(ys) -> bool:
    return len(ys) >= 2 and bool(ys[1])


def check_validate(ctx: Ctx, kind: str, spec: dict, enc: Enc, built, origin: str, words=(), level_cap: int = 12,
                   size_cap: int = 80):
    """Constructor outcome vs. model, and the determinism clause of the property on the real code."""
    line = ctx.driver(DRV).ask(toks("NPDA_VALIDATE" if kind == "N" else "DPDA_VALIDATE", enc.text))
    parts = line.split()
    model = ("ok", None) if parts == ["ok"] else ("err", parts[1])
    impl = ("ok", None) if built[0] == "ok" else built
    ctx.case(None)
    ctx.stat(origin + ":validate")
    ctx.stat(f"{'npda' if kind == 'N' else 'dpda'}_ctor:" + (impl[1] or "ok"))
    case = dict(kind=kind, spec=spec_repr(spec), op="validate")
    wrong = []
    ok_else = other_rules_ok(spec)
    two = Ref(kind, spec).two_moves() if kind == "D" else False
    if kind == "D":
        if two:
            ctx.stat("dpda_table_with_two_applicable_moves")
        if ok_else and two and impl != ("err", "NondeterminismError"):
            wrong.append(f"a configuration has two applicable moves but the DPDA constructor says {impl[1] or 'ok'}")
            if built[0] == "ok":
                # show that it matters: a word that the accepted DPDA and the NPDA / all runs decide differently
                wit = witness_two_moves(ctx, spec, built[1], words, level_cap, size_cap)
                if wit is not None:
                    wrong.append(wit[1])
                    case = dict(case, word=wit[0])
                    if (level_cap, size_cap) != (12, 80):
                        case.update(level_cap=level_cap, size_cap=size_cap)
                else:
                    case = dict(case, note="no word of length <= 4 (nor of this case's word list) found on which the "
                                           "accepted DPDA and the NPDA with the same table give different verdicts")
        if not two and impl == ("err", "NondeterminismError"):
            wrong.append("no configuration has two applicable moves but the constructor raises NondeterminismError")
    if ok_else and not two and impl[0] != "ok":
        wrong.append(f"well-formed {'deterministic ' if kind == 'D' else ''}definition rejected with {impl[1]}")
    if not ok_else and impl[0] == "ok":
        wrong.append("malformed definition accepted by the constructor")
    if impl[0] == "err" and impl[1] not in ("InvalidStateError", "InvalidSymbolError", "NondeterminismError",
                                              "InvalidAcceptanceModeError"):
        wrong.append(f"constructor crashed with {impl[1]}")
    if wrong:
        ctx.prop_fail(f"{'NPDA' if kind == 'N' else 'DPDA'} constructor: " + "; ".join(wrong),
                      dict(case, impl=impl), None)
    elif impl != model:
        ctx.corr_diff("NPDA_VALIDATE" if kind == "N" else "DPDA_VALIDATE", case, impl, model)
    return two


def check_table(ctx: Ctx, kind: str, spec: dict, words, origin: str, level_cap: int = 12, size_cap: int = 80,
                validate: bool = True):
    """All observations of one definition: constructor, runs on `words`, DPDA-vs-NPDA pair."""
    if "" in spec["stack_symbols"]:
        return check_empty_stack_symbol(ctx, kind, spec, words, origin, level_cap, size_cap)
    enc = Enc(kind, spec)
    built = build(kind, spec)
    two = False
    if validate or built[0] != "ok":
        two = check_validate(ctx, kind, spec, enc, built, origin, list(words), level_cap, size_cap)
    if isinstance(spec["initial_stack_symbol"], str) and len(spec["initial_stack_symbol"]) > 1:
        ctx.stat("initial_stack_symbol_of_more_than_one_character")
    if any(q not in spec["states"] for q in spec["transitions"]):
        ctx.stat("table_with_a_row_keyed_by_an_undeclared_state")
    if built[0] != "ok" or two:
        return
    obj = built[1]
    ref = Ref(kind, spec)
    drv = ctx.driver(DRV)
    words = list(words)
    if kind == "N" and any(len(e) == 0 for row in spec["transitions"].values() for sp in row.values()
                           for e in sp.values()):
        ctx.stat("npda_table_with_an_empty_set_entry")
    if any(ord(ch) > 127 for ch in "".join(spec["input_symbols"]) + "".join(spec["stack_symbols"])):
        ctx.stat("table_over_a_non_ascii_alphabet")
    if kind == "N":
        run_npda(ctx, drv, obj, spec, enc, ref, words, origin, level_cap, size_cap, "NPDA_RUN", "N")
        return
    # ---- DPDA
    obs = []
    for w in words:
        trace, out = impl_dpda(obj, w, level_cap)
        decided = out != "fuel"
        acc = call_res(lambda: obj.accepts_input(w)) if decided else None
        read = call_res(lambda: obj.read_input(w)) if decided else None
        obs.append((w, trace, out, acc, read))
    line = drv.ask(toks("DPDA_RUN", enc.text, len(words),
                        [toks(fuel_for(len(tr), out), size_cap, enc.word(w)) for (w, tr, out, _, _) in obs]))
    valid, runs = p_runs(line, False)
    if valid != ("ok", None):
        ctx.corr_diff("DPDA_VALIDATE", dict(kind=kind, spec=spec_repr(spec), op="validate"), ("ok", None), valid)
    d_verdicts = {}
    for (w, trace, out, acc, read), mod in zip(obs, runs):
        impl = dict(yields=[enc.cfg(c) for c in trace], out=out,
                    read=None if read is None else ((read[0], enc.cfg(read[1])) if read[0] == "ok" else read),
                    acc=None if acc is None else ((acc[0], int(acc[1])) if acc[0] == "ok" else acc), dup=False)
        etrace, eout = ref.expected_dpda(w, level_cap)
        expected = dict(yields=[enc.ref_cfg(c) for c in etrace], out=eout)
        note_run(ctx, "dpda", origin, impl, w, ref)
        ctx.case(("D", enc.text, w) if nontrivial(impl["yields"]) else None)
        case = dict(kind="D", spec=spec_repr(spec), word=w, op="run", level_cap=level_cap, size_cap=size_cap)
        wrong = judge(impl, expected, "DPDA")
        if wrong:
            ctx.prop_fail(f"DPDA reading {w!r}: " + "; ".join(wrong), dict(case, impl=impl, expected=expected), None)
        elif impl != mod:
            ctx.corr_diff("DPDA_RUN", case, impl, mod)
        d_verdicts[w] = impl["acc"]
        if ctx.evaluations % 1499 == 1:
            ctx.sample(dict(kind="DPDA", definition=spec_repr(spec), word=w, trace=[repr(c) for c in trace],
                            outcome=out, model=mod))
    # ---- the NPDA with the same table
    nspec = lift_spec(spec)
    nb = build("N", nspec)
    if nb[0] != "ok":
        ctx.prop_fail(f"a table accepted by DPDA is rejected by NPDA ({nb[1]})",
                      dict(kind="D", spec=spec_repr(spec), op="lift"), None)
        return
    n_verdicts = run_npda(ctx, drv, nb[1], nspec, enc, Ref("N", nspec), words, origin + ":lift", level_cap, size_cap,
                          "DPDA_LIFT_RUN", "L")
    for w in words:
        dv, nv = d_verdicts.get(w), n_verdicts.get(w)
        if dv is not None and nv is not None:
            ctx.stat("pair_both_decided")
            if dv != nv:
                ctx.prop_fail(f"DPDA and NPDA with the same table disagree on {w!r}: DPDA {dv}, NPDA {nv}",
                              dict(kind="D", spec=spec_repr(spec), word=w, op="pair", level_cap=level_cap,
                                   size_cap=size_cap), None)


def lift_spec(spec: dict) -> dict:
    """The NPDA definition with the same table as a DPDA definition."""
    nspec = dict(spec)
    nspec["transitions"] = {q: {a: {X: {e} for X, e in sp.items()} for a, sp in row.items()}
                            for q, row in spec["transitions"].items()}
    return nspec


def witness_two_moves(ctx: Ctx, spec: dict, obj, words, level_cap: int, size_cap: int):
    """The DPDA constructor accepted a table in which some configuration has two applicable moves
    (called by check_validate).  Look for a word on which that matters: the reference semantics of the
    table (all runs) and the real NPDA with the same table decide the word one way, the real DPDA the other."""
    nspec = lift_spec(spec)
    nb = build("N", nspec)
    if nb[0] != "ok":
        return
    ref = Ref("N", nspec)
    sy = sorted(a for a in spec["input_symbols"] if isinstance(a, str) and len(a) == 1)[:3]
    cand = list(words) + ["".join(t) for n in range(0, 5) for t in itertools.product(sy, repeat=n)]
    seen = set()
    for w in cand:
        if w in seen:
            continue
        seen.add(w)
        _, eout = ref.expected_npda(w, level_cap, size_cap)
        if eout not in ("returned", "raised RejectionException"):
            continue
        trace, out = impl_dpda(obj, w, 4 * level_cap)
        if out == "fuel":
            continue
        nlevels, nout = impl_npda(nb[1], w, level_cap, size_cap)
        if nout != eout:
            continue  # the NPDA reader itself is off: judged by its own family
        ctx.case(None)
        ctx.stat("accepted_table_with_two_moves:word_tried")
        if out != eout:
            dv, nv = call_res(lambda: obj.accepts_input(w)), call_res(lambda: nb[1].accepts_input(w))
            if dv != nv:
                return w, (f"the accepted DPDA and the NPDA with the same table disagree on {w!r}: DPDA {dv}, "
                           f"NPDA {nv}, all runs of the table (reference): "
                           f"{'accept' if eout == 'returned' else 'reject'}")
    return None


def check_empty_stack_symbol(ctx: Ctx, kind: str, spec: dict, words, origin: str, level_cap: int, size_cap: int):
    """'' declared as a stack symbol.  PDA.validate refuses it first thing (fix cb4efab): PDAStack.top()
    returns '' for an empty stack, so a table keyed by '' would let an empty stack move.  The model's
    stack-symbol type has no such value, so nothing is asked of the driver: the expected constructor
    outcome is InvalidSymbolError.  If the constructor accepts the definition, it is a valid table as far
    as the code is concerned and the property must hold for it: the runs are judged by the reference
    semantics (an empty stack has no move)."""
    cname = "NPDA" if kind == "N" else "DPDA"
    built = build(kind, spec)
    ctx.case(None)
    ctx.stat(origin + ":validate")
    ctx.stat("empty_string_declared_as_stack_symbol")
    ctx.stat(f"{cname.lower()}_ctor:" + (built[1] if built[0] == "err" else "ok"))
    case = dict(kind=kind, spec=spec_repr(spec), op="validate")
    if built == ("err", "InvalidSymbolError"):
        return
    if built[0] == "err":
        ctx.corr_diff(cname + "_VALIDATE", case, built, ("err", "InvalidSymbolError"))
        return
    obj, enc, ref = built[1], Enc(kind, spec), Ref(kind, spec)
    before = ctx.n_prop_fails
    for w in words:
        if kind == "N":
            levels, out = impl_npda(obj, w, level_cap, size_cap)
            ys = [sorted(enc.cfg(c) for c in lv) for lv in levels]
            eys, eout = ref.expected_npda(w, level_cap, size_cap)
            expected = dict(yields=[sorted(enc.ref_cfg(c) for c in lv) for lv in eys], out=eout)
        else:
            trace, out = impl_dpda(obj, w, level_cap)
            ys = [enc.cfg(c) for c in trace]
            eys, eout = ref.expected_dpda(w, level_cap)
            expected = dict(yields=[enc.ref_cfg(c) for c in eys], out=eout)
        decided = out != "fuel"
        acc = call_res(lambda: obj.accepts_input(w)) if decided else None
        impl = dict(yields=ys, out=out, acc=None if acc is None else ((acc[0], int(acc[1])) if acc[0] == "ok" else acc))
        ctx.case((kind + "e", enc.text, w) if nontrivial(ys) else None)
        ctx.stat(origin + ":accepted_by_code_only")
        wrong = []
        if impl["yields"] != expected["yields"]:
            wrong.append("the yields differ from the configurations reachable by moves (an empty stack has no move)")
        if impl["out"] != expected["out"]:
            wrong.append(f"reader ends with {impl['out']}, reference semantics says {expected['out']}")
        if decided and expected["out"] in ("returned", "raised RejectionException") \
                and impl["acc"] != ("ok", int(expected["out"] == "returned")):
            wrong.append(f"accepts_input gives {impl['acc']}")
        if wrong:
            ctx.prop_fail(f"{cname} whose table is keyed by the empty string (accepted by the constructor) reading "
                          f"{w!r}: " + "; ".join(wrong),
                          dict(kind=kind, spec=spec_repr(spec), word=w, op="run", level_cap=level_cap,
                               size_cap=size_cap, impl=impl, expected=expected), None)
    if ctx.n_prop_fails == before:
        # accepted although PDA.validate is expected to refuse it, and no run went wrong
        ctx.corr_diff(cname + "_VALIDATE", case, ("ok", None), ("err", "InvalidSymbolError"))


def run_npda(ctx, drv, obj, spec, enc, ref, words, origin, level_cap, size_cap, cmd, tag):
    obs = []
    for w in words:
        levels, out = impl_npda(obj, w, level_cap, size_cap)
        decided = out != "fuel"
        acc = call_res(lambda: obj.accepts_input(w)) if decided else None
        read = call_res(lambda: obj.read_input(w)) if decided else None
        obs.append((w, levels, out, acc, read))
    line = drv.ask(toks(cmd, enc.text, len(words),
                        [toks(fuel_for(len(lv), out), size_cap, enc.word(w)) for (w, lv, out, _, _) in obs]))
    valid, runs = p_runs(line, True)
    if valid != ("ok", None):
        ctx.corr_diff("NPDA_VALIDATE", dict(kind=tag, spec=spec_repr(spec), op="validate"), ("ok", None), valid)
    verdicts = {}
    for (w, levels, out, acc, read), mod in zip(obs, runs):
        impl = dict(yields=[sorted(enc.cfg(c) for c in lv) for lv in levels], out=out,
                    read=None if read is None else
                    ((read[0], sorted(enc.cfg(c) for c in read[1])) if read[0] == "ok" else read),
                    acc=None if acc is None else ((acc[0], int(acc[1])) if acc[0] == "ok" else acc), dup=False)
        elevels, eout = ref.expected_npda(w, level_cap, size_cap)
        expected = dict(yields=[sorted(enc.ref_cfg(c) for c in lv) for lv in elevels], out=eout)
        note_run(ctx, "npda", origin, impl, w, ref)
        ctx.case((tag, enc.text, w) if nontrivial(impl["yields"]) else None)
        case = dict(kind="N", spec=spec_repr(spec), word=w, op="run", level_cap=level_cap, size_cap=size_cap)
        wrong = judge(impl, expected, "NPDA")
        if wrong:
            ctx.prop_fail(f"NPDA reading {w!r}: " + "; ".join(wrong), dict(case, impl=impl, expected=expected), None)
        elif impl != mod:
            ctx.corr_diff(cmd, case, impl, mod)
        verdicts[w] = impl["acc"]
        if ctx.evaluations % 1499 == 1:
            ctx.sample(dict(kind="NPDA", definition=spec_repr(spec), word=w,
                            levels=[sorted(repr(c) for c in lv) for lv in levels], outcome=out, model=mod))
    return verdicts


def judge(impl: dict, expected: dict, what: str):
    """The property on the real code's observations, against the reference semantics."""
    wrong = []
    if impl["yields"] != expected["yields"]:
        k = next((i for i, (a, b) in enumerate(zip(impl["yields"], expected["yields"])) if a != b),
                 min(len(impl["yields"]), len(expected["yields"])))
        wrong.append(f"yield #{k} differs from the configurations reachable in {k} moves "
                     f"(or the reader stops at another level than the reference)")
    if impl["out"] != expected["out"]:
        wrong.append(f"reader ends with {impl['out']}, reference semantics says {expected['out']}")
    if impl["out"] != "fuel":
        want = ("ok", 1) if expected["out"] == "returned" else ("ok", 0)
        if expected["out"] in ("returned", "raised RejectionException") and impl["acc"] != want:
            wrong.append(f"accepts_input gives {impl['acc']}, reference verdict {want}")
        if impl["out"] == "returned" and impl["yields"] and impl["read"] != ("ok", impl["yields"][-1]):
            wrong.append("read_input does not return the last yielded configuration(s)")
        if impl["out"].startswith("raised") and impl["read"] != ("err", impl["out"].split()[1]):
            wrong.append("read_input does not raise what the stepwise reader raises")
        if impl["out"].startswith("raised") and impl["out"] != "raised RejectionException":
            wrong.append(f"crash: {impl['out']}")
    return wrong


def note_run(ctx: Ctx, fam: str, origin: str, impl: dict, w: str, ref: Ref):
    ctx.stat(origin)
    ctx.stat(f"{fam}:{'accept' if impl['out'] == 'returned' else 'reject' if impl['out'].startswith('raised') else 'undecided(budget)'}")
    n = len(impl["yields"])
    ctx.stat(f"{fam}:yields " + ("1" if n == 1 else "2-3" if n <= 3 else "4-7" if n <= 7 else "8+"))
    if ref.accepting(ref.start(w)):
        ctx.stat(f"{fam}:start configuration accepts")
    oc = origin.split(":")[0].split("_")[0]
    if oc == "random":
        ctx.stat(f"{fam}[random]:{'accept' if impl['out'] == 'returned' else 'reject' if impl['out'].startswith('raised') else 'undecided(budget)'}")
        ctx.stat(f"{fam}[random]:yields " + ("1" if n == 1 else "2-3" if n <= 3 else "4-7" if n <= 7 else "8+"))
    if fam == "npda":
        m = max((len(l) for l in impl["yields"]), default=0)
        ctx.stat("npda:max level size " + ("0-1" if m <= 1 else "2-3" if m <= 3 else "4-9" if m <= 9 else "10+"))
        if oc == "random":
            ctx.stat("npda[random]:max level size " + ("0-1" if m <= 1 else "2-3" if m <= 3 else "4-9" if m <= 9 else "10+"))
        if impl["yields"] and any(not c[2] for l in impl["yields"] for c in l):
            ctx.stat("npda:some configuration with empty stack")
    if len(impl["yields"]) > len(w) + 1:
        ctx.stat(f"{fam}:λ-moves taken (more yields than symbols)")
    if any(c not in ref_alphabet(ref) for c in w):
        ctx.stat(f"{fam}:word with a symbol that labels no transition")


def ref_alphabet(ref: Ref):
    cache = getattr(ref, "_alpha", None)
    if cache is None:
        cache = {a for rs in ref.rules.values() for a, _, _ in rs}
        ref._alpha = cache
    return cache


# ----------------------------------------------------------------- generators
def mk_spec(states, insyms, stsyms, trans, init, z, finals, mode):
    return dict(states=set(states), input_symbols=set(insyms), stack_symbols=set(stsyms), transitions=trans,
                initial_state=init, initial_stack_symbol=z, final_states=set(finals), acceptance_mode=mode)


def table_from_rows(kind: str, rows, tuple_push=False):
    """rows: iterable of ((q, a, X), (p, push)) → nested dict (None for a DPDA key clash)."""
    t = {}
    for (q, a, X), (p, push) in rows:
        pv = tuple(push) if tuple_push else push
        sp = t.setdefault(q, {}).setdefault(a, {})
        if kind == "D":
            if X in sp:
                return None
            sp[X] = (p, pv)
        else:
            sp.setdefault(X, set()).add((p, pv))
    return t


def small_domain(n_states: int, max_rows: int):
    """All row sets of the bounded-exhaustive domain."""
    states = list(range(n_states))
    pushes = ["", "Z", "Y", "ZZ", "ZY", "YZ", "YY"]
    keys = [(q, a, X) for q in states for a in ("a", "") for X in "ZY"]
    pairs = [(k, (p, push)) for k in keys for p in states for push in pushes]
    for r in range(max_rows + 1):
        yield from itertools.combinations(pairs, r)


def variants(n_states: int):
    subsets = [set(c) for r in range(n_states + 1) for c in itertools.combinations(range(n_states), r)]
    for mode in MODES:
        if mode == "empty_stack":
            yield mode, set()
        else:
            for f in subsets:
                yield mode, f


def run_small(ctx: Ctx, n_states: int, rows, words, origin, level_cap, size_cap):
    states = list(range(n_states))
    ntab = table_from_rows("N", rows)
    dtab = table_from_rows("D", rows)
    first = True
    for mode, finals in variants(n_states):
        check_table(ctx, "N", mk_spec(states, "a", "ZY", ntab, 0, "Z", finals, mode), words, origin,
                    level_cap, size_cap, validate=first)
        if dtab is not None:
            check_table(ctx, "D", mk_spec(states, "a", "ZY", dtab, 0, "Z", finals, mode), words, origin,
                        level_cap, size_cap, validate=first)
        first = False


STACK_ALPHABETS = ["Z", "ZY", "ZYX", "0a", "#AB", "ab", "Ωß", "ZY"]
INPUT_ALPHABETS = ["a", "ab", "ab", "01", "abc", "éλ", "ab"]


def rand_push(rng, stsyms, extra=""):
    r = rng.random()
    n = 0 if r < 0.3 else 1 if r < 0.6 else 2 if r < 0.92 else 3
    s = "".join(rng.choice(stsyms + extra) for _ in range(n))
    return tuple(s) if rng.random() < 0.5 else s


def rand_table(rng, kind: str, deterministic: bool):
    n = rng.randint(1, 3)
    names = gen.name_pool(rng, n)[:n]
    n = len(names)
    insyms = rng.choice(INPUT_ALPHABETS)
    stsyms = rng.choice(STACK_ALPHABETS)
    n_rows = rng.choice([0, 1, 2, 2, 3, 3, 4, 5, 6, 8])
    p_eps = rng.choice([0.0, 0.2, 0.4, 0.7])
    # pushed symbols / targets outside the declared sets are not checked by validate: use them sometimes
    extra = "Q" if rng.random() < 0.1 else ""
    tnames = names + (["ghost"] if rng.random() < 0.08 else [])
    # a few hot (state, top) pairs so that moves actually chain
    t = {}
    z = rng.choice(stsyms)
    for i in range(n_rows):
        q = rng.choice(names)
        a = "" if rng.random() < p_eps else rng.choice(insyms)
        X = z if rng.random() < 0.4 else rng.choice(stsyms)
        row = t.setdefault(q, {})
        if kind == "D" and deterministic:
            # keep λ and symbol moves apart for the same stack top
            if a == "" and any(X in sp for b, sp in row.items() if b != ""):
                continue
            if a != "" and X in row.get("", {}):
                continue
        sp = row.setdefault(a, {})
        e = (rng.choice(tnames), rand_push(rng, stsyms, extra))
        if kind == "D":
            sp[X] = e
        else:
            sp.setdefault(X, set()).add(e)
            if rng.random() < 0.3:
                sp[X].add((rng.choice(tnames), rand_push(rng, stsyms, extra)))
            if rng.random() < 0.06:
                # an entry that is an empty set: `X in transitions[q][a]` holds (so _has_lambda_transition is
                # true for a == ""), but there is no successor
                sp[rng.choice(stsyms)] = set()
    if rng.random() < 0.1 and names:
        t.setdefault(rng.choice(names), {})  # a state with an empty row
    if rng.random() < 0.08 and t:
        t[rng.choice(list(t))].setdefault("", {})  # an empty λ row
    init = names[0]
    r = rng.random()
    finals = set() if r < 0.1 else set(names) if r < 0.2 else {q for q in names if rng.random() < 0.45}
    if rng.random() < 0.25:
        finals.add(init)  # start configuration accepts "" by final state
    mode = rng.choice(MODES)
    return mk_spec(names, insyms, stsyms, t, init, z, finals, mode)


def dense_table(rng, kind: str, deterministic: bool, n_states=(1, 3)):
    """Few states and symbols, most keys filled: long chains of moves, branching, λ-cycles."""
    n = rng.randint(*n_states)
    names = gen.name_pool(rng, n)[:n]
    if len(names) < n:
        names = list(range(n))
    insyms = rng.choice(["a", "ab", "ab"])
    stsyms = rng.choice(["Z", "ZY", "ZY", "ZYX"])
    fill = rng.choice([0.35, 0.5, 0.7, 0.9])
    p_eps = rng.choice([0.1, 0.25, 0.5])
    p_pop = rng.choice([0.15, 0.3, 0.5])
    t = {}

    def entry():
        r = rng.random()
        k = 0 if r < p_pop else 1 if r < p_pop + 0.35 else 2 if r < 0.95 else 3
        push = "".join(rng.choice(stsyms) for _ in range(k))
        return (rng.choice(names), tuple(push) if rng.random() < 0.5 else push)

    for q in names:
        for X in stsyms:
            if kind == "D" and deterministic:
                labels = [""] if rng.random() < p_eps else list(insyms)
            else:
                labels = list(insyms) + ([""] if rng.random() < 2 * p_eps else [])
            for a in labels:
                if rng.random() > fill:
                    continue
                sp = t.setdefault(q, {}).setdefault(a, {})
                if kind == "D":
                    sp[X] = entry()
                else:
                    sp[X] = {entry() for _ in range(rng.choice([1, 1, 2, 3] if rng.random() < 0.95 else [0]))}
    r = rng.random()
    finals = set() if r < 0.1 else {q for q in names if rng.random() < 0.4}
    if rng.random() < 0.15:
        finals.add(names[0])
    return mk_spec(names, insyms, stsyms, t, names[0], rng.choice(stsyms), finals, rng.choice(MODES))


def walk_word(rng, kind, spec, max_moves):
    """A word read along a random sequence of moves of the table (often accepted / deep)."""
    ref = Ref(kind, spec)
    q, stack, w = ref.init, (ref.z,), ""
    for _ in range(rng.randint(0, max_moves)):
        rs = ref.rules.get((q, stack[0]), ()) if stack else ()
        if not rs:
            break
        a, p, push = rng.choice(rs)
        w += a if len(a) == 1 else ""
        q, stack = p, push + stack[1:]
    return w


def rand_words(rng, spec, k, max_len, kind="N"):
    sy = sorted(spec["input_symbols"])
    f = gen.foreign_symbol(sy)
    ws = {""}
    tries = 0
    while len(ws) < k and tries < 20:
        tries += 1
        if rng.random() < 0.5:
            ws.add(walk_word(rng, kind, spec, max_len + 3)[:max_len + 1])
        else:
            ws.add(gen.rand_word(rng, sy, max_len, f))
    return sorted(ws)


def malform(rng, kind, spec):
    """Break one or two of the rules validate checks (order of the raised classes matters)."""
    s = dict(spec)
    s["transitions"] = {q: {a: dict(sp) for a, sp in row.items()} for q, row in spec["transitions"].items()}
    for _ in range(rng.choice([1, 1, 2, 3])):
        k = rng.randrange(7)
        if k == 0:
            s["initial_state"] = "nowhere"
        elif k == 1:
            s["initial_stack_symbol"] = "?"
        elif k == 2:
            s["final_states"] = set(s["final_states"]) | {"nowhere"}
        elif k == 3:
            s["acceptance_mode"] = rng.choice(["foo", "final", "BOTH", "empty_stack_", "final_state,both"])
        elif k == 4 and s["transitions"]:
            q = rng.choice(list(s["transitions"]))
            e = (q, "")
            s["transitions"][q]["!"] = {rng.choice(sorted(s["stack_symbols"])): e if kind == "D" else {e}}
        elif k == 5 and s["transitions"]:
            q = rng.choice(list(s["transitions"]))
            if s["transitions"][q]:
                a = rng.choice(list(s["transitions"][q]))
                e = (q, "")
                s["transitions"][q][a]["?"] = e if kind == "D" else {e}
        elif k == 6 and s["transitions"]:
            # a row keyed by a non-state: validate does not look at row keys
            q = rng.choice(list(s["transitions"]))
            s["transitions"]["nowhere"] = s["transitions"][q]
    return s


# ----------------------------------------------------------------- round 4: names of more than one character
# A stack symbol is any non-empty str; only a *str push* is read as a sequence of one-character symbols.
# The shaped generators above work with one-character stack symbols; these tables are renamed copies of
# theirs, with every push written as a tuple of symbols (rarely as the concatenated str, which the
# library — and the reference — read character by character: with names that are prefixes of each other
# the tuple ('Z0',) and the str 'Z0' are different pushes).
STACK_NAME_STYLES = [
    ["Z0", "A1", "B2", "C3"],           # the textbook bottom marker
    ["Z0", "A", "B", "C"],              # only one long name
    ["bottom", "x", "yy", "zzz"],
    ["Z", "Z0", "0", "Z00"],            # prefixes / suffixes of each other, all characters declared too
    ["#", "##", "###", "#0"],
    ["$$", "A", "AA", "AAA"],
    ["⊥⊥", "⊥0", "Ωß", "ß"],
    ["a", "ab", "ba", "b"],             # overlapping the input alphabet
    ["q0", "q1", "0", "1"],             # overlapping usual state names
]
STATE_NAME_STYLES = [
    ["q", "q0", "q00", "q01", "q1"],
    ["start", "loop", "end", "st", "lo"],
    ["Z0", "A1", "Z", "0", "bottom"],   # the same strings as stack symbols
    ["s0", "s1", "s2", "s3", "s4"],
    [("q", 0), ("q", 1), "q0", "q1", ("q0",)],
]
GHOST_NAMES = ["ghost", "q9", 99, ("g",), "", -1, "Z0"]


def rename_spec(rng, kind: str, spec: dict) -> dict:
    ss = sorted(spec["stack_symbols"])
    pool = list(rng.choice(STACK_NAME_STYLES))
    rng.shuffle(pool)
    smap = dict(zip(ss, pool))
    z = spec["initial_stack_symbol"]
    if len(smap[z]) == 1 and rng.random() < 0.85:
        for y in ss:
            if len(smap[y]) > 1:
                smap[z], smap[y] = smap[y], smap[z]
                break
        else:
            smap[z] = next(n for n in pool if len(n) > 1 and n not in smap.values())
    names = sorted(spec["states"], key=repr)
    qmap = {}
    if rng.random() < 0.6 and len(names) <= 5:
        qpool = list(rng.choice(STATE_NAME_STYLES))
        rng.shuffle(qpool)
        qmap = dict(zip(names, qpool))
    str_pushes = rng.random() < 0.25

    def entry(e):
        p, push = e
        syms = tuple(smap.get(y, y + "'") for y in push)  # y + "'": an undeclared symbol stays undeclared
        if not syms and rng.random() < 0.5:
            syms = ""
        elif str_pushes and rng.random() < 0.3:
            syms = "".join(syms)
        return (qmap.get(p, p), syms)

    t = {}
    for q, row in spec["transitions"].items():
        t[qmap.get(q, q)] = {a: {smap[X]: (entry(e) if kind == "D" else {entry(x) for x in sorted(e, key=repr)})
                                 for X, e in sp.items()} for a, sp in row.items()}
    return mk_spec([qmap.get(q, q) for q in names], spec["input_symbols"], [smap[y] for y in ss], t,
                   qmap.get(spec["initial_state"], spec["initial_state"]), smap[z],
                   [qmap.get(q, q) for q in spec["final_states"]], spec["acceptance_mode"])


def ghost_table(rng, kind: str):
    """A table with rows keyed by names that `states` does not list, entered by a move of the start
    configuration.  PDA.validate checks neither row keys nor move targets against `states`, so such a row is
    live: its moves are taken by both readers, and a λ-move next to a symbol move in it makes the table
    nondeterministic like in any other row."""
    spec = dense_table(rng, kind, True, n_states=(1, 3))
    names = sorted(spec["states"], key=repr)
    insyms, stsyms = sorted(spec["input_symbols"]), sorted(spec["stack_symbols"])
    ghosts = [g for g in rng.sample(GHOST_NAMES, rng.choice([1, 1, 2])) if g not in spec["states"]] or ["ghost"]
    everyone = names + ghosts + ghosts
    t = spec["transitions"]
    init, z = spec["initial_state"], spec["initial_stack_symbol"]

    def entry(keep=None):
        k = rng.choice([0, 1, 1, 2])
        push = tuple(rng.choice(stsyms) for _ in range(k))
        if keep is not None:
            push = (keep,) + push[1:]
        return (rng.choice(everyone), push if rng.random() < 0.5 else "".join(push))

    def put(row, a, X, e):
        if kind == "D":
            row.setdefault(a, {})[X] = e
        else:
            row.setdefault(a, {}).setdefault(X, set()).add(e)

    for g in ghosts:
        row = t.setdefault(g, {})
        for X in stsyms:
            r = rng.random()
            for a in ([""] if r < 0.25 else insyms if r < 0.9 else []):
                if rng.random() < 0.8:
                    put(row, a, X, entry())
    if rng.random() < 0.45:
        # a λ-move and a symbol move for the same stack top, in a row of an undeclared name only
        g, X = rng.choice(ghosts), (z if rng.random() < 0.6 else rng.choice(stsyms))
        put(t[g], "", X, entry(keep=X if rng.random() < 0.5 else None))
        put(t[g], rng.choice(insyms), X, entry())
    # a move of the start configuration that enters the first undeclared row with the top it started with
    row = t.setdefault(init, {})
    a = "" if z in row.get("", {}) else rng.choice(insyms)
    e = (ghosts[0], (z,))
    if kind == "D":
        row.setdefault(a, {})[z] = e
    else:
        row.setdefault(a, {}).setdefault(z, set()).add(e)
    return spec


def textbook_z0(kind: str, mode: str):
    """a^n b^n with the bottom marker called 'Z0' (Hopcroft–Ullman style names)."""
    e = (lambda x: {x}) if kind == "N" else (lambda x: x)
    return dict(states={"q0", "q1", "q2"}, input_symbols={"a", "b"}, stack_symbols={"Z0", "A"},
                transitions={"q0": {"a": {"Z0": e(("q0", ("A", "Z0"))), "A": e(("q0", ("A", "A")))},
                                    "b": {"A": e(("q1", ""))}},
                             "q1": {"b": {"A": e(("q1", ""))}, "": {"Z0": e(("q2", ""))}}},
                initial_state="q0", initial_stack_symbol="Z0", final_states={"q2"}, acceptance_mode=mode)


# ----------------------------------------------------------------- deep / large instances (harness/pda_deep.py)
def _bucket(ctx: Ctx, prefix: str, n: int, edges=(1, 100, 1100, 2000, 3000, 5000)):
    lo = 0
    for e in edges:
        if n >= e:
            lo = e
    ctx.stat(f"{prefix} {lo}+")


def _short_word(w: str) -> str:
    return repr(w) if len(w) <= 40 else f"{w[:12]!r}…{w[-8:]!r} ({len(w)} symbols)"


def _deep_once(c: "PD.Case", cls: str):
    """Build the real object from the case's parameters and judge one complete run of it."""
    kind = "D" if cls == "DPDA" else "N"
    b = PD.guarded_call(lambda: (DPDA if kind == "D" else NPDA)(**c.kwargs(kind)))
    if b[0] != "ok":
        return [f"the {cls} constructor refuses the definition with {b[1]}"], dict(count=0, end="ctor", peak=0,
                                                                                  maxlevel=0), None
    wrong, info = PD.judge(c, cls, b[1])
    return wrong, info, b[1]


def check_deep(ctx: Ctx, c: "PD.Case", origin: str) -> bool:
    """One closed-form case of harness/pda_deep.py on the real code: a deterministic table as DPDA and as the
    NPDA with the same table, a nondeterministic one as NPDA.  Every yield of read_input_stepwise is compared
    with the in-place textbook run (the closed-form level for the nondeterministic families); the number of
    yields, the way the generator ends, the final configuration, the deepest stack, accepts_input and read_input
    with the closed form; the two classes with each other.  No model round trip (the Lean driver is not asked):
    the answers are known.  A complaint is re-confirmed on objects rebuilt from the parameters, so the replay
    (family + parameters) re-runs exactly this.  Returns True when the case held."""
    PD.verify_closed_form(c)           # InfraError if this harness' own closed form is wrong
    ctx.stat(origin)
    ctx.stat("deep:family " + c.family)
    ctx.stat("deep:judged by closed form, no model round trip")
    ctx.stat(f"deep:closed form {c.verdict}, mode {c.mode}")
    _bucket(ctx, "deep:word length", len(c.word))
    _bucket(ctx, "deep:moves of the run", c.moves)
    _bucket(ctx, "deep:peak stack depth", c.peak)
    if len(c.word) <= 2 and c.moves >= 1000:
        ctx.stat("deep:1000+ lambda-moves on a word of <=2 symbols")
    _bucket(ctx, "deep:rows of the table", len({k[0] for k, _ in c.rows}))
    _bucket(ctx, "deep:longest push", max(len(p) for _, (_q, p) in c.rows))
    held, verdicts = True, {}
    for cls in (("DPDA", "NPDA") if c.deterministic else ("NPDA",)):
        ctx.case(("DEEP", c.family, tuple(sorted(c.params.items())), cls))
        ctx.stat("deep:run as " + cls + ("" if c.deterministic or cls == "DPDA" else " (frontier of 2)"))
        wrong, info, _m = _deep_once(c, cls)
        _bucket(ctx, f"deep:{cls} yields", info["count"])
        verdicts[cls] = info.get("acc")
        if wrong:
            again, _i, m2 = _deep_once(PD.build(c.family, c.params), cls)
            if not again:
                ctx.corr_diff("deep-not-reproducible", dict(c.replay(), cls=cls), wrong[:2], "holds on a rebuilt object")
                continue
            held = False
            ctx.prop_fail(f"{cls} {c.label()} reading {_short_word(c.word)} (closed form: {c.verdict} after "
                          f"{c.moves} moves, stack depth up to {c.peak}): " + "; ".join(again[:3]),
                          dict(c.replay(), cls=cls, definition=repr(m2)[:400] if len(c.rows) < 40 else cls), None)
    if held and len(verdicts) == 2:
        ctx.stat("deep:pair_both_decided")
        if verdicts["DPDA"] != verdicts["NPDA"]:
            held = False
            ctx.prop_fail(f"{c.label()}: DPDA and NPDA with the same table disagree on {_short_word(c.word)}: "
                          f"{verdicts}", dict(c.replay(), cls="pair"), None)
    if PD.TIMEOUTS:
        ctx.stat("deep:watchdog_hits", PD.TIMEOUTS)
        PD.TIMEOUTS = 0
    if len(ctx.samples) < ctx.MAX_SAMPLES and c.family in ("brackets", "lchain", "palguess"):
        ctx.sample(dict(kind="DEEP", case=c.label(), word=_short_word(c.word),
                        closed_form=dict(verdict=c.verdict, moves=c.moves, peak_stack=c.peak,
                                         final=PD._show(c.final)), observed={k: repr(v) for k, v in verdicts.items()}))
    return held


def check_deep_ctor(ctx: Ctx, v: "PD.VCase", origin: str) -> bool:
    """The determinism clause on a large definition: the DPDA constructor must refuse it with
    NondeterminismError exactly when the construction put a lambda-move next to a symbol move for one stack
    top; the NPDA constructor accepts the same table."""
    ctx.stat(origin)
    ctx.stat("deep:family " + v.family)
    ctx.stat("deep:judged by closed form, no model round trip")
    ctx.stat("deep:constructor on a large table, expected " + v.expect)
    _bucket(ctx, "deep:rows of the table", v.rows)
    _bucket(ctx, "deep:entries of the table", v.entries, (1, 100, 400, 1100, 2000, 3000))
    ctx.case(("DEEPV", v.family, repr(sorted(v.params.items()))))
    wrong, _info = PD.judge_ctor(v, DPDA, NPDA)
    if wrong:
        again, info = PD.judge_ctor(PD.vbuild(v.family, v.params), DPDA, NPDA)
        if not again:
            ctx.corr_diff("deep-not-reproducible", v.replay(), wrong[:2], "holds on a rebuilt definition")
            return True
        ctx.prop_fail(f"DPDA constructor on {v.label()} ({v.rows} rows, {v.entries} entries): " + "; ".join(again),
                      dict(v.replay(), impl=info), None)
    if PD.TIMEOUTS:
        ctx.stat("deep:watchdog_hits", PD.TIMEOUTS)
        PD.TIMEOUTS = 0
    return not wrong


def deep_selftest(ctx: Ctx):
    """The closed forms on small twins (parameters 2–5) against the module's textbook oracle `Ref` (stack top
    first, breadth first — shares nothing with harness/pda_deep.py) and a brute-force two-moves test; a
    disagreement is a defect of the harness.  The twins then go through the ordinary check_table: real code,
    Lean model and `Ref` on the very tables whose big versions are judged by closed form only."""
    cases, vcases = PD.small_twins()
    for c in cases:
        PD.verify_closed_form(c)
        bad = None
        want_out = "returned" if c.verdict == "accept" else "raised RejectionException"
        if c.deterministic:
            spec = c.kwargs("D")
            ref = Ref("D", spec)
            tr, out = ref.expected_dpda(c.word, 400)
            mine = [lv[0] for lv in PD.level_run(c)]
            theirs = [(q, rest, tuple(reversed(stk))) for (q, rest, stk) in tr]
            if ref.two_moves() or out != want_out or theirs != mine or len(tr) != c.expected_yields("DPDA") \
                    or theirs[-1] != c.final or max(len(t[2]) for t in theirs) != c.peak:
                bad = "deterministic run"
        nspec = c.kwargs("N")
        lv, out = Ref("N", nspec).expected_npda(c.word, 400, 50)
        mine = [set(x) for x in PD.level_run(c)] + ([set()] if c.verdict == "reject" else [])
        theirs = [{(q, rest, tuple(reversed(stk))) for (q, rest, stk) in x} for x in lv]
        if out != want_out or theirs != mine or len(lv) != c.expected_yields("NPDA"):
            bad = "levels"
        if bad:
            raise InfraError(f"pda_deep: closed form of the small twin {c.label()} disagrees with the textbook "
                             f"oracle ({bad})")
        ctx.stat("deep:small twin checked against the textbook oracle")
        if c.deterministic:
            check_table(ctx, "D", c.kwargs("D"), [c.word], "deep_small_twin", 60, 80)
        else:
            check_table(ctx, "N", nspec, [c.word], "deep_small_twin", 60, 80)
    for v in vcases:
        if not other_rules_ok(v.spec) or Ref("D", v.spec).two_moves() != (v.expect != "ok"):
            raise InfraError(f"pda_deep: expectation of the small twin {v.label()} disagrees with the brute-force "
                             f"two-moves test")
        ctx.stat("deep:small twin checked against the textbook oracle")
        check_table(ctx, "D", v.spec, [""], "deep_small_twin", 12, 80)


def deep_family(ctx: Ctx):
    """Size thresholds (recursion limit near depth 1000, caches of 128 entries, cut-offs, quadratic copies): see
    harness/pda_deep.py.  ≈ 4 s per quick run on the unchanged tree."""
    deep_selftest(ctx)
    cases, vcases = PD.plan(ctx.rng, ctx.thorough())
    for c in cases:
        check_deep(ctx, c, "deep_large_instances")
    for v in vcases:
        check_deep_ctor(ctx, v, "deep_large_instances")


# ----------------------------------------------------------------- corpus
def corpus():
    """Triggers of past defects (§8 F7), killers of the Appendix-D mutants m03 / m05 and
    the two docstring machines."""
    kw = dict(states={"q0", "q1"}, input_symbols={"a"}, stack_symbols={"Z"}, initial_state="q0",
              initial_stack_symbol="Z")
    # F7: start configuration accepts, a λ-move is available
    yield "D", dict(kw, transitions={"q0": {"": {"Z": ("q1", ("Z",))}}}, final_states={"q0"},
                    acceptance_mode="final_state"), ["", "a"]
    yield "D", dict(kw, transitions={"q0": {"": {"Z": ("q1", ("Z",))}}}, final_states={"q0"},
                    acceptance_mode="both"), ["", "a"]
    # m03: mode "both" must accept on an empty stack in a non-final state
    yield "N", dict(kw, transitions={"q0": {"": {"Z": {("q1", "")}}}}, final_states=set(),
                    acceptance_mode="both"), ["", "a"]
    yield "D", dict(kw, transitions={"q0": {"a": {"Z": ("q1", "")}}}, final_states=set(),
                    acceptance_mode="both"), ["", "a", "aa"]
    # m05: one-symbol sibling next to a λ-move on the same stack top
    yield "D", dict(kw, transitions={"q0": {"a": {"Z": ("q1", "Z")}, "": {"Z": ("q0", "Z")}}}, final_states={"q1"},
                    acceptance_mode="final_state"), ["a"]
    yield "D", dict(kw, transitions={"q0": {"": {"Z": ("q0", "Z")}, "a": {"Z": ("q1", "Z")}}}, final_states={"q1"},
                    acceptance_mode="final_state"), ["a"]
    # docstring DPDA: a^n b^n
    yield "D", dict(states={"q0", "q1", "q2", "q3"}, input_symbols={"a", "b"}, stack_symbols={"0", "1"},
                    transitions={"q0": {"a": {"0": ("q1", ("1", "0"))}},
                                 "q1": {"a": {"1": ("q1", ("1", "1"))}, "b": {"1": ("q2", "")}},
                                 "q2": {"b": {"1": ("q2", "")}, "": {"0": ("q3", ("0",))}}},
                    initial_state="q0", initial_stack_symbol="0", final_states={"q3"},
                    acceptance_mode="final_state"), ["", "ab", "aabb", "aab", "abb", "ba", "aaabbb", "abc"]
    # docstring NPDA: palindromes
    pal = {"q0": {"": {"#": {("q2", "#")}},
                  "a": {"#": {("q0", ("A", "#"))}, "A": {("q0", ("A", "A")), ("q1", "")}, "B": {("q0", ("A", "B"))}},
                  "b": {"#": {("q0", ("B", "#"))}, "A": {("q0", ("B", "A"))}, "B": {("q0", ("B", "B")), ("q1", "")}}},
           "q1": {"": {"#": {("q2", "#")}}, "a": {"A": {("q1", "")}}, "b": {"B": {("q1", "")}}}}
    yield "N", dict(states={"q0", "q1", "q2"}, input_symbols={"a", "b"}, stack_symbols={"A", "B", "#"},
                    transitions=pal, initial_state="q0", initial_stack_symbol="#", final_states={"q2"},
                    acceptance_mode="final_state"), ["", "aa", "abba", "abab", "a", "baab", "bb", "abc"]
    # λ-cycle that never decides; λ-cycle that empties the stack (mode both / empty_stack)
    yield "N", dict(kw, transitions={"q0": {"": {"Z": {("q0", "ZZ"), ("q1", "Z")}}}}, final_states=set(),
                    acceptance_mode="final_state"), ["", "a"]
    yield "N", dict(kw, transitions={"q0": {"": {"Z": {("q0", "ZZ")}}, "a": {"Z": {("q1", "")}}},
                                     "q1": {"": {"Z": {("q1", "")}}}}, final_states=set(),
                    acceptance_mode="empty_stack"), ["", "a", "aa"]
    # an NPDA entry that is an empty set: the λ-guard `_has_lambda_transition` is true, no successor exists
    yield "N", dict(kw, transitions={"q0": {"": {"Z": set()}}}, final_states={"q1"},
                    acceptance_mode="final_state"), ["", "a"]
    yield "N", dict(kw, transitions={"q0": {"a": {"Z": set()}, "": {"Z": {("q1", "Z")}}}, "q1": {"": {"Z": set()}}},
                    final_states={"q1"}, acceptance_mode="both"), ["", "a", "aa"]
    # round 4: stack symbols / state names of more than one character; a row keyed by an undeclared name
    for kind in "ND":
        for mode in MODES:
            yield kind, textbook_z0(kind, mode), ["", "ab", "aabb", "aab", "abb", "ba", "b"]
    yield "N", dict(states={"s", "st"}, input_symbols={"a"}, stack_symbols={"Z", "Z0", "0"},
                    transitions={"s": {"a": {"Z0": {("s", "Z0"), ("st", ("Z0", "Z0"))}, "Z": {("st", "")}},
                                       "": {"0": {("st", ("Z",))}}}},
                    initial_state="s", initial_stack_symbol="Z0", final_states={"st"},
                    acceptance_mode="final_state"), ["", "a", "aa", "aaa"]
    yield "D", dict(kw, transitions={"q0": {"a": {"Z": ("ghost", "Z")}},
                                     "ghost": {"a": {"Z": ("q1", "Z")}, "": {"Z": ("q0", "Z")}}},
                    final_states={"q1"}, acceptance_mode="final_state"), ["aa", "a"]
    yield "D", dict(kw, transitions={"q0": {"a": {"Z": ("ghost", "ZZ")}},
                                     "ghost": {"a": {"Z": ("q1", "")}}, "q1": {"": {"Z": ("q1", "")}}},
                    final_states=set(), acceptance_mode="empty_stack"), ["aa", "a", "aaa"]
    # review rev1 GAP-2 (repaired by cb4efab): '' declared as a stack symbol and used as a key — PDAStack.top()
    # of an empty stack is '', so the empty stack moved to q1 and '' was accepted.  Must be refused now.
    for kind in "ND":
        e = (lambda x: {x}) if kind == "N" else (lambda x: x)
        yield kind, dict(states={"q0", "q1"}, input_symbols={"a"}, stack_symbols={"Z", ""},
                         transitions={"q0": {"": {"Z": e(("q0", "")), "": e(("q1", "Z"))}}},
                         initial_state="q0", initial_stack_symbol="Z", final_states={"q1"},
                         acceptance_mode="final_state"), ["", "a"]
        yield kind, dict(states={"q0", "q1"}, input_symbols={"a"}, stack_symbols={"Z", ""},
                         transitions={"q0": {"a": {"Z": e(("q0", "")), "": e(("q1", ("Z",)))}}},
                         initial_state="q0", initial_stack_symbol="Z", final_states={"q1"},
                         acceptance_mode="both"), ["", "a", "aa"]


# ----------------------------------------------------------------- entry points
def run(ctx: Ctx):
    rng = ctx.rng
    thorough = ctx.thorough()
    for kind, spec, words in corpus():
        check_table(ctx, kind, spec, words, "corpus")
    # ---- bounded-exhaustive
    words = ["", "a", "aa", "aaa"]
    lc, sc = 7, 60
    full = [(1, 3), (2, 2)] if thorough else [(1, 2), (2, 1)]
    for n_states, max_rows in full:
        for rows in small_domain(n_states, max_rows):
            run_small(ctx, n_states, rows, words, f"exhaustive_{n_states}st", lc, sc)
        ctx.exhaustive(f"every NPDA and DPDA table with {n_states} state(s), input symbol a, stack symbols Z,Y, "
                       f"≤{max_rows} rows (state, a|λ, top) → (state, push of length ≤2), initial stack Z, × all "
                       f"acceptance modes × all final sets × words '', a, aa, aaa (level budget {lc})")
    # the next size of the same domain, sampled
    for n_states, n_rows, quick_n, thorough_n in ((1, 3, 250, 0), (2, 2, 300, 0), (2, 3, 250, 3000)):
        count = ctx.budget(quick_n, thorough_n) if (quick_n if not thorough else thorough_n) else 0
        if not count:
            continue
        states = list(range(n_states))
        pushes = ["", "Z", "Y", "ZZ", "ZY", "YZ", "YY"]
        keys = [(q, a, X) for q in states for a in ("a", "") for X in "ZY"]
        for _ in range(count):
            rows = tuple((rng.choice(keys), (rng.choice(states), rng.choice(pushes))) for _ in range(n_rows))
            run_small(ctx, n_states, rows, words, f"sampled_small_{n_states}st_{n_rows}rows", lc, sc)
    # ---- shaped random
    for _ in range(ctx.budget(2000, 25000)):
        spec = (dense_table if rng.random() < 0.6 else rand_table)(rng, "N", False)
        check_table(ctx, "N", spec, rand_words(rng, spec, 4, 6, "N"), "random_npda", 40 if thorough else 24, 80)
    for _ in range(ctx.budget(2000, 25000)):
        spec = (dense_table if rng.random() < 0.6 else rand_table)(rng, "D", rng.random() < 0.85)
        check_table(ctx, "D", spec, rand_words(rng, spec, 4, 6, "D"), "random_dpda", 40 if thorough else 24, 80)
    # ---- a larger dense family: 4–5 states, words up to length 9
    for _ in range(ctx.budget(300, 5000)):
        kind = rng.choice("ND")
        spec = dense_table(rng, kind, rng.random() < 0.85, n_states=(4, 5))
        check_table(ctx, kind, spec, rand_words(rng, spec, 3, 9, kind), "random_dense_4to5_states",
                    40 if thorough else 24, 80)
    # ---- '' declared as a stack symbol (refused by PDA.validate since cb4efab)
    for _ in range(ctx.budget(80, 1500)):
        kind = rng.choice("ND")
        spec = (dense_table if rng.random() < 0.5 else rand_table)(rng, kind, True)
        spec["stack_symbols"] = set(spec["stack_symbols"]) | {""}
        rows = [(q, a) for q, row in spec["transitions"].items() for a in row]
        if rows and rng.random() < 0.75:
            q, a = rng.choice(rows)
            e = (rng.choice(sorted(spec["states"], key=repr)), rng.choice(sorted(spec["stack_symbols"])))
            spec["transitions"][q][a][""] = e if kind == "D" else {e}
        check_table(ctx, kind, spec, rand_words(rng, spec, 3, 5, kind), "empty_string_stack_symbol")
    # ---- malformed definitions
    for _ in range(ctx.budget(600, 20000)):
        kind = rng.choice("ND")
        spec = malform(rng, kind, rand_table(rng, kind, rng.random() < 0.7))
        check_table(ctx, kind, spec, [""], "malformed")
    # ---- round 4: stack symbols and state names of more than one character (pushes are tuples of symbols)
    for _ in range(ctx.budget(500, 8000)):
        kind = rng.choice("ND")
        base = (dense_table if rng.random() < 0.6 else rand_table)(rng, kind, rng.random() < 0.9)
        spec = rename_spec(rng, kind, base)
        check_table(ctx, kind, spec, rand_words(rng, spec, 4, 6, kind), "random_multichar_names",
                    40 if thorough else 24, 80)
    # ---- round 4: rows keyed by names missing from `states`, entered by a move
    for _ in range(ctx.budget(400, 6000)):
        kind = "D" if rng.random() < 0.7 else "N"
        spec = ghost_table(rng, kind)
        if rng.random() < 0.2:
            spec = rename_spec(rng, kind, spec)
        check_table(ctx, kind, spec, rand_words(rng, spec, 4, 6, kind), "random_undeclared_rows",
                    40 if thorough else 24, 80)
    # ---- round 6: deep / large instances judged by closed form (after the older families: their streams are unchanged)
    deep_family(ctx)


def search(ctx: Ctx):
    """Deeper failing-input search when an obligation or the correspondence is broken."""
    rng = ctx.rng
    for rows in small_domain(1, 3):
        run_small(ctx, 1, rows, ["", "a", "aa"], "search_exhaustive_1st", 7, 60)
        if ctx.prop_fails:
            return
    for _ in range(20000):
        kind = rng.choice("ND")
        spec = rand_table(rng, kind, True)
        check_table(ctx, kind, spec, rand_words(rng, spec, 4, 6, kind), "search_random", 24, 80)
        if ctx.prop_fails:
            return


def replay(ctx: Ctx, path: str) -> int:
    data = json.load(open(path))
    rp = data.get("replay", data)
    if rp.get("kind") in ("DEEP", "DEEPV"):
        if rp["kind"] == "DEEP":
            check_deep(ctx, PD.build(rp["family"], rp["params"]), "replay")
        else:
            check_deep_ctor(ctx, PD.vbuild(rp["family"], rp["params"]), "replay")
        if ctx.prop_fails:
            print(f"VIOLATION property=C02 replay={path}")
            print("  " + ctx.prop_fails[0]["what"])
            return 1
        print("replay: property holds on this input now")
        return 0
    spec = eval(rp["spec"], {"frozenset": frozenset})  # repr() of a spec dict produced by this harness
    words = [rp["word"]] if "word" in rp else [""]
    check_table(ctx, rp["kind"], spec, words, "replay", rp.get("level_cap", 12), rp.get("size_cap", 80))
    if ctx.prop_fails:
        print(f"VIOLATION property=C02 replay={path}")
        print("  " + ctx.prop_fails[0]["what"])
        return 1
    print("replay: property holds on this input now")
    return 0
