"""C17 — single-tape simulation of a multitape machine agrees with the native run.

Correspondence (real code vs. Lean model, drv_tm):
  ASNTM_STEPS n   first n next() calls of MNTM.read_input_as_ntm: state, head index and the
                  extended tape string of every yielded configuration *exactly*, and how the
                  generator stands (returned / raised <class> / running);
  READ_EXT        MNTM._read_extended_tape on well-formed and malformed extended tapes.
Property on the real code (no model involved):
  * verdict pair: whenever the native run (read_input_stepwise) halts within N next() calls,
    the simulation, given 5N+10 calls (enough for a breadth-first search with branching ≤ 3
    to pass the depth at which the native run stopped), halts with the same verdict;
  * the simulation never raises anything but RejectionException;
  * decoding every yielded extended tape (split at "_", head mark "^" after the scanned cell)
    gives a breadth-first visit of the textbook multitape configuration tree (dict tapes, blank
    elsewhere; compared by head-relative view, block d = permutation of the depth-d multiset):
    the oracle of C03 applied to the decoded sequence.
  * family special_char_alphabets (harness/c17_special.py): the same three judgements on machines whose
    tape symbols are characters special to string / regex processing (line breaks, whitespace, regex
    metacharacters, quotes / format characters, control and non-ASCII code points; never the marks), plus
    two more oracles: the verdict of the plain machine a case was relabelled from, and closed-form
    verdicts of two hand-written machines (line counter, copier).
Off the domain of the theorems (family `mark_alphabets`, open finding KEY_MARK): machines whose tape
alphabet contains '^' / '_' and inputs containing them.  validate() does not reserve the marks and
inputs are never checked, so these cases are inside the property's literal quantifier; the
property fails on them (C17_mark_*_fails prove it on the model).  They are generated on every
run: ASNTM_STEPS and the verdict pair are compared model vs. code exactly as on the domain, and
the property's judgement is reported under the finding key.
"""
from __future__ import annotations

import itertools
import json

from automata.tm.mntm import MNTM

from harness import c17_special as S
from harness import enc_tm as E
from harness.common import Ctx, call, toks
from harness.ops.C03 import oracle_mntm_check

LEVEL = "proof"
RULE = ("cases = (valid MNTM with 1–3 tapes, deterministic or not, input, "
        "number n of next() calls); corpus (F9: left move from the leftmost cell; F11: empty transition list; "
        "right moves past the end; all three directions on every tape), bounded-exhaustive tiny machines "
        "(1 tape: all tables with ≤2 rows over 2 states + final and {0,#}; 2 tapes: all one-row tables over "
        "{0,#}), then shaped random machines, machines whose state names have MIXED mutually unorderable types (ints, "
        "strs, tuples, frozensets in one machine; nondeterministic with dead ends, so rejected inputs leave several "
        "branches stuck in differently-typed states), and machines built under allow_mutable_automata=True from plain "
        "dict/list/set containers (transition results stay lists; option on or off again during the runs; judged on a "
        "frozen twin = the definition as built), the family special_char_alphabets (tape symbols / blanks / inputs that "
        "are special to string and regex processing — 53 characters: the ten str.splitlines separators incl. \\n \\r "
        "U+2028, other whitespace, regex metacharacters, quotes % # and other format characters, NUL / DEL / ESC / BOM / "
        "combining / astral code points — each of them in every role: corpus, tiny-exhaustive and random machines "
        "relabelled through a bijection of their tape alphabet, expected verdict = the plain machine's; a two-tape "
        "line counter and a 2-/3-tape copier with closed-form verdicts whose heads rest on every input symbol) "
        "— all of these with tape alphabets and inputs without '^' and '_' — "
        "and the family mark_alphabets (4 fixed probes + random machines over 9 tape alphabets containing '^' / "
        "'_' and/or inputs containing them: the open finding C17:mark-symbol-in-alphabet-or-input); a case is "
        "non-trivial when the simulation yields ≥3 configurations; distinct = distinct (definition, input, n)")
ASSUMPTIONS = [
    "the theorems' domain: the tape alphabet and the input contain neither '^' nor '_' (the simulation's head and "
    "separator marks); outside it the property fails on the real code — open finding "
    "C17:mark-symbol-in-alphabet-or-input, reproduced and reported as KNOWN-FINDING by every run",
    "symbols are single characters; halting is not assumed (bounded numbers of next() calls)",
]
EXPLANATION = ("Theorems C17_* state decode∘encode = heads, splice(encode) = encode(apply moves) and verdict "
               "agreement for the model; this run ties the model to the code (extended tape strings exactly) "
               "and evaluates verdict agreement / exception discipline / breadth-first decoding on the real code, "
               "also over tape alphabets of characters special to string / regex processing (relabelled machines: "
               "expected verdict = the plain machine's; hand-written machines: closed form).")

DRV = "drv_tm"
HD, SEP = "^", "_"
# open finding (known_findings.json): the marks of the extended tape are not reserved
KEY_MARK = "C17:mark-symbol-in-alphabet-or-input"
HANG_CAP = 10         # predicted non-terminating next() calls actually run on the code, per run
HANG_LIMIT = 0.25     # watchdog seconds for those


def deferred(ctx: Ctx) -> list:
    """Failures outside the literal quantifier (native run undecided within its budget), kept per run
    on ctx and reported after the run only if no failure inside the quantifier was found."""
    if not hasattr(ctx, "c17_deferred"):
        ctx.c17_deferred = []
    return ctx.c17_deferred


def decode_ext(ext: str, blank: str):
    """Extended tape → tuple of head-relative views, or None when malformed."""
    if not ext.endswith(SEP):
        return None
    views = []
    for piece in ext[:-1].split(SEP):
        if piece.count(HD) != 1:
            return None
        i = piece.index(HD)
        if i == 0:
            return None
        cells = piece[:i] + piece[i + 1:]
        head = i - 1
        views.append(E.ref_view(None, blank, list(reversed(cells[:head])), list(cells[head:]))[1:])
    return tuple(views)


# ------------------------------------------------------------------ mutable-automata option
class calls_option:
    """Context manager: the value `allow_mutable_automata` has while the library is called on a live
    machine (how["calls_on"]; nothing is touched when how is None)."""

    def __init__(self, how):
        self.how = how

    def __enter__(self):
        import automata.base.config as cfg
        self.saved = cfg.allow_mutable_automata
        if self.how:
            cfg.allow_mutable_automata = bool(self.how.get("calls_on", True))

    def __exit__(self, *exc):
        import automata.base.config as cfg
        cfg.allow_mutable_automata = self.saved
        return False


def describe_how(how) -> str:
    if not how:
        return ""
    return (f"[built under allow_mutable_automata=True from plain containers (results as {how['results']}, moves as "
            f"{how['moves']}, rows as {how.get('rows', 'dict')}), option {'on' if how.get('calls_on', True) else 'off again'} during the calls] ")


def build_live(ref: MNTM, how: dict) -> MNTM:
    """The definition of the frozen machine `ref` handed to the constructor again, in PLAIN mutable
    containers, while allow_mutable_automata is True: the library then keeps exactly these containers —
    the lists of results stay lists (`how["results"]` = "list", the documented form, or "tuple"), each
    result's moves a tuple of tuples (documented) or a list of lists."""
    import collections

    import automata.base.config as cfg
    seq = list if how["results"] == "list" else tuple
    mv = (lambda ms: [list(x) for x in ms]) if how["moves"] == "list" else (lambda ms: tuple(tuple(x) for x in ms))
    res = (lambda q, ms: [q, mv(ms)]) if how.get("result") == "list" else (lambda q, ms: (q, mv(ms)))
    rowt = collections.OrderedDict if how.get("rows") == "OrderedDict" else dict
    table = {q: rowt((tuple(key), seq(res(t, ms) for (t, ms) in rs)) for key, rs in row.items())
             for q, row in ref.transitions.items()}
    saved = cfg.allow_mutable_automata
    cfg.allow_mutable_automata = True
    try:
        return MNTM(states=set(ref.states), input_symbols=set(ref.input_symbols), tape_symbols=set(ref.tape_symbols),
                    n_tapes=ref.n_tapes, transitions=table, initial_state=ref.initial_state,
                    blank_symbol=ref.blank_symbol, final_states=set(ref.final_states))
    finally:
        cfg.allow_mutable_automata = saved


def _plain_def(m: MNTM):
    return (set(m.states), set(m.input_symbols), set(m.tape_symbols), m.n_tapes, m.initial_state, m.blank_symbol,
            set(m.final_states),
            {q: {tuple(k): [(t, tuple(tuple(x) for x in ms)) for (t, ms) in rs] for k, rs in row.items()}
             for q, row in m.transitions.items()})


def mutable_option_family(ctx: Ctx, count: int):
    """Machines built while `allow_mutable_automata` is True, from plain dict / list / set containers (the
    transition results stay LISTS, the documented way of writing them): the simulation must still agree with
    the native run and both with the definition as built.  Judged by the same oracles as every other family
    (check_sim: breadth-first decoding against the textbook tree, model correspondence; check_pair: verdict
    pair), on the frozen twin.  Code that relies on what freezing produces (tuple + tuple, hashing a result,
    `in` a frozenset of results, slicing) breaks only here."""
    rng = ctx.rng
    for _ in range(count):
        ref = E.rand_mntm(rng, n_tapes=rng.choice([1, 2, 2, 3]), deterministic=False if rng.random() < 0.7 else None,
                          names_fn=E.rand_mixed_names if rng.random() < 0.2 else None)
        how = dict(results=rng.choice(["list", "list", "list", "tuple"]), moves=rng.choice(["tuple", "tuple", "list"]),
                   result=rng.choice(["tuple", "tuple", "list"]), rows=rng.choice(["dict", "dict", "OrderedDict"]),
                   calls_on=rng.random() < 0.6)
        live = build_live(ref, how)
        ctx.stat("mutable_results_as_" + how["results"])
        for _ in range(2):
            w = E.rand_input(rng, ref)
            check_sim(ctx, live, w, rng.choice([4, 8, 16]), "mutable_option", ref=ref, how=how)
            check_pair(ctx, live, w, rng.choice([6, 15]), "mutable_option_pair", ref=ref, how=how)
        if _plain_def(live) != _plain_def(ref):
            ctx.stat("mutable_option_definition_changed")  # C18's clause; here only counted


# ------------------------------------------------------------------ mixed state names
def mixed_names_family(ctx: Ctx, count: int):
    """State names of MIXED, mutually unorderable types in one machine (ints, strs, tuples, frozensets — a
    state is any hashable), nondeterministic, with dead ends: rejected inputs end with several branches stuck
    in differently-typed states.  Anything that sorts / compares raw state names (to print them, to pick a
    representative, to deduplicate by order) raises TypeError instead of ending with the native verdict."""
    rng = ctx.rng
    for _ in range(count):
        m = E.rand_mntm(rng, n_tapes=rng.choice([1, 1, 2, 2, 3]), deterministic=False if rng.random() < 0.85 else None,
                        names_fn=E.rand_mixed_names, max_states=rng.choice([3, 4, 5]))
        for _ in range(3):
            w = E.rand_input(rng, m)
            end = check_sim(ctx, m, w, rng.choice([8, 16, 30]), "mixed_state_names")
            if end == "raise RejectionException":
                ctx.stat("mixed_names_simulation_rejects")
            check_pair(ctx, m, w, rng.choice([6, 15, 40]), "mixed_state_names_pair")


def check_sim(ctx: Ctx, m: MNTM, w: str, n: int, origin: str, native_budget: int = 0, ref: MNTM = None,
              how: dict = None, under: set = None):
    """`ref` / `how`: `m` is a LIVE machine built under the mutable-automata option (see `build_live`); the
    calls are made on `m`, the oracle, the model and the replay use the frozen twin `ref` (the definition as
    built).  `under`: a set that collects the symbols a virtual head rested on in some yielded extended tape
    (the cell left of each '^'; only evidence about the generators, no judgement)."""
    if E.skip(ctx):
        return None
    drv = ctx.driver(DRV)
    live, m = m, (m if ref is None else ref)
    enc, st = E.enc_mntm(m)
    with calls_option(how):
        ys, end = E.observe(live.read_input_as_ntm(w), n)
    wrong = []
    cfgs = []
    for y in ys:
        if not isinstance(y, (set, frozenset)) or len(y) != 1:
            wrong.append("a yielded value is not a singleton set")
            break
        cfgs.append(next(iter(y)))
    impl = ([(st(c.state), c.tape.current_position, tuple(ord(x) for x in c.tape.tape)) for c in cfgs], end)
    if under is not None:
        for c in cfgs:
            t = c.tape.tape
            under.update(t[i - 1] for i in range(1, len(t)) if t[i] == HD)
    mod = E.parse_run(drv.ask(toks("ASNTM_STEPS", enc, E.enc_word(w), n, 0)),
                      lambda t: (t.int(), t.int(), tuple(t.ints())))
    ctx.case(("S", enc, w, n) if len(ys) >= 3 else None)
    ctx.stat(origin)
    ctx.stat("sim_end_" + end.replace(" ", "_"))
    ctx.stat(f"sim_tapes_{m.n_tapes}")
    info = {}
    if not wrong:
        if end.startswith("raise ") and end != "raise RejectionException":
            wrong.append(f"the simulation raises {end[6:]} (only RejectionException may signal rejection)")
        else:
            got = []
            for c in cfgs:
                v = decode_ext("".join(c.tape.tape), m.blank_symbol)
                if v is None or len(v) != m.n_tapes:
                    wrong.append(f"yielded extended tape {''.join(c.tape.tape)!r} is malformed")
                    break
                got.append((c.state, v))
            if not wrong:
                wrong += ["simulation: " + x for x in oracle_mntm_check(m, w, got, end, n, info)]
    if info.get("maxlevel", 0) >= 2:
        ctx.stat("sim_level_with_2+_configurations")
    if info.get("depth", 0) >= 3:
        ctx.stat("sim_depth_3+")
    if info.get("left"):
        ctx.stat("sim_head_left_of_leftmost_cell")
    if info.get("right"):
        ctx.stat("sim_head_right_past_end")
    case = dict(kind="SIM", machine=repr(m), word=w, n=n)
    if how:
        case["mutable"] = how
    if wrong:
        ctx.prop_fail(describe_how(how) + f"read_input_as_ntm on {w!r} ({n} next() calls): " + "; ".join(wrong),
                      dict(case, impl=impl), None)
    elif impl != mod:
        ctx.corr_diff("ASNTM_STEPS", case, impl, mod)
    if ctx.evaluations % 997 == 1:
        ctx.sample(dict(case, extended_tapes=["".join(c.tape.tape) for c in cfgs[:6]], end=end))
    return end


def check_pair(ctx: Ctx, m: MNTM, w: str, n: int, origin: str, ref: MNTM = None, how: dict = None):
    """Verdict of the native run (n calls) vs. the simulation (5n+10 calls).  `ref` / `how`: see check_sim."""
    if E.skip(ctx):
        return None
    drv = ctx.driver(DRV)
    live, m = m, (m if ref is None else ref)
    ns = 5 * n + 10
    with calls_option(how):
        nys, nend = E.observe(live.read_input_stepwise(w), n)
        sys_, send = E.observe(live.read_input_as_ntm(w), ns)
    vn = E.verdict_of(nend)
    vs = E.verdict_of(send)
    if ref is not None and vn in ("accept", "reject"):
        # the native verdict of the live object must be the one of the definition as built
        vr = E.verdict_of(E.observe(ref.read_input_stepwise(w), n)[1])
        if vr != vn:
            ctx.prop_fail(describe_how(how) + f"MNTM on {w!r}: native verdict {vn}, but {vr} for the same definition "
                          f"built in the default configuration", dict(kind="PAIR", machine=repr(m), word=w, n=n, mutable=how), None)
            return
    ctx.case(None)
    ctx.stat(origin)
    ctx.stat("pair_native_" + vn.split(":")[0])
    case = dict(kind="PAIR", machine=repr(m), word=w, n=n)
    if how:
        case["mutable"] = how
    wrong = []
    if vn in ("accept", "reject"):
        if vs != vn:
            wrong.append(f"native verdict {vn}, simulation {vs}")
        else:
            for name, f, v in (("accepts_input", lambda: live.accepts_input(w), vn),):
                with calls_option(how):
                    r = E.bounded_call(f)
                if r != ("ok", v == "accept"):
                    wrong.append(f"{name} = {r} but the stepwise verdict is {v}")
    elif vn.startswith("crash"):
        wrong.append(f"native run raises {vn[6:]} (simulation: {vs})")
    if vs.startswith("crash") and not wrong:
        # native undecided within the budget: outside the literal quantifier of the property, but a
        # non-rejection exception on a valid machine is reported all the same — after the run, and
        # only if no failing input inside the quantifier was found
        msg = f"the simulation raises {vs[6:]} (native run undecided after {n} calls)"
        if origin == "replay":
            wrong.append(msg)
        else:
            deferred(ctx).append((f"MNTM on {w!r}: " + msg, case))
            return
    if wrong:
        ctx.prop_fail(describe_how(how) + f"MNTM on {w!r}: " + "; ".join(wrong), case, None)
        return
    # model verdicts for the same budgets
    enc, _ = E.enc_mntm(m)
    mn = E.verdict_of(E.parse_run(drv.ask(toks("MNTM_VISIT", enc, E.enc_word(w), n, 1)), None)[1])
    ms = E.verdict_of(E.parse_run(drv.ask(toks("ASNTM_STEPS", enc, E.enc_word(w), ns, 1)), None)[1])
    if (mn, ms) != (vn, vs):
        ctx.corr_diff("VERDICT_PAIR", case, (vn, vs), (mn, ms))


def _has_mark(m: MNTM, w: str) -> bool:
    return bool({HD, SEP} & (set(m.tape_symbols) | set(w)))


def check_mark(ctx: Ctx, m: MNTM, w: str, n: int, origin: str):
    """Family `mark_alphabets`: the tape alphabet or the input contains '^' / '_' — inside the
    property's literal quantifier (validate() does not reserve the marks, inputs are never checked)
    but outside the domain of C17_verdict_char.
    Correspondence, exactly as on the domain: ASNTM_STEPS (every yielded extended tape, head index,
    generator end over 5n+10 calls) and the verdict pair, model vs. code — this is where the model's
    Python slices with negative indices, a mark at index 0 and the splice fuel are exercised.
    Property judgement (native verdict within n calls vs. simulation within 5n+10; nothing but
    RejectionException): a failure here is the open finding KEY_MARK, reported under that key.
    A next() that does not return (a written '^' is scanned again for ever) is predicted by the
    model's fuel marker; such calls are run on the code under a short watchdog, a few per run."""
    if E.skip(ctx):
        return None
    assert _has_mark(m, w)
    drv = ctx.driver(DRV)
    enc, st = E.enc_mntm(m)
    ns = 5 * n + 10
    mod = E.parse_run(drv.ask(toks("ASNTM_STEPS", enc, E.enc_word(w), ns, 0)),
                      lambda t: (t.int(), t.int(), tuple(t.ints())))
    mnat = E.verdict_of(E.parse_run(drv.ask(toks("MNTM_VISIT", enc, E.enc_word(w), n, 1)), None)[1])
    hang = mod[1] == "raise AssertionError"  # the model's out-of-fuel marker (Model/TMSim.lean spliceFuelExn)
    if hang:
        if origin != "replay" and not origin.startswith("probe") and ctx.stats.get("mark_model_predicts_hang", 0) >= HANG_CAP:
            ctx.stat("mark_predicted_hang_not_run")
            return None
        ctx.stat("mark_model_predicts_hang")
        mod = (mod[0], "hang")
    ys, end = (E.observe(m.read_input_as_ntm(w), ns, limit=HANG_LIMIT, count=False) if hang
               else E.observe(m.read_input_as_ntm(w), ns))
    if hang and end == "raise HarnessTimeout":
        end = "hang"
    nend = E.observe(m.read_input_stepwise(w), n)[1]
    vn, vs = E.verdict_of(nend), ("crash:does-not-return" if end == "hang" else E.verdict_of(end))
    ctx.case(("K", enc, w, n) if len(ys) >= 3 else None)
    ctx.stat(origin)
    ctx.stat("mark_sim_" + vs.replace(":", "_"))
    if len(ys) >= 3:
        ctx.stat("mark_sim_3+_yields")
    if {HD, SEP} & set(w):
        ctx.stat("mark_in_input")
    if {HD, SEP} & set(m.tape_symbols):
        ctx.stat("mark_in_tape_alphabet")
    case = dict(kind="MARK", machine=repr(m), word=w, n=n)
    # --- correspondence (no property judgement involved)
    shape_ok = all(isinstance(y, (set, frozenset)) and len(y) == 1 for y in ys)
    if not shape_ok:
        ctx.corr_diff("ASNTM_STEPS", case, "a yielded value is not a singleton set", mod)
    else:
        cfgs = [next(iter(y)) for y in ys]
        impl = ([(st(c.state), c.tape.current_position, tuple(ord(x) for x in c.tape.tape)) for c in cfgs], end)
        if impl != mod:
            ctx.corr_diff("ASNTM_STEPS", case, impl, mod)
    ms = "crash:does-not-return" if hang else E.verdict_of(mod[1])
    if (mnat, ms) != (vn, vs):
        ctx.corr_diff("VERDICT_PAIR", case, (vn, vs), (mnat, ms))
    # --- the property on the real code
    wrong = []
    if vn.startswith("crash"):
        ctx.prop_fail(f"MNTM on {w!r}: native run raises {vn[6:]}", case, None)  # not this finding
        return None
    if vs.startswith("crash"):
        wrong.append(f"native verdict {vn if vn != 'fuel' else 'undecided'} within {n} calls, the simulation "
                     + ("does not return from next()" if end == "hang" else f"raises {vs[6:]}"))
    elif vn in ("accept", "reject") and vs != vn:
        wrong.append(f"native verdict {vn}, simulation {vs if vs != 'fuel' else 'undecided after %d calls' % ns}")
    if wrong:
        ctx.stat("mark_property_fails")
        where = ("tape alphabet" if {HD, SEP} & set(m.tape_symbols) else "input")
        ctx.prop_fail(f"MNTM with '^'/'_' in its {where} on {w!r}: " + "; ".join(wrong), case, KEY_MARK)
    else:
        ctx.stat("mark_property_holds")
    return end


def mark_probes(ctx: Ctx):
    """The three replays of the open finding KEY_MARK, produced on every run."""
    a = MNTM(states={"q0", "qf"}, input_symbols={"_"}, tape_symbols={"_", "#"}, n_tapes=1,
             transitions={"q0": {("_",): [("qf", (("_", "R"),))]}},
             initial_state="q0", blank_symbol="#", final_states={"qf"})
    check_mark(ctx, a, "_", 5, "probe_mark")       # native accepts; simulation: MalformedExtendedTapeError
    b = MNTM(states={"q0", "qf"}, input_symbols={"0"}, tape_symbols={"0", "#"}, n_tapes=1,
             transitions={"q0": {("0",): [("qf", (("0", "R"),))]}},
             initial_state="q0", blank_symbol="#", final_states={"qf"})
    check_mark(ctx, b, "^", 5, "probe_mark")       # clean machine, input '^': native rejects
    c = MNTM(states={"q0", "q1", "qf"}, input_symbols={"0"}, tape_symbols={"0", "^", "#"}, n_tapes=1,
             transitions={"q0": {("0",): [("q1", (("^", "R"),))]}, "q1": {("#",): [("qf", (("#", "N"),))]}},
             initial_state="q0", blank_symbol="#", final_states={"qf"})
    check_mark(ctx, c, "0", 5, "probe_mark")       # writes '^': native accepts
    d = MNTM(states={"q0", "q1", "qf"}, input_symbols={"0"}, tape_symbols={"0", "^", "#"}, n_tapes=1,
             transitions={"q0": {("0",): [("q1", (("^", "L"),))]}, "q1": {("#",): [("qf", (("#", "N"),))]}},
             initial_state="q0", blank_symbol="#", final_states={"qf"})
    check_mark(ctx, d, "0", 5, "probe_mark")       # writes '^' moving left: next() never returns


def mark_family(ctx: Ctx, count: int):
    rng = ctx.rng
    for _ in range(count):
        dirty_alpha = rng.random() < 0.75
        m = E.rand_mntm(rng, n_tapes=rng.choice([1, 1, 2, 2, 3]),
                        alphabets=E.MARK_ALPHABETS if dirty_alpha else None)
        for _ in range(2):
            # marks in the alphabet: mostly clean inputs (the marks are then only *written* by the machine,
            # so the simulation gets past its first yield); clean alphabet: the input carries a mark
            r = rng.random()
            pool = set(m.tape_symbols)
            if dirty_alpha and r < 0.6:
                pool = (pool - {HD, SEP}) or pool
            elif not dirty_alpha or r < 0.75:
                pool = pool | {HD, SEP}
            pool = sorted(pool)
            w = "".join(rng.choice(pool) for _ in range(rng.choice([0, 1, 1, 2, 2, 3, 4])))
            if not _has_mark(m, w):
                k = rng.randrange(len(w) + 1)
                w = w[:k] + rng.choice([HD, SEP]) + w[k:]
            check_mark(ctx, m, w, rng.choice([4, 8, 15]), "mark_alphabets")


# ------------------------------------------------------------------ special characters as tape symbols
def _native_verdict(m: MNTM, w: str, n: int) -> str:
    return E.verdict_of(E.observe(m.read_input_stepwise(w), n)[1])


def _note_special(ctx: Ctx, m: MNTM, w: str, under: set):
    """Distribution of the family: which special characters a head rested on (by class), and in which role
    the machine uses them."""
    for c in under:
        if c in S.CLASS_OF:
            ctx.stat("special_head_rested_on_" + S.CLASS_OF[c])
    seen = ctx.__dict__.setdefault("c17_special_under", set())
    seen.update(c for c in under if c in S.CLASS_OF)
    if m.blank_symbol in S.CLASS_OF:
        ctx.stat("special_blank_is_" + S.CLASS_OF[m.blank_symbol])
    if any(c in S.CLASS_OF for c in w):
        ctx.stat("special_char_in_input")


def check_relabel(ctx: Ctx, m0: MNTM, f: dict, w0: str, n_sim: int, n: int, origin: str):
    """`m0` on `w0` is a case of one of the other families (plain alphabet); `f` a bijection of its tape
    alphabet (extended to the symbols of `w0` outside it) onto special characters.  The relabelled machine
    on the relabelled input is judged (a) like every other case — check_sim: its yields decode to a
    breadth-first visit of the textbook tree over the relabelled definition, model correspondence;
    check_pair: native verdict vs. simulation, nothing but RejectionException — and (b) against the run of
    the plain machine: a bijective renaming of tape symbols (the marks untouched) cannot change a verdict,
    so the native verdict of `m0` on `w0` is the expected verdict of both runs of the relabelled machine."""
    if E.skip(ctx):
        return
    m = S.relabel(m0, f)
    w = S.relabel_word(w0, f)
    under = set()
    check_sim(ctx, m, w, n_sim, origin, under=under)
    check_pair(ctx, m, w, n, origin + "_pair")
    _note_special(ctx, m, w, under)
    v0 = _native_verdict(m0, w0, n)
    if v0 not in ("accept", "reject"):
        ctx.stat("special_plain_run_undecided")
        return
    ctx.stat("special_plain_run_" + v0)
    ctx.case(None)
    v1 = _native_verdict(m, w, n)
    vs = E.verdict_of(E.observe(m.read_input_as_ntm(w), 5 * n + 10)[1])
    wrong = []
    if v1 != v0:
        wrong.append(f"native verdict {v1}")
    if vs != v0:
        wrong.append(f"simulation {vs}")
    if wrong:
        ctx.prop_fail(f"MNTM on {w!r}: " + ", ".join(wrong) + f" — but the same machine with its tape symbols renamed "
                      f"({ {b: a for a, b in f.items() if b in set(w) | set(m.tape_symbols)} }) has native verdict {v0} on {w0!r}",
                      dict(kind="RELABEL", machine=repr(m0), mapping=dict(f), word=w0, n_sim=n_sim, n=n), None)


def check_closed(ctx: Ctx, m: MNTM, w: str, expect: bool, what: str, origin: str):
    """A hand-written machine whose verdict has a closed form (`expect`, computed from the input alone): the
    native run, the simulation and accepts_input must all give it; plus check_sim for the yields."""
    if E.skip(ctx):
        return
    n = 2 * len(w) + 6                       # both machines halt within 2|w|+3 steps
    under = set()
    check_sim(ctx, m, w, n, origin, under=under)
    _note_special(ctx, m, w, under)
    ctx.case(None)
    ctx.stat(origin + "_closed_form_" + ("accept" if expect else "reject"))
    want = "accept" if expect else "reject"
    vn = _native_verdict(m, w, n)
    vs = E.verdict_of(E.observe(m.read_input_as_ntm(w), 5 * n + 10)[1])
    wrong = []
    if vs != want:
        wrong.append(f"simulation {vs if vs != 'fuel' else 'undecided'}")
    if vn != want:
        wrong.append(f"native verdict {vn if vn != 'fuel' else 'undecided'}")
    if not wrong:
        r = E.bounded_call(lambda: m.accepts_input(w))
        if r != ("ok", expect):
            wrong.append(f"accepts_input = {r}")
    if wrong:
        ctx.prop_fail(f"MNTM ({what}) on {w!r}: " + ", ".join(wrong) + f"; closed form: {want}",
                      dict(kind="CLOSED", machine=repr(m), word=w, expect=expect, what=what), None)


def _tiny_sources():
    """Machines of the bounded-exhaustive parts, as (machine, inputs, n_sim, n_pair) — every 7th / 11th."""
    kw2 = dict(states={"q0", "q1", "qf"}, input_symbols={"0"}, tape_symbols={"0", "#"}, initial_state="q0",
               blank_symbol="#", final_states={"qf"})
    kwt = dict(states={"q0", "qf"}, input_symbols={"0"}, tape_symbols={"0", "#"}, initial_state="q0",
               blank_symbol="#", final_states={"qf"}, n_tapes=2)
    out = []
    for i, table in enumerate(E.tiny_dtm_tables("0#", 2)):
        if i % 7 == 3:
            out.append((E.mntm1_from(kw2, table), ("0", "00"), 8, 10))
    for i, table in enumerate(E.tiny_nondet_tables("0#")):
        if i % 11 == 5:
            out.append((E.mntm1_from_lists(kw2, table, swap=bool(i & 1)), ("0", "00"), 10, 12))
    for i, table in enumerate(tiny_two_tape_tables(1)):
        if i % 7 == 2:
            out.append((MNTM(transitions=table, **kwt), ("0", "00"), 6, 8))
    return out


COUNTER_WORDS = ("n", "an", "na", "ana", "aa", "a", "", "nn", "a#n", "n#a", "a%n", "aan")   # a, n, # = roles; % foreign
COPIER_WORDS = ("12", "21", "1", "2", "", "221", "1#2", "1%", "212", "11")


def special_family(ctx: Ctx, count: int):
    """Family `special_char_alphabets`: tape alphabets and inputs made of characters that are special to
    string / regex processing (harness/c17_special.py: 53 characters in 5 classes — line breaks, other
    whitespace, regex metacharacters, quotes / format characters, control and non-ASCII code points; never
    the marks).  A tape symbol is any single character, so all of these are inside the property's
    quantifier and inside the domain of the theorems (`Clean`); the other families only use
    0 1 a b x y é λ # . and the blank ' '.
      1. every special character, in every role (position in the sorted tape alphabet, so: input symbol,
         written-only symbol, blank), on a rotating source of machines of the other families — the corpus
         machines (F9 / F11 triggers, the docstring example), every 7th / 11th tiny exhaustive machine, shaped
         random machines — relabelled through a bijection of the tape alphabet (check_relabel);
      2. two hand-written machines with closed-form verdicts, every special character in every role: a
         two-tape line counter (text symbol, line break, tally, blank) and a 2-/3-tape copier that walks all
         heads back over the copied text, so every head rests on every input symbol (check_closed);
      3. `count` shaped random machines (E.rand_mntm, 1–3 tapes, 15 % mixed-type state names) relabelled at
         random."""
    rng = ctx.rng
    corpus_src = [(m, words, ns, n) for (_o, m, words, ns, n) in corpus_machines()]
    tiny_src = _tiny_sources()
    k = 0
    for ci, c in enumerate(S.ALL):
        for role in range(3):
            k += 1
            pick = k % 3
            if pick == 0:
                m0, words, n_sim, n = corpus_src[(k // 3) % len(corpus_src)]
                origin = "special_relabelled_corpus"
            elif pick == 1:
                m0, words, n_sim, n = tiny_src[(k // 3) % len(tiny_src)]
                origin = "special_relabelled_tiny"
            else:
                m0 = E.rand_mntm(rng, n_tapes=rng.choice([1, 2, 2, 3]))
                words, n_sim, n = (E.rand_input(rng, m0), E.rand_input(rng, m0)), rng.choice([8, 16]), rng.choice([6, 15])
                origin = "special_relabelled_random"
            syms = sorted(m0.tape_symbols - {m0.blank_symbol}) + [m0.blank_symbol]
            # role 0: the first non-blank symbol (always an input symbol here), role 2: the blank, role 1: the
            # last non-blank symbol (a written-only symbol when the machine has one)
            idx = {0: 0, 1: max(0, len(syms) - 2), 2: len(syms) - 1}[role]
            f = S.pick_bijection(rng, syms, c, idx)
            ctx.stat("special_role_" + ("blank" if idx == len(syms) - 1 else "nonblank"))
            for w0 in words[:2] if origin != "special_relabelled_corpus" else words:
                check_relabel(ctx, m0, S.extend_for_word(rng, f, w0), w0, n_sim, n, origin)
    # 2. hand-written machines
    for ci, c in enumerate(S.ALL):
        for role in range(4):
            others = rng.sample([x for x in S.ALL if x != c], 4)
            plain = rng.random() < 0.5          # the other roles: ordinary characters, or special ones too
            r = list("a\n1#") if plain else others[:4]
            if plain and c in r:
                r = list("a\n1#")
            r[role] = c
            if len(set(r)) < 4:
                r = [c if i == role else others[i] for i in range(4)]
            a, nl, one, blank = r
            m = S.line_counter(a, nl, one, blank)
            foreign = next(x for x in "%@$&" if x not in r)
            for j in range(3):
                t = COUNTER_WORDS[(ci * 4 + role + 5 * j) % len(COUNTER_WORDS)] if j else ("na", "an", "n", "ana")[role]
                w = "".join({"a": a, "n": nl, "#": blank, "%": foreign}[x] for x in t)
                check_closed(ctx, m, w, S.line_counter_accepts(w, a, nl, one, blank),
                             f"line counter: text {a!r}, line break {nl!r}, tally {one!r}, blank {blank!r}",
                             "special_line_counter")
        for role in range(3):
            others = rng.sample([x for x in S.ALL if x != c], 3)
            r = [c if i == role else others[i] for i in range(3)]
            s1, s2, blank = r
            nt = 2 + (ci + role) % 2
            m = S.copier(s1, s2, blank, nt)
            foreign = next(x for x in "%@$&" if x not in r)
            for j in range(2):
                t = COPIER_WORDS[(ci * 3 + role + 3 * j) % len(COPIER_WORDS)] if j else ("12", "21", "1")[role]
                w = "".join({"1": s1, "2": s2, "#": blank, "%": foreign}[x] for x in t)
                check_closed(ctx, m, w, S.copier_accepts(w, s1, s2, blank),
                             f"{nt}-tape copier over {s1!r}, {s2!r}, blank {blank!r}", "special_copier")
    # 3. random machines, random relabelling
    for _ in range(count):
        m0 = E.rand_mntm(rng, n_tapes=rng.choice([1, 2, 2, 3, 3]), names_fn=E.rand_mixed_names if rng.random() < 0.15 else None)
        syms = sorted(m0.tape_symbols - {m0.blank_symbol}) + [m0.blank_symbol]
        f = S.pick_bijection(rng, syms, rng.choice(S.ALL), rng.randrange(len(syms)))
        for _ in range(2):
            w0 = E.rand_input(rng, m0)
            check_relabel(ctx, m0, S.extend_for_word(rng, f, w0), w0, rng.choice([4, 8, 16, 30]), rng.choice([6, 15, 40]),
                          "special_random")
    seen = getattr(ctx, "c17_special_under", set())
    ctx.stat("special_distinct_characters_a_head_rested_on", len(seen))
    missing = [S.name_of(c) for c in S.ALL if c not in seen]
    if missing:
        ctx.note("special_char_alphabets: no head rested on " + " ".join(missing))


def check_read_ext(ctx: Ctx, ext: str, origin: str):
    r = call(lambda: MNTM._read_extended_tape(ext, HD, SEP))
    impl = ("ok " + toks(len(r[1]), [ord(c) for c in r[1]])).strip() if r[0] == "ok" else "err " + r[1]
    mod = ctx.driver(DRV).ask(toks("READ_EXT", E.enc_word(ext))).strip()
    ctx.case(None)
    ctx.stat(origin)
    ctx.stat("read_ext_" + ("ok" if r[0] == "ok" else r[1]))
    if impl != mod:
        ctx.corr_diff("READ_EXT", dict(kind="READ_EXT", ext=ext), impl, mod)


# ------------------------------------------------------------------ corpus / generators
def corpus_machines():
    """(origin, machine, inputs, next() calls of the simulation, native budget of the verdict pair)."""
    # F9 (fixed 8f7542c): left move from the leftmost cell of a virtual tape
    f9 = MNTM(states={"q0", "q1", "q2"}, input_symbols={"1"}, tape_symbols={"1", "#"}, n_tapes=1,
              transitions={"q0": {("1",): [("q1", (("1", "L"),))]}, "q1": {("#",): [("q2", (("#", "R"),))]}},
              initial_state="q0", blank_symbol="#", final_states={"q2"})
    # the same on the second and third tape, and at both ends at once
    f9b = MNTM(states={"q0", "q1", "q2"}, input_symbols={"1"}, tape_symbols={"1", "#"}, n_tapes=3,
               transitions={"q0": {("1", "#", "#"): [("q1", (("1", "R"), ("1", "L"), ("#", "L")))],
                                   ("#", "#", "#"): [("q0", (("#", "L"), ("#", "L"), ("1", "L")))]},
                            "q1": {("#", "#", "#"): [("q2", (("#", "R"), ("#", "N"), ("1", "R"))),
                                                     ("q0", (("1", "L"), ("#", "R"), ("#", "L")))],
                                   ("1", "#", "#"): [("q1", (("#", "L"), ("1", "L"), ("1", "R")))]}},
               initial_state="q0", blank_symbol="#", final_states={"q2"})
    # F11 (fixed 5a3675d): empty transition list
    f11 = MNTM(states={"q0", "q1"}, input_symbols={"1"}, tape_symbols={"1", "#"}, n_tapes=1,
               transitions={"q0": {("1",): [], ("#",): [("q1", (("#", "N"),))]}},
               initial_state="q0", blank_symbol="#", final_states={"q1"})
    # the library's own example (tests/test_mntm.py shape): copy 1s to the second tape
    ex = MNTM(states={"q0", "q1"}, input_symbols={"0", "1"}, tape_symbols={"0", "1", "#"}, n_tapes=2,
              transitions={"q0": {("1", "#"): [("q0", (("1", "R"), ("1", "R")))],
                                  ("0", "#"): [("q0", (("0", "R"), ("#", "N")))],
                                  ("#", "#"): [("q1", (("#", "N"), ("#", "N")))]}},
              initial_state="q0", blank_symbol="#", final_states={"q1"})
    return [("corpus_F9", f9, ("1", "11", ""), 8, 12), ("corpus_F9", f9b, ("", "1", "11", "111"), 14, 25),
            ("corpus_F11", f11, ("", "1"), 6, 8), ("corpus_example", ex, ("", "1", "0110", "111"), 10, 12)]


def corpus(ctx: Ctx):
    for origin, m, words, n_sim, n_pair in corpus_machines():
        for w in words:
            check_sim(ctx, m, w, n_sim, origin)
            check_pair(ctx, m, w, n_pair, origin)
    for ext in ("", "^", "_", "0^_", "0^", "0_", "0^^_", "0^1^_", "^0_", "0^_#^_", "0^__", "0^_#_", "01^0_#^_1#^_",
                "0^_^_", "a^b_c^", "_0^"):
        check_read_ext(ctx, ext, "corpus_read_ext")


def tiny_two_tape_tables(max_rows: int):
    tsy = "0#"
    keys = [(a, b) for a in tsy for b in tsy]
    moves = [(s, d) for s in tsy for d in "LRN"]
    results = [(q, (m1, m2)) for q in ("q0", "qf") for m1 in moves for m2 in moves]
    for r in range(1, max_rows + 1):
        for ks in itertools.combinations(keys, r):
            for rs in itertools.product(results, repeat=r):
                yield {"q0": {k: [res] for k, res in zip(ks, rs)}}


def run(ctx: Ctx):
    rng = ctx.rng
    thorough = ctx.thorough()
    E.reset_watchdog()
    corpus(ctx)
    mark_probes(ctx)
    # 1. bounded-exhaustive
    kw2 = dict(states={"q0", "q1", "qf"}, input_symbols={"0"}, tape_symbols={"0", "#"}, initial_state="q0",
               blank_symbol="#", final_states={"qf"})
    cnt = 0
    rows = 3 if thorough else 2
    for table in E.tiny_dtm_tables("0#", rows):
        if rows == 3 and len([1 for r in table.values() for _ in r]) == 3 and rng.random() < 0.75:
            continue  # thorough: a quarter of the 3-row tables
        cnt += 1
        m = E.mntm1_from(kw2, table)
        for w in ("", "0", "00"):
            check_sim(ctx, m, w, 8, "exhaustive_1tape")
            check_pair(ctx, m, w, 10, "exhaustive_1tape")
    ctx.exhaustive(f"{cnt} one-tape machines: all deterministic tables over q0,q1 (+final qf), tape alphabet "
                   f"{{0,#}}, ≤2 rows" + (" and a random quarter of the 3-row tables" if thorough else "")
                   + " × inputs '', '0', '00': 8 next() calls of the simulation, verdict pair with native budget 10")
    cnt = 0
    for table in E.tiny_nondet_tables("0#"):
        cnt += 1
        if not thorough and cnt % 3 != ctx.seed % 3:
            continue
        m = E.mntm1_from_lists(kw2, table, swap=bool(cnt & 1))
        for w in ("0", "00"):
            check_sim(ctx, m, w, 10, "exhaustive_nondet")
            check_pair(ctx, m, w, 12, "exhaustive_nondet")
    ctx.exhaustive(("all" if thorough else "a third (by seed) of the") + f" {cnt} nondeterministic one-tape tables (q0 with two "
                   "distinct results on '0', optional row on '#', q1 a dead end without row or with one row), inputs '0','00'")
    kwt = dict(states={"q0", "qf"}, input_symbols={"0"}, tape_symbols={"0", "#"}, initial_state="q0",
               blank_symbol="#", final_states={"qf"}, n_tapes=2)
    cnt = 0
    for table in tiny_two_tape_tables(1):
        cnt += 1
        m = MNTM(transitions=table, **kwt)
        for w in ("", "0", "00"):
            check_sim(ctx, m, w, 6, "exhaustive_2tape")
            check_pair(ctx, m, w, 8, "exhaustive_2tape")
    ctx.exhaustive(f"all {cnt} two-tape machines with one state (+final), tape alphabet {{0,#}}, one row × 3 inputs")
    if thorough:
        cnt = 0
        for table in tiny_two_tape_tables(2):
            if len(table["q0"]) < 2 or rng.random() < 0.8:
                continue
            cnt += 1
            m = MNTM(transitions=table, **kwt)
            for w in ("0", "00"):
                check_sim(ctx, m, w, 7, "exhaustive_2tape_2rows_sampled")
                check_pair(ctx, m, w, 8, "exhaustive_2tape_2rows_sampled")
        ctx.note(f"{cnt} sampled two-row two-tape tables")
    # 2. shaped random
    for _ in range(ctx.budget(3500, 40000)):
        m = E.rand_mntm(rng, n_tapes=rng.choice([1, 2, 2, 3, 3]))
        for _ in range(2):
            w = E.rand_input(rng, m)
            check_sim(ctx, m, w, rng.choice([2, 4, 8, 16, 30]), "random")
            check_pair(ctx, m, w, rng.choice([6, 15, 40]), "random_pair")
    # 2a. mixed-type state names; machines built under the mutable-automata option
    mixed_names_family(ctx, ctx.budget(500, 6000))
    mutable_option_family(ctx, ctx.budget(500, 6000))
    # 2b. tape symbols special to string / regex processing (inside the domain of the theorems; before the
    # off-domain family below, whose unpredicted hangs on a changed tree may use up the watchdog's patience)
    special_family(ctx, ctx.budget(200, 4000))
    # 2c. off the domain of the theorems: marks in the tape alphabet / in the input (open finding)
    mark_family(ctx, ctx.budget(600, 6000))
    # 3. _read_extended_tape on random strings over {0,1,#,^,_}
    for _ in range(ctx.budget(400, 8000)):
        k = rng.randrange(0, 9)
        ext = "".join(rng.choice("01#^^__") for _ in range(k))
        check_read_ext(ctx, ext, "random_read_ext")
    # failures outside the literal quantifier: reported when no failure inside it was found (hits of
    # the open finding KEY_MARK are produced on every run and do not count here)
    ctx.stat("deferred_outside_quantifier", len(deferred(ctx)))
    if deferred(ctx) and not any(f["key"] is None for f in ctx.prop_fails):
        for what, case in deferred(ctx):
            ctx.prop_fail(what, case, None)
    E.report_watchdog(ctx)


def replay(ctx: Ctx, path: str) -> int:
    data = json.load(open(path))
    rp = data.get("replay", data)
    kind = rp["kind"]
    if kind == "READ_EXT":
        check_read_ext(ctx, rp["ext"], "replay")
    else:
        m = eval(rp["machine"], {"MNTM": MNTM, "frozenset": frozenset})  # repr() produced by this harness
        how = rp.get("mutable")
        if how:
            live = build_live(m, how)
            if kind == "SIM":
                check_sim(ctx, live, rp["word"], rp["n"], "replay", ref=m, how=how)
            else:
                check_pair(ctx, live, rp["word"], rp["n"], "replay", ref=m, how=how)
        elif kind == "MARK":
            check_mark(ctx, m, rp["word"], rp["n"], "replay")
        elif kind == "RELABEL":
            check_relabel(ctx, m, rp["mapping"], rp["word"], rp["n_sim"], rp["n"], "replay")
        elif kind == "CLOSED":
            check_closed(ctx, m, rp["word"], rp["expect"], rp["what"], "replay")
        elif kind == "SIM":
            check_sim(ctx, m, rp["word"], rp["n"], "replay")
        else:
            check_pair(ctx, m, rp["word"], rp["n"], "replay")
    if ctx.prop_fails:
        print(f"VIOLATION property=C17 replay={path}")
        print("  " + ctx.prop_fails[0]["what"])
        return 1
    if ctx.corr_diffs:
        print("replay: model and code still differ on this input (no property failure)")
        return 0
    print("replay: property holds on this input now")
    return 0
