"""C11 — regex validation and comparison helpers agree with compilation and are exact.

Correspondence (real code vs. Lean model through drv_regex):
  RX_PIPE2 s Σ    regex.validate(s), NFA.from_regex(s) and NFA.from_regex(s, input_symbols=Σ) — ok /
                  exception class (and #states);
  RX_POSTFIX s    token streams or exception class (malformed stream: lone braces, odd bounds, odd
                  white space);
  RX_CMP s₁ s₂ Σ  isequal / issubset / issuperset over an explicit common alphabet — the driver
                  EXECUTES the model helpers `Rx.isequal (eqLib …)`, `Rx.issubset (eqLib …) uniLib`,
                  `Rx.issuperset (eqLib …) uniLib`, the very terms of theorem C11_comparisons_lib
                  (and cross-checks their answers against a driver-side subset search).
Property on the real code, independent of the model:
  * for every sequence of documented tokens: validate ok ⇔ the token sequence is in the
    grammar (a 25-line recursive-descent recogniser written here) ⇔ from_regex succeeds, with
    the default alphabet AND with an explicit one;
    a failure is a RegexException subclass (InvalidRegexError / LexerError);
  * for EVERY string (malformed stream) whose brace groups are numeric for int(): validate and
    from_regex succeed together or raise the same exception class, a RegexException subclass
    (theorems C11_validate_from_regex_any[_default], C11_lex_error_kind) — e.g. a{2,1}, a{-1,2};
  * isequal / issubset / issuperset = language (in)equality / inclusion of the two ASTs,
    decided exactly by Brzozowski derivatives;
  * (round 6) the same helpers called WITH THEIR DEFAULT ARGUMENTS on two expressions whose texts have the same
    default alphabet Σ (= a common alphabet): the answers, and those with input_symbols=Σ, are the language
    comparison over exactly Σ — '.' ranges over the symbols of the texts, literals need not be alphanumeric
    (generator and judge: harness/rx_defaults.py).
"""
from __future__ import annotations

import itertools
import json
import re
from typing import List, Optional

import automata.base.exceptions as exceptions
from automata.fa.nfa import NFA
from automata.regex import regex as rx

from harness import rx_common as R
from harness import rx_defaults as D
from harness import rx_sequences as S
from harness.common import Ctx, InfraError, Toks, call, toks

LEVEL = "proof"
RULE = ("cases = (0) round 3, run first: 1000 (thorough 8000) PROGRAMS of 1–5 calls, each over an alphabet no earlier call "
        "of the process has touched (1–3 random symbols out of 88 incl. digits, re-special punctuation, non-ASCII; usually "
        "exactly the default alphabet of the first expression): 0–3 preparatory calls out of validate(r) / validate(r') / a "
        "tiny from_regex / validate or from_regex of a string outside the grammar (must raise a RegexException) / "
        "from_regex(r) with the default alphabet, then isequal+issubset+issuperset(r, r', Σ), sometimes again, swapped, or "
        "over Σ∪{x} before / after; `()` inserted into 70 % of the expressions; every step judged on its own (grammar by "
        "construction and by the recogniser, comparisons by derivatives); a failing program is re-run in a fresh "
        "interpreter before it is reported and is its own replay; (0b) round 6, DEFAULT ARGUMENTS: pairs of expressions "
        "whose texts have the SAME default alphabet Σ (non-reserved characters of the text: literals and the digits / comma "
        "of quantifiers), compared by isequal / issubset / issuperset with input_symbols omitted (15 %: None spelled out) AND "
        "with input_symbols=Σ — both must equal the language comparison of the two ASTs over exactly Σ (derivatives, "
        "cross-checked by brute-force set semantics on short words), and validate / from_regex with the default alphabet "
        "must accept both and compile them to their language over Σ: a corpus of 16 pairs in both orders, EVERY ordered "
        "pair of depth-≤1 ASTs over {c, ., ()} in which both mention c and one contains the wildcard (320; c random "
        "alphanumeric, plus a sample of 60 for a punctuation / non-ASCII c; thorough: all 640 for a and -), and 330 "
        "(thorough 9000) shaped random pairs: 1–3 literals out of ASCII letters / digits / punctuation -_#,:;=!@%~<>/'\"[]$\\ / "
        "é ß λ µ Ж 中 𝒳 ٣, the wildcard forced into 70 %, quantifiers in 40 %, second expression = language-preserving "
        "rewrite / '.' spelled out as the alternation of Σ / '.'→literal / literal→'.' / superset / independent, the poorer "
        "side padded with a branch mentioning the missing symbols so that the default alphabets coincide (pairs with "
        "different default alphabets are F17, outside the property, never judged); (a) strings that are sequences of the documented tokens: every sequence of length ≤3 over the 16 "
        "texts ( ) | & ^ * + ? {1,2} {0,0} {,} {2,} . a b blank and every sequence of length 4 (thorough 5) over the 12 "
        "texts ( ) | & ^ * + ? {1,2} . a blank, then random longer ones shaped to be nearly valid — each with the "
        "default and with an explicit alphabet; (b) malformed strings (lone braces, odd bounds, white space): "
        "model=code, and for numeric brace groups the agreement / regex-error-type rule on the real code; (c) pairs of "
        "ASTs rendered to strings compared over a common explicit alphabet (1–7 symbols, incl. 1 , - é 𝒳); "
        "non-trivial = (0) a program of ≥2 calls, (0b) both languages non-empty with ≥3 words of length ≤2 between them, (a) ≥3 tokens with at least one parenthesis or operator, "
        "(c) both languages non-empty and not both trivial; distinct = distinct strings / pairs")
ASSUMPTIONS = [
    "documented tokens in the grammar part: symbols, operators, parentheses, {m,n} {m,} {,n} with ASCII decimal bounds, blanks; "
    "the agreement / error-type rule is also evaluated on arbitrary strings whose brace groups are numeric for int() "
    "(a lone brace lexed as a symbol and non-numeric bounds are outside the documented syntax: model = code only)",
    "comparisons are over a common alphabet: an explicit one, or (round 6) the helpers' default arguments on two texts whose "
    "default alphabets coincide; with input_symbols=None and DIFFERENT inferred alphabets `==` answers NotImplemented → False "
    "(F17) — such pairs are outside the property and are not judged",
    "Python re / int() are modelled by hand (trusted)",
    "the property is about inputs, so no answer may depend on earlier calls: programs of calls are judged step by step by "
    "history-free oracles; the Lean model is a pure function (it has no history to compare)",
]
EXPLANATION = ("C11_* theorems: validate_tokens accepts exactly the token grammar, which is exactly when the model compiles; "
               "errors are RegexException subclasses; the comparison helpers reduce to language (in)equality via C10. "
               "This run ties the model to the code and evaluates the property itself on the real code — families: call "
               "programs over fresh alphabets, default-argument comparisons over a shared default alphabet, token sequences "
               "(exhaustive + nearly valid), malformed strings, comparisons over an explicit alphabet.")

TOKEN_TEXTS = ["(", ")", "|", "&", "^", "*", "+", "?", "{1,2}", ".", "a", " "]
# for the short sequences (length ≤3): the other quantifier shapes and a second symbol as well
TOKEN_TEXTS_WIDE = TOKEN_TEXTS + ["{0,0}", "{,}", "{2,}", "b"]
EXPLICIT_SIGMA = "abc"          # the explicit alphabet of the validate-vs-compile runs (⊇ the symbols a, b)
KIND = {"(": "lp", ")": "rp", "|": "bin", "&": "bin", "^": "bin", "*": "post", "+": "post", "?": "post",
        "{1,2}": "post", ".": "atom", "a": "atom", "b": "atom", "{0,0}": "post", "{,}": "post", "{2,}": "post"}


def in_grammar(kinds: List[str]) -> bool:
    """E → T (bin T)* ; T → F+ ; F → atom post* ; atom → lit | '(' E ')' | '(' ')'  — recursive descent."""
    pos = 0

    def atom() -> bool:
        nonlocal pos
        if pos < len(kinds) and kinds[pos] == "atom":
            pos += 1
            return True
        if pos < len(kinds) and kinds[pos] == "lp":
            pos += 1
            if pos < len(kinds) and kinds[pos] == "rp":
                pos += 1
                return True
            if not expr():
                return False
            if pos < len(kinds) and kinds[pos] == "rp":
                pos += 1
                return True
        return False

    def factor() -> bool:
        nonlocal pos
        if not atom():
            return False
        while pos < len(kinds) and kinds[pos] == "post":
            pos += 1
        return True

    def term() -> bool:
        if not factor():
            return False
        while pos < len(kinds) and kinds[pos] in ("atom", "lp"):
            if not factor():
                return False
        return True

    def expr() -> bool:
        nonlocal pos
        if not term():
            return False
        while pos < len(kinds) and kinds[pos] == "bin":
            pos += 1
            if not term():
                return False
        return True

    return expr() and pos == len(kinds)


REGEX_ERRORS = {"InvalidRegexError", "LexerError", "RegexException"}


def model_pipe(ctx: Ctx, s: str, sigma):
    t = Toks(ctx.driver("drv_regex").ask(toks("RX_PIPE", R.enc_str(s), R.enc_syms(sigma))))
    t.expect("validate")
    v = t.res(lambda: None)
    t.expect("compile")
    c = t.res(t.int)
    return v, c


def model_pipe2(ctx: Ctx, s: str, sigma):
    """validate, from_regex(default alphabet), from_regex(input_symbols=sigma) on the model."""
    t = Toks(ctx.driver("drv_regex").ask(toks("RX_PIPE2", R.enc_str(s), R.enc_syms(sigma))))
    t.expect("validate")
    v = t.res(lambda: None)
    t.expect("compile")
    c = t.res(t.int)
    t.expect("compile_sigma")
    c2 = t.res(t.int)
    return v, c, c2


# Every case evaluated in this process, in order, as its replay record (kind tokens / string / cmp): if a failing case
# turns out to depend on the calls made before it (harness/fresh.py), the earlier cases are its replay.
CALLS: list = []


def marks_calls(fn):
    """Failures recorded by a case function remember how many cases had been evaluated (their own included)."""
    import functools

    @functools.wraps(fn)
    def wrapper(ctx, *a, **kw):
        n = len(ctx.prop_fails)
        try:
            return fn(ctx, *a, **kw)
        finally:
            for f in ctx.prop_fails[n:]:
                f["_calls"] = len(CALLS)
    return wrapper


@marks_calls
def check_tokens(ctx: Ctx, texts: List[str], origin: str):
    """A string that is a sequence of documented tokens."""
    s = "".join(texts)
    CALLS.append(dict(op="case", kind="tokens", regex=s, tokens=list(texts)))
    kinds = [KIND[x] for x in texts if x.strip()]
    rv = call(lambda: rx.validate(s))
    rc = call(lambda: NFA.from_regex(s))
    rcn = ("ok", len(rc[1].states)) if rc[0] == "ok" else rc
    rcx = call(lambda: NFA.from_regex(s, input_symbols=frozenset(EXPLICIT_SIGMA)))
    rcxn = ("ok", len(rcx[1].states)) if rcx[0] == "ok" else rcx
    ctx.stat(origin)
    gram = (not kinds) or in_grammar(kinds)
    ctx.stat("in_grammar" if gram else "not_in_grammar")
    nontrivial = s if (len(kinds) >= 3 and any(k != "atom" for k in kinds)) else None
    ctx.case(nontrivial)
    case = dict(regex=s, tokens=texts)
    wrong = []
    if (rv[0] == "ok") != gram:
        wrong.append(f"validate {'accepts' if rv[0] == 'ok' else 'rejects'} a sequence that is "
                     f"{'not ' if not gram else ''}in the grammar")
    if (rv[0] == "ok") != (rc[0] == "ok"):
        wrong.append(f"validate says {rv[0] if rv[0] == 'ok' else rv[1]} but from_regex says "
                     f"{rc[0] if rc[0] == 'ok' else rc[1]}")
    if (rv[0] == "ok") != (rcx[0] == "ok"):
        wrong.append(f"validate says {rv[0] if rv[0] == 'ok' else rv[1]} but from_regex(input_symbols={EXPLICIT_SIGMA!r}) "
                     f"says {rcx[0] if rcx[0] == 'ok' else rcx[1]}")
    for name, r in (("validate", rv), ("from_regex", rc), (f"from_regex(input_symbols={EXPLICIT_SIGMA!r})", rcx)):
        if r[0] == "err":
            ctx.stat("err_" + r[1])
            if r[1] not in REGEX_ERRORS:
                wrong.append(f"{name} raises {r[1]}, not a RegexException")
    if rv[0] == "err" and not isinstance_regex_error(s):
        wrong.append("validate's exception is not an instance of RegexException")
    if wrong:
        ctx.prop_fail(f"regex {s!r}: " + "; ".join(wrong), dict(case, kind="tokens"), None)
        return
    mv, mc, mcx = model_pipe2(ctx, s, sorted(EXPLICIT_SIGMA))
    if (rv, rcn, rcxn) != (mv, mc, mcx):
        ctx.corr_diff("RX_PIPE2", case, dict(validate=rv, compile=rcn, compile_sigma=rcxn),
                      dict(validate=mv, compile=mc, compile_sigma=mcx))
    if ctx.evaluations % 4001 == 11:
        ctx.sample(dict(regex=s, validate=rv, compile=rcn, in_grammar=gram))


def isinstance_regex_error(s: str) -> bool:
    try:
        rx.validate(s)
    except exceptions.RegexException:
        return True
    except Exception:  # noqa: BLE001
        return False
    return True


_QUANT_RE = re.compile(r"\{(.*?),(.*?)\}")


def int_ok(text: str) -> bool:
    try:
        int(text)
        return True
    except ValueError:
        return False


def has_bad_bound(s: str) -> bool:
    """Some brace group of `s` has a non-empty bound text that int() rejects (the hypothesis
    `HasBadBound` of the theorems, evaluated with the real `re` and `int`): the quantifier pattern is
    tried at EVERY opening brace, not only where the lexer happens to arrive."""
    for i, ch in enumerate(s):
        if ch == "{":
            m = _QUANT_RE.match(s, i)
            if m and any(g and not int_ok(g) for g in m.groups()):
                return True
    return False


@marks_calls
def check_malformed(ctx: Ctx, s: str, origin: str):
    """Arbitrary strings (lone braces, odd bounds, white space).  Model = code on every one; and
    — theorems C11_validate_from_regex_any_default / C11_lex_error_kind — on the real code:
    unless a lone brace is lexed as a symbol (outside the documented syntax: validate ok,
    from_regex InvalidSymbolError) validate and from_regex succeed together or raise the same class;
    unless a brace group has a non-numeric bound that class is a RegexException subclass."""
    from harness.ops.C10 import stage_model, stage_observe
    from automata.regex import parser as rxparser
    CALLS.append(dict(op="case", kind="string", regex=s))
    ctx.stat(origin)
    ctx.case(None)
    rv = call(lambda: rx.validate(s))
    rc = call(lambda: NFA.from_regex(s))
    rcn = ("ok", len(rc[1].states)) if rc[0] == "ok" else rc
    for r in (rv, rc):
        if r[0] == "err":
            ctx.stat("malformed_err_" + r[1])
    case = dict(regex=s)
    so = stage_observe(s, frozenset(s) - rxparser.RESERVED_CHARACTERS)
    # --- property on the real code
    lexed = so["lex"][1] if so["lex"][0] == "ok" else []
    lone_brace = any(t in ("L:123", "L:125") for t in lexed)
    numeric = not has_bad_bound(s)
    ctx.stat("malformed_numeric_bounds" if numeric else "malformed_nonnumeric_bound")
    wrong = []
    if lone_brace:
        ctx.stat("malformed_lone_brace_symbol")
    else:
        if (rv[0] == "ok") != (rc[0] == "ok"):
            wrong.append(f"validate says {rv[0] if rv[0] == 'ok' else rv[1]} but from_regex says "
                         f"{rc[0] if rc[0] == 'ok' else rc[1]}")
        elif rv[0] == "err" and rv[1] != rc[1]:
            wrong.append(f"validate raises {rv[1]} but from_regex raises {rc[1]}")
    if numeric:
        for name, r in (("validate", rv),) + ((("from_regex", rc),) if not lone_brace else ()):
            if r[0] == "err" and r[1] not in REGEX_ERRORS:
                wrong.append(f"{name} raises {r[1]}, not a RegexException, although every brace group is numeric")
        if rv[0] == "err" and not isinstance_regex_error(s):
            wrong.append("validate's exception is not an instance of RegexException")
    elif rv[0] == "err" and rv[1] not in REGEX_ERRORS | {"ValueError"}:
        wrong.append(f"validate raises {rv[1]}: neither a RegexException nor the ValueError of int()")
    if wrong:
        ctx.prop_fail(f"regex {s!r}: " + "; ".join(wrong), dict(case, kind="string"), None)
        return
    # --- correspondence
    mv, mc = model_pipe(ctx, s, None)
    if (rv, rcn) != (mv, mc):
        ctx.corr_diff("RX_PIPE", case, dict(validate=rv, compile=rcn), dict(validate=mv, compile=mc))
    sm = stage_model(ctx, s)
    if so != sm:
        ctx.corr_diff("RX_POSTFIX", case, so, sm)


def check_cmp(ctx: Ctx, e1, e2, sigma: str, origin: str, style_rng=None):
    s1 = R.render(e1, "extra" if style_rng else "min", style_rng)
    s2 = R.render(e2, "extra" if style_rng else "min", style_rng)
    check_cmp_strings(ctx, s1, s2, e1, e2, sigma, origin)


@marks_calls
def check_cmp_strings(ctx: Ctx, s1: str, s2: str, e1, e2, sigma, origin: str):
    """Two renderings with their ASTs over a common alphabet (also the replay entry: the same library calls in the
    same order as in the run)."""
    sig = frozenset(sigma)
    CALLS.append(dict(op="case", re1=s1, re2=s2, input_symbols=sorted(sigma), ast1=e1, ast2=e2, kind="cmp"))
    sizes = [call(lambda s=s: len(NFA.from_regex(s, input_symbols=sig).states)) for s in (s1, s2)]
    if any(r[0] == "ok" and r[1] > 40 for r in sizes):
        ctx.stat("cmp_skipped_large_nfa")
        return
    real = (call(lambda: rx.isequal(s1, s2, input_symbols=sig)),
            call(lambda: rx.issubset(s1, s2, input_symbols=sig)),
            call(lambda: rx.issuperset(s1, s2, input_symbols=sig)))
    ctx.stat(origin)
    case = dict(re1=s1, re2=s2, input_symbols=sorted(sigma), ast1=e1, ast2=e2, kind="cmp")
    try:
        sub, sup = R.ast_cmp(e1, e2, sigma)
    except R.OracleBudget:
        ctx.stat("cmp_oracle_budget")
        return
    want = (("ok", sub and sup), ("ok", sub), ("ok", sup))
    ctx.stat(f"cmp_eq{int(sub and sup)}_sub{int(sub)}_sup{int(sup)}")
    n1 = len(R.den_words(e1, sorted(sigma), 3))
    n2 = len(R.den_words(e2, sorted(sigma), 3))
    ctx.case((s1, s2, sigma) if (n1 >= 1 and n2 >= 1 and n1 + n2 >= 4) else None)
    if real != want:
        names = ("isequal", "issubset", "issuperset")
        bad = [f"{n}={r[1]} (languages say {w[1]})" for n, r, w in zip(names, real, want) if r != w]
        ctx.prop_fail(f"{s1!r} vs {s2!r} over {sorted(sigma)}: " + "; ".join(bad), case, None)
        return
    model_cmp(ctx, s1, s2, sigma, case, real)


def model_cmp(ctx: Ctx, s1: str, s2: str, sigma, case: dict, real):
    """Correspondence of one comparison: the model helpers' answers against the real ones."""
    line = ctx.driver("drv_regex").ask(toks("RX_CMP", R.enc_str(s1), R.enc_str(s2), R.enc_syms(sorted(sigma))))
    t = Toks(line)
    k = t.next()
    if k == "ok":
        # answers of the model helpers isequal / issubset / issuperset (eqLib = C09's ==, uniLib = C08's union)
        mod = (("ok", bool(t.int())), ("ok", bool(t.int())), ("ok", bool(t.int())))
        t.expect("chk")
        chk = t.next()
        ctx.stat("cmp_crosscheck_" + chk)
        if chk == "differ":
            # the verified helpers and the driver-side subset search disagree on the same model NFAs
            ctx.corr_diff("RX_CMP_crosscheck", case, real, dict(model_helpers=mod, line=line))
    else:
        c = t.next()
        mod = (("err", c),) * 3
    if mod != real:
        ctx.corr_diff("RX_CMP", case, real, mod)


MALFORMED_CORPUS = [" ", "", "\t", "a{", "a}", "{", "}", "{}", "{,}", "a{,}", "a{1}", "a{1,2", "a{x,1}", "a{1,x}", "a{-1,2}",
                    "a{2,1}", "a{+1,2}", "a{1,2,3}", "a{}b,c}", "a{ 1,2 }", "a{1_0,1_1}", "a{1__0,}", "a{_1,}", "a{1_,}",
                    "a{\x1c1,}", "a{\xa01,2 }", "a\nb", "a\x0bb", "a\x1cb", "a\xa0b", "a　b", "a{1\n,2}", "a{1,2\n}",
                    "a{,\n},}", "a{0,-0}", "a{-0,0}", "a{00,01}", "a,b", "a{1,2}{", "{1,2}", "({1,2})", "a|{1,2}", "é{1,2}",
                    # numeric but ill-ordered / negative bounds: InvalidRegexError from validate AND from_regex
                    "a{3,2}", "a{-1,}", "a{,-1}", "a{10,9}", "a{ 2 , 1 }", "{2,1}", "(a|b){007,6}", "a{2,1}{x,1}", "a{x,1}{2,1}",
                    "a{1,2}{2,1}", "a{-2,-1}", "a{ 1 ,\t2 }", "a{ ,2}", "a{1, }", "1{1,1}1", ",{,1},"]
# not in the corpus on purpose: "a{１,２}" — Python's int() also accepts non-ASCII decimal digits, the model
# does not (ASSUMPTIONS); such bounds are outside the documented syntax.


def rand_nearly_valid(rng, max_len: int) -> List[str]:
    """Token sequence obtained from a valid rendering by a few random edits."""
    e = R.rand_ast(rng, "a", rng.choice([1, 2, 3]))
    s = R.render(e, rng.choice(["min", "full", "blank"]))
    texts: List[str] = []
    i = 0
    while i < len(s):
        if s[i] == "{":
            j = s.index("}", i)
            texts.append("{1,2}")
            i = j + 1
        else:
            texts.append(s[i] if s[i] != "\t" else " ")
            i += 1
    texts = texts[:max_len]
    for _ in range(rng.choice([0, 1, 1, 2])):
        r = rng.random()
        if r < 0.4 and texts:
            del texts[rng.randrange(len(texts))]
        elif r < 0.8:
            texts.insert(rng.randrange(len(texts) + 1), rng.choice(TOKEN_TEXTS_WIDE))
        elif texts:
            texts[rng.randrange(len(texts))] = rng.choice(TOKEN_TEXTS_WIDE)
    return texts


_KIND1 = {"(": "lp", ")": "rp", "|": "bin", "&": "bin", "^": "bin", "*": "post", "+": "post", "?": "post"}


def kinds_of(s: str) -> List[str]:
    """Token kinds of a string made of documented tokens over ANY symbols (for `in_grammar`)."""
    out, i = [], 0
    while i < len(s):
        c = s[i]
        if c in " \t":
            i += 1
        elif c == "{":
            i = s.index("}", i) + 1
            out.append("post")
        else:
            out.append(_KIND1.get(c, "atom"))
            i += 1
    return out


def judge_program_json(text: str):
    """Entry point of the fresh-interpreter confirmation and of `replay`: run a recorded program of calls through
    the real library, every step judged by its own oracle; returns the list of failures."""
    ctx = Ctx("C11", "quick", 0)

    def case_step(st):
        n = len(ctx.prop_fails)
        replay_case(ctx, st)
        return [f["what"] for f in ctx.prop_fails[n:]]

    try:
        return S.judge_steps(json.loads(text), extra_ops={"case": case_step})
    except S.Skip:
        return []
    finally:
        for d in ctx.drivers.values():
            d.close()


def replay_case(ctx: Ctx, rp: dict):
    """Re-evaluate one recorded case (kind cmp / string / tokens) with the same library calls as in the run."""
    if rp.get("kind") == "defcmp":
        check_defcmp_strings(ctx, rp["re1"], rp["re2"], to_ast(rp["ast1"]), to_ast(rp["ast2"]), "replay", rp.get("spell", "omitted"))
    elif rp.get("kind") == "cmp":
        check_cmp_strings(ctx, rp["re1"], rp["re2"], to_ast(rp["ast1"]), to_ast(rp["ast2"]), "".join(rp["input_symbols"]), "replay")
    elif rp.get("kind") == "string":
        check_malformed(ctx, rp["regex"], "replay")
    else:
        check_tokens(ctx, rp["tokens"], "replay")


def settle_replays(ctx: Ctx):
    """The failure run.py prints must fail as the first thing a fresh interpreter does; otherwise its replay becomes
    recorded earlier calls / cases of the run followed by it (harness/fresh.py)."""
    from harness import fresh

    def make_replay(steps, rp, n_history):
        return dict(kind="sequence", steps=steps, failing_step=n_history + rp.get("failing_step", 0))

    fresh.settle_replays(ctx, "C11", CALLS, lambda rp: dict(rp, op="case"), S.keys_of, make_replay)


def fresh_alphabet_sequences(ctx: Ctx):
    """Round 3: short programs of calls (validate / from_regex / a failed call → isequal, issubset, issuperset; the
    same call twice; the same expressions over two alphabets), each over an alphabet NO earlier call of this process
    has touched, `()` in most expressions.  Must run before every other family (see harness/rx_sequences.py).
    Judged: validate accepts renderings of ASTs and refuses (with a RegexException) strings that are outside the
    grammar by construction — cross-checked with `in_grammar`; from_regex succeeds / refuses accordingly; the three
    helpers against the derivative oracle `ast_cmp`.  The model is asked afterwards (it has no history)."""
    rng = ctx.rng
    used: set = set()
    failing: list = []
    for _ in range(ctx.budget(1000, 8000)):
        prog = S.gen_program(rng, used, "cmp", rewrite_equiv)
        if prog is None:
            ctx.stat("seq_no_fresh_alphabet")
            continue
        steps = prog["steps"]
        for st in steps:
            if "valid" in st and in_grammar(kinds_of(st["re"])) != st["valid"]:
                raise InfraError(f"sequence generator: {st['re']!r} marked valid={st['valid']} but the grammar says otherwise")
        used.update(S.touched_alphabets(steps))
        CALLS.extend(S.clean(steps))
        try:
            bad = S.judge_steps(steps)
        except S.Skip:
            ctx.stat("seq_oracle_budget")
            continue
        ctx.stat("sequence")
        ctx.stat(f"seq_steps_{len(steps)}")
        ctx.stat(f"seq_alphabet_size_{min(len(prog['sigma']), 6)}")
        for tg in prog["tags"]:
            ctx.stat("seq_" + tg)
        ctx.case(json.dumps(S.clean(steps), sort_keys=True) if len(steps) >= 2 else None)
        if bad:
            ctx.stat("seq_failing_program")
            failing.append((prog, bad, len(CALLS)))
            continue
        for st in steps:
            if st["op"] == "cmp":
                sub, sup = st["_real"][1][1], st["_real"][2][1]
                ctx.stat(f"seq_cmp_eq{int(sub and sup)}_sub{int(sub)}_sup{int(sup)}")
                model_cmp(ctx, st["re1"], st["re2"], "".join(st["input_symbols"]),
                          dict(re1=st["re1"], re2=st["re2"], input_symbols=st["input_symbols"], kind="cmp", origin="sequence"),
                          tuple(st["_real"]))
        if ctx.evaluations % 97 == 5:
            ctx.sample(dict(sequence=S.clean(steps)))
    S.report_failing(ctx, failing)


@marks_calls
def check_defcmp_strings(ctx: Ctx, s1: str, s2: str, e1, e2, origin: str, spell: str = "omitted", tags=()):
    """Round 6: one pair of renderings with the SAME default alphabet Σ, compared with the helpers' DEFAULT
    arguments (input_symbols omitted, or None spelled out) and with input_symbols=Σ: both must give the language
    comparison over exactly Σ (oracle: the two ASTs, harness/rx_defaults.py); validate / from_regex with the default
    alphabet must accept both texts and compile them to their language over Σ.  Also the replay entry."""
    case = dict(kind="defcmp", re1=s1, re2=s2, ast1=e1, ast2=e2, spell=spell)
    CALLS.append(dict(case, op="case"))
    res = D.judge_pair(s1, s2, e1, e2, spell)
    if "skip" in res:
        ctx.stat("defcmp_skipped_" + res["skip"])
        return
    sigma, sub, sup = res["sigma"], res["sub"], res["sup"]
    ctx.stat(origin)
    for tg in tags:
        ctx.stat("defcmp_" + tg)
    has_any = "any" in (R.ops_of(e1) | R.ops_of(e2))
    ctx.stat("defcmp_wildcard_" + ("yes" if has_any else "no"))
    ctx.stat("defcmp_literals_" + D.literal_class(sigma))
    ctx.stat(f"defcmp_alphabet_size_{min(len(sigma), 6)}")
    ctx.stat("defcmp_spelled_" + spell)
    ctx.stat(f"defcmp_eq{int(sub and sup)}_sub{int(sub)}_sup{int(sup)}")
    if D.alphabet_sensitive(e1, e2, sigma, (sub, sup)):
        ctx.stat("defcmp_answer_depends_on_what_dot_ranges_over")
    n1, n2 = len(R.den_words(e1, sorted(sigma), 2)), len(R.den_words(e2, sorted(sigma), 2))
    ctx.case(("default", s1, s2) if (n1 >= 1 and n2 >= 1 and n1 + n2 >= 3) else None)
    if res["wrong"]:
        ctx.stat("defcmp_failing_pair")
        ctx.prop_fail(f"{s1!r} vs {s2!r} (same default alphabet {sorted(sigma)}): " + "; ".join(res["wrong"]), case, None)
        return
    if ctx.evaluations % 53 == 7:
        ctx.sample(dict(re1=s1, re2=s2, default_alphabet=sorted(sigma), isequal=sub and sup, issubset=sub, issuperset=sup,
                        called="default arguments and input_symbols=default alphabet"))
    # correspondence: the model helpers over the explicit alphabet Σ against the real DEFAULT-argument answers
    sig = frozenset(sigma)
    sizes = [call(lambda s=s: len(NFA.from_regex(s, input_symbols=sig).states)) for s in (s1, s2)]
    if any(r[0] == "ok" and r[1] > 40 for r in sizes):
        ctx.stat("defcmp_model_skipped_large_nfa")
        return
    model_cmp(ctx, s1, s2, "".join(sorted(sigma)), dict(case, input_symbols=sorted(sigma), origin="default_arguments"),
              tuple(res["default"]))


def default_argument_comparisons(ctx: Ctx):
    """Round 6 family: pairs of valid expressions whose texts have the same default alphabet, compared with the
    helpers' default arguments (harness/rx_defaults.py): corpus, an exhaustive sub-domain, shaped random pairs."""
    rng = ctx.rng

    def enough_failures() -> bool:
        # a broken tree fails on hundreds of these pairs (and its helpers may be slow): 40 failing pairs are evidence enough
        return ctx.stats.get("defcmp_failing_pair", 0) >= 40

    for e1, e2 in D.corpus():
        s1, s2 = R.render(e1, "min"), R.render(e2, "min")
        if S.default_alphabet(s1) != S.default_alphabet(s2):
            raise InfraError(f"default-argument corpus: {s1!r} and {s2!r} have different default alphabets")
        check_defcmp_strings(ctx, s1, s2, e1, e2, "defcmp_corpus")
        check_defcmp_strings(ctx, s2, s1, e2, e1, "defcmp_corpus", "none")
    symbols = ["a", "-"] if ctx.thorough() else [rng.choice(["a", "Q", "7"]), rng.choice(D.PUNCT + D.UNICODE)]
    for i, c in enumerate(symbols):
        pairs = list(D.exhaustive_pairs(c))
        if not ctx.thorough() and i == 1:
            pairs = rng.sample(pairs, 60)           # quick tier: the second symbol on a sample of the sub-domain
        for e1, e2 in pairs:
            if enough_failures():
                break
            check_defcmp_strings(ctx, R.render(e1, "min"), R.render(e2, "min"), e1, e2, "defcmp_small_pool")
        if ctx.thorough() or i == 0:
            ctx.exhaustive(f"default arguments: every ordered pair of ASTs of depth ≤1 over the atoms {c!r} . () (no quantifier) "
                           f"in which both mention {c!r} and at least one contains the wildcard ({len(pairs)} pairs): "
                           "isequal/issubset/issuperset with input_symbols omitted and with input_symbols={" + c + "} vs the "
                           "language comparison over {" + c + "}")
    n = 0
    for _ in range(ctx.budget(330, 9000) * 3):
        if n >= ctx.budget(330, 9000) or enough_failures():
            break
        pair = D.gen_pair(rng, rewrite_equiv)
        if pair is None:
            ctx.stat("defcmp_generator_too_large")
            continue
        n += 1
        tags = ["rel_" + pair["rel"]] + (["padded_to_equal_alphabets"] if pair["padded"] else []) + \
               (["with_quantifiers"] if pair["quant"] else ["no_quantifier"])
        check_defcmp_strings(ctx, pair["re1"], pair["re2"], pair["ast1"], pair["ast2"], "defcmp_random",
                             "none" if rng.random() < 0.15 else "omitted", tags)
    if enough_failures():
        ctx.note("default-argument comparisons: the family stopped after 40 failing pairs")
    for key, what in (("defcmp_skipped_oracle_budget", "the derivative oracle hit its budget — skipped"),
                      ("defcmp_model_skipped_large_nfa", "an operand compiles to more than 40 states — judged on the real "
                                                         "code, model not asked")):
        if ctx.stats.get(key, 0):
            ctx.note(f"{ctx.stats[key]} default-argument pair(s): {what}")


def run(ctx: Ctx):
    try:
        run_families(ctx)
    finally:
        settle_replays(ctx)


def run_families(ctx: Ctx):
    rng = ctx.rng
    # 0. call sequences over fresh alphabets — FIRST, while no alphabet has been used in this process
    fresh_alphabet_sequences(ctx)
    # 0b. round 6: the helpers with their DEFAULT arguments on pairs with the same default alphabet
    default_argument_comparisons(ctx)
    # 1. corpus: F5 trigger and friends, m24 shapes
    for texts in ([" "], [" ", " "], [], ["(", "a", "|", ")"], ["(", "|", "a", ")"], ["a", "|", ")"], ["(", ")"],
                  ["(", "(", ")", ")"], ["a", "*", "*"], ["(", ")", "*"], [")", "("], ["(", "a"], ["a", ")"],
                  ["a", "&", ")", "("], ["(", "a", "^", ")", "a"]):
        check_tokens(ctx, texts, "corpus")
    for s in MALFORMED_CORPUS:
        check_malformed(ctx, s, "corpus_malformed")
    # 2. bounded-exhaustive token sequences
    maxlen = 5 if ctx.thorough() else 4
    for k in range(0, maxlen + 1):
        for texts in itertools.product(TOKEN_TEXTS_WIDE if k <= 3 else TOKEN_TEXTS, repeat=k):
            check_tokens(ctx, list(texts), f"exhaustive_len{k}")
    ctx.exhaustive("every sequence of length ≤3 over the 16 token texts ( ) | & ^ * + ? {1,2} {0,0} {,} {2,} . a b blank "
                   f"and every sequence of length 4..{maxlen} over the 12 token texts ( ) | & ^ * + ? {{1,2}} . a blank: "
                   "validate vs grammar vs from_regex (default alphabet and input_symbols={a,b,c}) vs model")
    # 3. random longer sequences, nearly valid
    for _ in range(ctx.budget(4000, 80000)):
        check_tokens(ctx, rand_nearly_valid(rng, 14), "random_nearly_valid")
    # 4. malformed stream
    chars = "ab(){}{},,|&^*+?. \t\n01239-_+x\x1c\xa0"
    for _ in range(ctx.budget(1500, 30000)):
        k = rng.randint(1, 8)
        s = "".join(rng.choice(chars) for _ in range(k))
        if rng.random() < 0.5:
            lo = rng.choice(["", "0", "1", "2", " 1", "-1", "x", "1_0", "+2", "01"])
            hi = rng.choice(["", "0", "1", "2", "3 ", "-1", "y", "2,3", "}"])
            pos = rng.randrange(len(s) + 1)
            s = s[:pos] + "{" + lo + "," + hi + "}" + s[pos:]
        check_malformed(ctx, s, "random_malformed")
    # 5. comparisons over a common explicit alphabet
    pool = R.asts_upto("ab", 1, [(0, 0), (1, 2), (2, None), (None, 1)])
    n_pairs = ctx.budget(1500, 30000)
    for i in range(n_pairs):
        sigma = rng.choice(["ab", "ab", "ab", "abc", "a", "1,", "\u00e9\U0001d4b3", "-a1", "abcde", "ab1,-\u00e9\U0001d4b3"])
        ctx.stat(f"cmp_alphabet_size_{len(sigma)}")
        lits = sigma[:2] if sigma[:2] in ("ab", "1,", "\u00e9\U0001d4b3") else sigma[:3]
        r = rng.random()
        if r < 0.3 and sigma.startswith("ab"):
            e1, e2 = rng.choice(pool), rng.choice(pool)
        else:
            e1 = R.rand_ast(rng, lits, rng.choice([1, 2, 3]), p_wide=0.15)
            if r < 0.55:
                e2 = rewrite_equiv(rng, e1)
            elif r < 0.75:
                e2 = ("alt", e1, R.rand_ast(rng, lits, 1))      # superset
            else:
                e2 = R.rand_ast(rng, lits, rng.choice([1, 2, 3]), p_wide=0.15)
        if R.size(e1) + R.size(e2) > 22:
            continue
        if not (R.lits_of(e1) | R.lits_of(e2)) <= set(sigma):
            sigma = "".join(sorted(set(sigma) | R.lits_of(e1) | R.lits_of(e2)))   # domain: a common alphabet of both
        check_cmp(ctx, e1, e2, sigma, "cmp", rng if rng.random() < 0.3 else None)
    for key, what in (("cmp_skipped_large_nfa", "an operand compiles to an NFA with more than 40 states"),
                      ("cmp_oracle_budget", "the derivative oracle for the two ASTs hit its budget"),
                      ("cmp_crosscheck_budget", "the driver-side cross-check of the model helpers hit its search limit "
                                                "(the model helpers' answers were still compared with the code)")):
        if ctx.stats.get(key, 0):
            ctx.note(f"{ctx.stats[key]} comparison pair(s): {what}" + ("" if key == "cmp_crosscheck_budget" else " — skipped"))


def rewrite_equiv(rng, e):
    """A language-preserving rewrite of `e` (so that equal pairs are common)."""
    r = rng.random()
    if r < 0.2:
        return ("alt", e, e)
    if r < 0.35:
        return ("cat", e, ("eps",))
    if r < 0.5:
        return ("and", e, e)
    if r < 0.6:
        return ("shuf", ("eps",), e)
    if r < 0.7:
        return ("rep", e, 1, 1)
    if e[0] == "star":
        return ("rep", e[1], None, None) if r < 0.85 else ("opt", ("plus", e[1]))
    if e[0] in ("alt", "and", "shuf"):
        return (e[0], e[2], e[1])
    if e[0] == "plus":
        return ("cat", e[1], ("star", e[1]))
    if e[0] == "opt":
        return ("alt", ("eps",), e[1])
    return ("rep", e, 1, 1)


def to_ast(x):
    return tuple(to_ast(y) if isinstance(y, list) else y for y in x) if isinstance(x, (list, tuple)) else x


def replay(ctx: Ctx, path: str) -> int:
    data = json.load(open(path))
    rp = data.get("replay", data)
    if rp.get("kind") == "sequence":
        for i, what, _detail in judge_program_json(json.dumps(rp["steps"])):
            ctx.prop_fail(f"after {S.describe(rp['steps'], i)}: {what}", rp, None)
    else:
        replay_case(ctx, rp)
    if ctx.prop_fails:
        print(f"VIOLATION property=C11 replay={path}")
        print("  " + ctx.prop_fails[0]["what"])
        return 1
    print("replay: property holds on this input now")
    return 0
