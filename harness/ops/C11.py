"""C11 — regex validation and comparison helpers agree with compilation and are exact.

Correspondence (real code vs. Lean model through drv_regex):
  RX_PIPE s Σ     regex.validate(s) and NFA.from_regex(s) — ok / exception class (and #states);
  RX_LEX s        token stream or exception class (malformed stream: lone braces, non-numeric
                  bounds, odd white space — only "model = code" is checked there);
  RX_CMP s₁ s₂ Σ  isequal / issubset / issuperset over an explicit common alphabet.
Property on the real code, independent of the model:
  * for every sequence of documented tokens: validate ok ⇔ the token sequence is in the
    grammar (a 25-line recursive-descent recogniser written here) ⇔ from_regex succeeds;
    a failure is a RegexException subclass (InvalidRegexError / LexerError);
  * isequal / issubset / issuperset = language (in)equality / inclusion of the two ASTs,
    decided exactly by Brzozowski derivatives.
"""
from __future__ import annotations

import itertools
import json
from typing import List, Optional

import automata.base.exceptions as exceptions
from automata.fa.nfa import NFA
from automata.regex import regex as rx

from harness import rx_common as R
from harness.common import Ctx, Toks, call, toks

LEVEL = "proof"
RULE = ("cases = (a) strings that are sequences of the documented tokens ( ) | & ^ * + ? {1,2} . a and blank: every "
        "sequence of length ≤4 (thorough ≤5), then random longer ones shaped to be nearly valid; (b) malformed strings "
        "(lone braces, odd bounds, white space) for model=code only; (c) pairs of ASTs rendered to strings compared over "
        "a common explicit alphabet; non-trivial = (a) ≥3 tokens with at least one parenthesis or operator, "
        "(c) both languages non-empty and not both trivial; distinct = distinct strings / pairs")
ASSUMPTIONS = [
    "documented tokens only in the property part: symbols, operators, parentheses, {m,n} {m,} {,n} with ASCII decimal bounds, blanks",
    "comparisons take an explicit common alphabet (with input_symbols=None each regex infers its own alphabet, F17)",
    "Python re / int() are modelled by hand (trusted)",
]
EXPLANATION = ("C11_* theorems: validate_tokens accepts exactly the token grammar, which is exactly when the model compiles; "
               "errors are RegexException subclasses; the comparison helpers reduce to language (in)equality via C10. "
               "This run ties the model to the code and evaluates the property itself on the real code.")

TOKEN_TEXTS = ["(", ")", "|", "&", "^", "*", "+", "?", "{1,2}", ".", "a", " "]
KIND = {"(": "lp", ")": "rp", "|": "bin", "&": "bin", "^": "bin", "*": "post", "+": "post", "?": "post",
        "{1,2}": "post", ".": "atom", "a": "atom", "b": "atom", "{0,0}": "post", "{,}": "post", "{2,}": "post"}


def in_grammar(kinds: List[str]) -> bool:
    """E → T (bin T)* ; T → F+ ; F → atom post* ; atom → lit | '(' E ')' | '(' ')'  — recursive descent."""
    pos = 0

    def atom() -> bool:
        nonlocal pos
        if pos < len(kinds) and kinds[pos] == "atom":
            pos += 1
            return True
        if pos < len(kinds) and kinds[pos] == "lp":
            pos += 1
            if pos < len(kinds) and kinds[pos] == "rp":
                pos += 1
                return True
            if not expr():
                return False
            if pos < len(kinds) and kinds[pos] == "rp":
                pos += 1
                return True
        return False

    def factor() -> bool:
        nonlocal pos
        if not atom():
            return False
        while pos < len(kinds) and kinds[pos] == "post":
            pos += 1
        return True

    def term() -> bool:
        if not factor():
            return False
        while pos < len(kinds) and kinds[pos] in ("atom", "lp"):
            if not factor():
                return False
        return True

    def expr() -> bool:
        nonlocal pos
        if not term():
            return False
        while pos < len(kinds) and kinds[pos] == "bin":
            pos += 1
            if not term():
                return False
        return True

    return expr() and pos == len(kinds)


REGEX_ERRORS = {"InvalidRegexError", "LexerError", "RegexException"}


def model_pipe(ctx: Ctx, s: str, sigma):
    t = Toks(ctx.driver("drv_regex").ask(toks("RX_PIPE", R.enc_str(s), R.enc_syms(sigma))))
    t.expect("validate")
    v = t.res(lambda: None)
    t.expect("compile")
    c = t.res(t.int)
    return v, c


def check_tokens(ctx: Ctx, texts: List[str], origin: str):
    """A string that is a sequence of documented tokens."""
    s = "".join(texts)
    kinds = [KIND[x] for x in texts if x.strip()]
    rv = call(lambda: rx.validate(s))
    rc = call(lambda: NFA.from_regex(s))
    rcn = ("ok", len(rc[1].states)) if rc[0] == "ok" else rc
    ctx.stat(origin)
    gram = (not kinds) or in_grammar(kinds)
    ctx.stat("in_grammar" if gram else "not_in_grammar")
    nontrivial = s if (len(kinds) >= 3 and any(k != "atom" for k in kinds)) else None
    ctx.case(nontrivial)
    case = dict(regex=s, tokens=texts)
    wrong = []
    if (rv[0] == "ok") != gram:
        wrong.append(f"validate {'accepts' if rv[0] == 'ok' else 'rejects'} a sequence that is "
                     f"{'not ' if not gram else ''}in the grammar")
    if (rv[0] == "ok") != (rc[0] == "ok"):
        wrong.append(f"validate says {rv[0] if rv[0] == 'ok' else rv[1]} but from_regex says "
                     f"{rc[0] if rc[0] == 'ok' else rc[1]}")
    for name, r in (("validate", rv), ("from_regex", rc)):
        if r[0] == "err":
            ctx.stat("err_" + r[1])
            if r[1] not in REGEX_ERRORS:
                wrong.append(f"{name} raises {r[1]}, not a RegexException")
    if rv[0] == "err" and not isinstance_regex_error(s):
        wrong.append("validate's exception is not an instance of RegexException")
    if wrong:
        ctx.prop_fail(f"regex {s!r}: " + "; ".join(wrong), dict(case, kind="tokens"), None)
        return
    mv, mc = model_pipe(ctx, s, None)
    if (rv, rcn) != (mv, mc):
        ctx.corr_diff("RX_PIPE", case, dict(validate=rv, compile=rcn), dict(validate=mv, compile=mc))
    if ctx.evaluations % 4001 == 11:
        ctx.sample(dict(regex=s, validate=rv, compile=rcn, in_grammar=gram))


def isinstance_regex_error(s: str) -> bool:
    try:
        rx.validate(s)
    except exceptions.RegexException:
        return True
    except Exception:  # noqa: BLE001
        return False
    return True


def check_malformed(ctx: Ctx, s: str, origin: str):
    """Strings outside the documented token set: model = code only (classes of exceptions,
    token streams); and nothing but an exception may happen."""
    from harness.ops.C10 import stage_model, stage_observe
    from automata.regex import parser as rxparser
    ctx.stat(origin)
    ctx.case(None)
    rv = call(lambda: rx.validate(s))
    rc = call(lambda: NFA.from_regex(s))
    rcn = ("ok", len(rc[1].states)) if rc[0] == "ok" else rc
    for r in (rv, rc):
        if r[0] == "err":
            ctx.stat("malformed_err_" + r[1])
    mv, mc = model_pipe(ctx, s, None)
    case = dict(regex=s)
    if (rv, rcn) != (mv, mc):
        ctx.corr_diff("RX_PIPE", case, dict(validate=rv, compile=rcn), dict(validate=mv, compile=mc))
    so = stage_observe(s, frozenset(s) - rxparser.RESERVED_CHARACTERS)
    sm = stage_model(ctx, s)
    if so != sm:
        ctx.corr_diff("RX_POSTFIX", case, so, sm)


def check_cmp(ctx: Ctx, e1, e2, sigma: str, origin: str, style_rng=None):
    s1 = R.render(e1, "extra" if style_rng else "min", style_rng)
    s2 = R.render(e2, "extra" if style_rng else "min", style_rng)
    sig = frozenset(sigma)
    sizes = [call(lambda s=s: len(NFA.from_regex(s, input_symbols=sig).states)) for s in (s1, s2)]
    if any(r[0] == "ok" and r[1] > 40 for r in sizes):
        ctx.stat("cmp_skipped_large_nfa")
        return
    real = (call(lambda: rx.isequal(s1, s2, input_symbols=sig)),
            call(lambda: rx.issubset(s1, s2, input_symbols=sig)),
            call(lambda: rx.issuperset(s1, s2, input_symbols=sig)))
    ctx.stat(origin)
    case = dict(re1=s1, re2=s2, input_symbols=sorted(sigma), ast1=e1, ast2=e2, kind="cmp")
    try:
        sub, sup = R.ast_cmp(e1, e2, sigma)
    except R.OracleBudget:
        ctx.stat("cmp_oracle_budget")
        return
    want = (("ok", sub and sup), ("ok", sub), ("ok", sup))
    ctx.stat(f"cmp_eq{int(sub and sup)}_sub{int(sub)}_sup{int(sup)}")
    n1 = len(R.den_words(e1, sorted(sigma), 3))
    n2 = len(R.den_words(e2, sorted(sigma), 3))
    ctx.case((s1, s2, sigma) if (n1 >= 1 and n2 >= 1 and n1 + n2 >= 4) else None)
    if real != want:
        names = ("isequal", "issubset", "issuperset")
        bad = [f"{n}={r[1]} (languages say {w[1]})" for n, r, w in zip(names, real, want) if r != w]
        ctx.prop_fail(f"{s1!r} vs {s2!r} over {sorted(sigma)}: " + "; ".join(bad), case, None)
        return
    line = ctx.driver("drv_regex").ask(toks("RX_CMP", R.enc_str(s1), R.enc_str(s2), R.enc_syms(sorted(sigma))))
    t = Toks(line)
    k = t.next()
    if k == "budget":
        ctx.stat("cmp_model_budget")     # driver-side determinisation limit: model side skipped
        return
    if k == "ok":
        mod = (("ok", bool(t.int())), ("ok", bool(t.int())), ("ok", bool(t.int())))
    else:
        c = t.next()
        mod = (("err", c),) * 3
    if mod != real:
        ctx.corr_diff("RX_CMP", case, real, mod)


MALFORMED_CORPUS = [" ", "", "\t", "a{", "a}", "{", "}", "{}", "{,}", "a{,}", "a{1}", "a{1,2", "a{x,1}", "a{1,x}", "a{-1,2}",
                    "a{2,1}", "a{+1,2}", "a{1,2,3}", "a{}b,c}", "a{ 1,2 }", "a{1_0,1_1}", "a{1__0,}", "a{_1,}", "a{1_,}",
                    "a{\x1c1,}", "a{\xa01,2 }", "a\nb", "a\x0bb", "a\x1cb", "a\xa0b", "a　b", "a{1\n,2}", "a{1,2\n}",
                    "a{,\n},}", "a{0,-0}", "a{-0,0}", "a{00,01}", "a,b", "a{1,2}{", "{1,2}", "({1,2})", "a|{1,2}", "é{1,2}"]
# not in the corpus on purpose: "a{１,２}" — Python's int() also accepts non-ASCII decimal digits, the model
# does not (ASSUMPTIONS); such bounds are outside the documented syntax.


def rand_nearly_valid(rng, max_len: int) -> List[str]:
    """Token sequence obtained from a valid rendering by a few random edits."""
    e = R.rand_ast(rng, "a", rng.choice([1, 2, 3]))
    s = R.render(e, rng.choice(["min", "full", "blank"]))
    texts: List[str] = []
    i = 0
    while i < len(s):
        if s[i] == "{":
            j = s.index("}", i)
            texts.append("{1,2}")
            i = j + 1
        else:
            texts.append(s[i] if s[i] != "\t" else " ")
            i += 1
    texts = texts[:max_len]
    for _ in range(rng.choice([0, 1, 1, 2])):
        r = rng.random()
        if r < 0.4 and texts:
            del texts[rng.randrange(len(texts))]
        elif r < 0.8:
            texts.insert(rng.randrange(len(texts) + 1), rng.choice(TOKEN_TEXTS))
        elif texts:
            texts[rng.randrange(len(texts))] = rng.choice(TOKEN_TEXTS)
    return texts


def run(ctx: Ctx):
    rng = ctx.rng
    # 1. corpus: F5 trigger and friends, m24 shapes
    for texts in ([" "], [" ", " "], [], ["(", "a", "|", ")"], ["(", "|", "a", ")"], ["a", "|", ")"], ["(", ")"],
                  ["(", "(", ")", ")"], ["a", "*", "*"], ["(", ")", "*"], [")", "("], ["(", "a"], ["a", ")"],
                  ["a", "&", ")", "("], ["(", "a", "^", ")", "a"]):
        check_tokens(ctx, texts, "corpus")
    for s in MALFORMED_CORPUS:
        check_malformed(ctx, s, "corpus_malformed")
    # 2. bounded-exhaustive token sequences
    maxlen = 5 if ctx.thorough() else 4
    for k in range(0, maxlen + 1):
        for texts in itertools.product(TOKEN_TEXTS, repeat=k):
            check_tokens(ctx, list(texts), f"exhaustive_len{k}")
    ctx.exhaustive(f"every sequence of length ≤{maxlen} over the 12 token texts ( ) | & ^ * + ? {{1,2}} . a blank: "
                   "validate vs grammar vs from_regex vs model")
    # 3. random longer sequences, nearly valid
    for _ in range(ctx.budget(4000, 80000)):
        check_tokens(ctx, rand_nearly_valid(rng, 14), "random_nearly_valid")
    # 4. malformed stream
    chars = "ab(){}{},,|&^*+?. \t\n01239-_+x\x1c\xa0"
    for _ in range(ctx.budget(1500, 30000)):
        k = rng.randint(1, 8)
        s = "".join(rng.choice(chars) for _ in range(k))
        if rng.random() < 0.5:
            lo = rng.choice(["", "0", "1", "2", " 1", "-1", "x", "1_0", "+2", "01"])
            hi = rng.choice(["", "0", "1", "2", "3 ", "-1", "y", "2,3", "}"])
            pos = rng.randrange(len(s) + 1)
            s = s[:pos] + "{" + lo + "," + hi + "}" + s[pos:]
        check_malformed(ctx, s, "random_malformed")
    # 5. comparisons over a common explicit alphabet
    pool = R.asts_upto("ab", 1, [(0, 0), (1, 2), (2, None), (None, 1)])
    n_pairs = ctx.budget(1500, 30000)
    for i in range(n_pairs):
        sigma = rng.choice(["ab", "ab", "abc", "a"])
        r = rng.random()
        if r < 0.3:
            e1, e2 = rng.choice(pool), rng.choice(pool)
        else:
            e1 = R.rand_ast(rng, sigma[:2], rng.choice([1, 2, 3]))
            if r < 0.55:
                e2 = rewrite_equiv(rng, e1)
            elif r < 0.75:
                e2 = ("alt", e1, R.rand_ast(rng, sigma[:2], 1))      # superset
            else:
                e2 = R.rand_ast(rng, sigma[:2], rng.choice([1, 2, 3]))
        if R.size(e1) + R.size(e2) > 22:
            continue
        if not (R.lits_of(e1) | R.lits_of(e2)) <= set(sigma):
            sigma = "".join(sorted(set(sigma) | R.lits_of(e1) | R.lits_of(e2)))   # domain: a common alphabet of both
        check_cmp(ctx, e1, e2, sigma, "cmp", rng if rng.random() < 0.3 else None)


def rewrite_equiv(rng, e):
    """A language-preserving rewrite of `e` (so that equal pairs are common)."""
    r = rng.random()
    if r < 0.2:
        return ("alt", e, e)
    if r < 0.35:
        return ("cat", e, ("eps",))
    if r < 0.5:
        return ("and", e, e)
    if r < 0.6:
        return ("shuf", ("eps",), e)
    if r < 0.7:
        return ("rep", e, 1, 1)
    if e[0] == "star":
        return ("rep", e[1], None, None) if r < 0.85 else ("opt", ("plus", e[1]))
    if e[0] in ("alt", "and", "shuf"):
        return (e[0], e[2], e[1])
    if e[0] == "plus":
        return ("cat", e[1], ("star", e[1]))
    if e[0] == "opt":
        return ("alt", ("eps",), e[1])
    return ("rep", e, 1, 1)


def to_ast(x):
    return tuple(to_ast(y) if isinstance(y, list) else y for y in x) if isinstance(x, (list, tuple)) else x


def replay(ctx: Ctx, path: str) -> int:
    data = json.load(open(path))
    rp = data.get("replay", data)
    if rp.get("kind") == "cmp":
        # the rendered strings are what failed; re-render deterministically from the ASTs is not
        # needed: compare the real helpers on the recorded strings against the AST oracle
        e1, e2 = to_ast(rp["ast1"]), to_ast(rp["ast2"])
        sig = frozenset(rp["input_symbols"])
        real = (call(lambda: rx.isequal(rp["re1"], rp["re2"], input_symbols=sig)),
                call(lambda: rx.issubset(rp["re1"], rp["re2"], input_symbols=sig)),
                call(lambda: rx.issuperset(rp["re1"], rp["re2"], input_symbols=sig)))
        sub, sup = R.ast_cmp(e1, e2, rp["input_symbols"])
        if real != (("ok", sub and sup), ("ok", sub), ("ok", sup)):
            ctx.prop_fail(f"{rp['re1']!r} vs {rp['re2']!r}: helpers {real}, languages eq={sub and sup} sub={sub} sup={sup}", rp, None)
    else:
        check_tokens(ctx, rp["tokens"], "replay")
    if ctx.prop_fails:
        print(f"VIOLATION property=C11 replay={path}")
        print("  " + ctx.prop_fails[0]["what"])
        return 1
    print("replay: property holds on this input now")
    return 0
