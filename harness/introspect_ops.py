"""Public methods of the automaton classes DISCOVERED by introspection (dir() of the class of the code
under test — inherited methods included), with arguments synthesised from the parameter names, so that a
method that appears on a class tomorrow (a `clear_cache()` moved to a base class, a new query) is exercised
without anybody adding it to the hand-written operation tables of harness/misc_common.py.

Used by ops/C18.py: every discovered method is a history operation of every class that has it.
"""
from __future__ import annotations

import inspect
import itertools
from typing import Any, Callable, Dict, List, Optional, Tuple

from harness import gen_misc as G
from harness import misc_common as M

FA_CLASSES = ("DFA", "NFA", "GNFA")

# required parameters we know how to fill (by name): value from the argument pack / the second operand
REQUIRED = {
    "input_str": lambda a, other: a["w"],
    "other": lambda a, other: other,
    "k": lambda a, other: a["k"],
}
# optional parameters that are filled from the argument pack when the pack says so (a["fill"])
OPTIONAL = {
    "retain_names": lambda a: a["retain"],
    "minify": lambda a: a["minify"],
    "strict": lambda a: a["strict"],
    "seed": lambda a: a["seed"],
    "max_length": lambda a: a["k"] + 3,
    "min_length": lambda a: 0,
    "ignore_rejection": lambda a: a["strict"],
    "trap_state": lambda a: ("trap", 99),
    "reverse": lambda a: a["strict"],
}


# optional parameters that are ALWAYS passed: DFA.successor(s) without max_length need not terminate (a loop on the
# smallest symbol through coaccessible non-final states has no lexicographically-next word: a, aa, aaa, … is
# descended for ever) — misc_common's table bounds them for the same reason
ALWAYS = ("max_length",)


CALL_LIMIT_S = 5.0


class _Limit(BaseException):
    """Raised by the watchdog inside the call (a BaseException: library code that catches Exception lets it through)."""


class NoAnswerWithinTimeLimit(Exception):
    """A generically called method did not return within CALL_LIMIT_S (the inputs are tiny)."""


def limited(fn: Callable, seconds: float = CALL_LIMIT_S) -> Callable:
    """fn with a watchdog (main thread only; an enclosing tighter watchdog stays in charge)."""
    import functools
    import signal
    import threading
    import time

    @functools.wraps(fn)
    def wrapper(*args):
        if threading.current_thread() is not threading.main_thread():
            return fn(*args)
        outer = signal.getitimer(signal.ITIMER_REAL)[0]
        if 0 < outer <= seconds:
            return fn(*args)

        def on_alarm(signum, frame):
            raise _Limit()
        old = signal.signal(signal.SIGALRM, on_alarm)
        signal.setitimer(signal.ITIMER_REAL, seconds)
        t0 = time.time()
        try:
            return fn(*args)
        except _Limit:
            raise NoAnswerWithinTimeLimit(f"no answer within {seconds} s") from None
        finally:
            signal.setitimer(signal.ITIMER_REAL, 0)
            signal.signal(signal.SIGALRM, old)
            if outer:
                signal.setitimer(signal.ITIMER_REAL, max(0.05, outer - (time.time() - t0)))
    return wrapper


def discovered(klass) -> List[Tuple[str, inspect.Signature]]:
    """(name, signature of the bound-less function minus self) of every public instance method of `klass`."""
    out = []
    for n in sorted(dir(klass)):
        if n.startswith("_"):
            continue
        static = inspect.getattr_static(klass, n)
        if isinstance(static, (classmethod, staticmethod, property)):
            continue
        f = getattr(klass, n, None)
        if not callable(f):
            continue  # slots
        try:
            sig = inspect.signature(f)
        except (TypeError, ValueError):
            continue
        out.append((n, sig))
    return out


def plan_call(name: str, sig: inspect.Signature) -> Optional[Dict[str, Any]]:
    """How to call the method: which required parameters (all must be known), which optional ones can be
    filled.  None when a required parameter is unknown (the caller counts it as skipped)."""
    params = [p for p in list(sig.parameters.values())[1:]]  # minus self
    req, opt = [], []
    for p in params:
        if p.kind in (p.VAR_POSITIONAL, p.VAR_KEYWORD):
            continue
        if p.default is p.empty:
            if p.name not in REQUIRED:
                return None
            req.append(p)
        elif p.name in OPTIONAL:
            opt.append(p)
    return dict(required=req, optional=opt, binary=any(p.name == "other" for p in req))


def covered_by_tables(cls: str) -> set:
    """Method names the hand-written tables of misc_common already exercise for `cls`."""
    out = set()
    for n, _ in M.unary_ops(cls) + M.binary_ops(cls):
        for c, meth in M.op_targets(n):
            if c == cls:
                out.add(meth)
    return out


def _consume(r):
    if inspect.isgenerator(r) or hasattr(r, "__next__"):
        return list(itertools.islice(r, 40))
    return r


def make_op(cls: str, name: str, sig: inspect.Signature) -> Optional[Tuple[str, int, Callable]]:
    """(operation name, arity, fn) in the calling convention of misc_common's tables: fn(x, a) / fn(x, y, a).
    `a["fill"]` (optional) lists the optional parameters to pass explicitly."""
    pc = plan_call(name, sig)
    if pc is None:
        return None
    klass = G.get_class(cls)
    is_gen = inspect.isgeneratorfunction(inspect.unwrap(getattr(klass, name)))
    reads = any(p.name == "input_str" for p in pc["required"])

    def call(x, other, a):
        if reads and not is_gen and cls not in FA_CLASSES:
            # read_input / accepts_input of a PDA / TM need not halt: only when the bounded stepwise run ends
            _, _, finished = M.bounded(lambda: x.read_input_stepwise(a["w"]))
            if not finished:
                return "unbounded"
        args, kwargs = [], {}
        for p in pc["required"]:
            v = REQUIRED[p.name](a, other)
            if p.kind == p.KEYWORD_ONLY:
                kwargs[p.name] = v
            else:
                args.append(v)
        for p in pc["optional"]:
            if p.name in ALWAYS or p.name in (a.get("fill") or ()):
                kwargs[p.name] = OPTIONAL[p.name](a)
        return _consume(getattr(x, name)(*args, **kwargs))

    opname = f"{cls}.{name}"
    if pc["binary"]:
        return (opname, 2, limited(lambda x, y, a: call(x, y, a)))
    return (opname, 1, limited(lambda x, a: call(x, None, a)))


def discovered_ops(cls: str, only_new: bool = False):
    """([(opname, arity, fn)], [names that could not be called: a required parameter is unknown])."""
    klass = G.get_class(cls)
    cov = covered_by_tables(cls) if only_new else set()
    ops, skipped = [], []
    for name, sig in discovered(klass):
        if name in cov:
            continue
        op = make_op(cls, name, sig)
        if op is None:
            skipped.append(name)
        else:
            ops.append(op)
    return ops, skipped


def optional_names(cls: str, name: str) -> List[str]:
    klass = G.get_class(cls)
    for n, sig in discovered(klass):
        if n == name:
            pc = plan_call(n, sig)
            return [p.name for p in pc["optional"]] if pc else []
    return []
