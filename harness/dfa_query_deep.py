"""C13, round 5 — DEEP DFAs: automata whose useful part contains a simple path of 1000–5000 states, described
by a small JSON-able *spec* from which (a) the real DFA is built through the library's own constructors and
(b) the language is known in CLOSED FORM, so every C13 query has an answer that needs neither the library nor
the Lean model (the model's drivers would need minutes on these sizes; nothing is sent to them).

spec kinds
    of_length        syms, lo, hi (None = no upper bound: a chain that ends in a self-loop cycle)
                     DFA.of_length(set(syms), min_length=lo, max_length=hi) — every word over syms with lo ≤ |w| ≤ hi
    finite_language  syms, words = [[unit, reps, tail], …]   (word = unit*reps + tail)
                     DFA.from_finite_language(set(syms), {…}) — exactly those words
    chain            syms, n, pat, finals, back, branch — hand-written PARTIAL DFA:
                     spine 0 → 1 → … → n, the edge out of spine state p is labelled pat[p % len(pat)];
                     finals ⊆ {0..n} (spine positions); back = t: an extra edge n → t (a cycle of n-t+1 states at
                     the end of the chain); branch = [j, s, L]: a side branch of L edges labelled s (s differs
                     from the spine label at j) leaving spine state j, whose last state is final.

Closed forms (class DeepLang): min / max / finite / empty / cardinality, count(k), words(k), the first n words in
(length, code point) order, and membership of a given word.  `selfcheck` compares the membership predicate with the
real `accepts_input` on the boundary words of the language (so the closed form is tied to the automaton that was
actually built, not only to the constructor's documentation).
"""
from __future__ import annotations

import itertools
from typing import List, Optional

from automata.fa.dfa import DFA

WORDS_LIMIT = 4096      # words(k) is only materialised up to this many words


class DeepLang:
    def __init__(self, spec: dict):
        self.spec = spec
        self.kind = spec["kind"]
        self.syms = sorted(spec["syms"])
        if self.kind == "finite_language":
            self.wordset = sorted({u * r + t for u, r, t in spec["words"]}, key=lambda w: (len(w), w))
        elif self.kind == "chain":
            self._init_chain()
        elif self.kind != "of_length":
            raise ValueError(f"unknown deep spec kind {self.kind}")

    # ------------------------------------------------------------------ building the real object
    def build(self) -> DFA:
        s = self.spec
        if self.kind == "of_length":
            return DFA.of_length(set(s["syms"]), min_length=s["lo"], max_length=s["hi"])
        if self.kind == "finite_language":
            return DFA.from_finite_language(set(s["syms"]), {u * r + t for u, r, t in s["words"]})
        n = s["n"]
        trans = {p: {self._label(p): p + 1} for p in range(n)}
        trans[n] = {self._label(n): s["back"]} if s["back"] is not None else {}
        finals = set(s["finals"])
        states = set(range(n + 1))
        if s["branch"] is not None:
            j, sym, L = s["branch"]
            prev = j
            for i in range(L):
                q = n + 1 + i
                states.add(q)
                trans[prev] = dict(trans[prev], **{sym: q})
                trans[q] = {}
                prev = q
            finals.add(prev)
        return DFA(states=states, input_symbols=set(s["syms"]), transitions=trans, initial_state=0,
                   final_states=finals, allow_partial=True)

    def expr(self) -> str:
        """Human-readable description (for replays/evidence; replays rebuild from the spec)."""
        s = self.spec
        al = "{" + ",".join(repr(a) for a in self.syms) + "}"
        if self.kind == "of_length":
            return f"DFA.of_length({al}, min_length={s['lo']}, max_length={s['hi']})"
        if self.kind == "finite_language":
            ws = ", ".join((f"{u!r}*{r}" + (f"+{t!r}" if t else "")) if r != 1 else repr(u + t) for u, r, t in s["words"])
            return f"DFA.from_finite_language({al}, {{{ws}}})"
        extra = ""
        if s["back"] is not None:
            extra += f", extra edge {s['n']} -> {s['back']} (cycle of {s['n'] - s['back'] + 1} states)"
        if s["branch"] is not None:
            j, sym, L = s["branch"]
            extra += f", side branch of {L} {sym!r}-edges from state {j} ending in a final state"
        return (f"partial DFA over {al}: chain 0 -> 1 -> ... -> {s['n']} (edge out of p labelled {s['pat']!r}[p % {len(s['pat'])}]), "
                f"final spine states {s['finals']}{extra}")

    def n_states_expected(self) -> int:
        s = self.spec
        if self.kind == "chain":
            return s["n"] + 1 + (s["branch"][2] if s["branch"] is not None else 0)
        if self.kind == "of_length":
            return (s["hi"] if s["hi"] is not None else s["lo"]) + 1
        return 1 + max(len(w) for w in self.wordset)

    # ------------------------------------------------------------------ chain: positions, spine words
    def _init_chain(self):
        s = self.spec
        self.n, self.t = s["n"], s["back"]
        self.c = (self.n - self.t + 1) if self.t is not None else None
        self.fin = set(s["finals"])
        self.br = tuple(s["branch"]) if s["branch"] is not None else None
        L = self.br[2] if self.br else 0
        # word lengths of the language within one period beyond everything acyclic
        top = self.n + L + (self.c or 0) + 1
        self._lens = [k for k in range(top + 1) if self._chain_count(k)]
        self._infinite = self.c is not None and any(k > self.n + L for k in self._lens)

    def _label(self, p: int) -> str:
        pat = self.spec["pat"]
        return pat[p % len(pat)]

    def _pos(self, i: int) -> Optional[int]:
        """Spine state after i symbols along the spine (None: the walk has fallen off the chain)."""
        if i <= self.n:
            return i
        if self.t is None:
            return None
        return self.t + (i - self.t) % self.c

    def _spine(self, length: int) -> str:
        return "".join(self._label(self._pos(i)) for i in range(length))

    def _chain_words(self, k: int) -> List[str]:
        out = []
        p = self._pos(k)
        if p is not None and p in self.fin:
            out.append(self._spine(k))
        if self.br is not None:
            j, sym, L = self.br
            if k >= L and self._pos(k - L) == j:
                out.append(self._spine(k - L) + sym * L)
        return sorted(out)

    def _chain_count(self, k: int) -> int:
        c = 0
        p = self._pos(k)
        if p is not None and p in self.fin:
            c += 1
        if self.br is not None and k >= self.br[2] and self._pos(k - self.br[2]) == self.br[0]:
            c += 1
        return c

    # ------------------------------------------------------------------ closed forms
    def empty(self) -> bool:
        if self.kind == "of_length":
            return False
        if self.kind == "finite_language":
            return not self.wordset
        return not self._lens

    def finite(self) -> bool:
        if self.kind == "of_length":
            return self.spec["hi"] is not None
        if self.kind == "finite_language":
            return True
        return not self._infinite

    def min(self) -> Optional[int]:
        if self.empty():
            return None
        if self.kind == "of_length":
            return self.spec["lo"]
        if self.kind == "finite_language":
            return len(self.wordset[0])
        return self._lens[0]

    def max(self) -> Optional[int]:
        """Longest word length of a finite non-empty language (None otherwise)."""
        if self.empty() or not self.finite():
            return None
        if self.kind == "of_length":
            return self.spec["hi"]
        if self.kind == "finite_language":
            return len(self.wordset[-1])
        return self._lens[-1]

    def count(self, k: int) -> int:
        if self.kind == "of_length":
            lo, hi = self.spec["lo"], self.spec["hi"]
            return len(self.syms) ** k if lo <= k and (hi is None or k <= hi) else 0
        if self.kind == "finite_language":
            return sum(1 for w in self.wordset if len(w) == k)
        return self._chain_count(k)

    def card(self) -> Optional[int]:
        if not self.finite():
            return None
        if self.empty():
            return 0
        return sum(self.count(k) for k in range(self.min(), self.max() + 1))

    def words(self, k: int) -> Optional[List[str]]:
        """The sorted list of the accepted words of length k (None when there are too many to write down)."""
        if self.count(k) > WORDS_LIMIT:
            return None
        if self.kind == "of_length":
            return ["".join(p) for p in itertools.product(self.syms, repeat=k)] if self.count(k) else []
        if self.kind == "finite_language":
            return [w for w in self.wordset if len(w) == k]
        return self._chain_words(k)

    def first(self, n_words: int) -> List[str]:
        """The first n_words words in (length, code point) order — all of them when the language has fewer."""
        out: List[str] = []
        if n_words <= 0 or self.empty():
            return out
        if self.kind == "finite_language":
            return self.wordset[:n_words]
        if self.kind == "of_length":
            k, hi = self.spec["lo"], self.spec["hi"]
            while len(out) < n_words and (hi is None or k <= hi):
                for p in itertools.product(self.syms, repeat=k):
                    out.append("".join(p))
                    if len(out) == n_words:
                        break
                k += 1
            return out
        k = self._lens[0]
        last = self._lens[-1]
        while len(out) < n_words and (self._infinite or k <= last):
            out.extend(self._chain_words(k))
            k += 1
        return out[:n_words]

    def member(self, w: str) -> bool:
        if self.kind == "of_length":
            lo, hi = self.spec["lo"], self.spec["hi"]
            return all(a in self.syms for a in w) and lo <= len(w) and (hi is None or len(w) <= hi)
        if self.kind == "finite_language":
            return w in self.wordset
        return w in self._chain_words(len(w))

    def shape_name(self) -> str:
        return "empty" if self.empty() else ("finite" if self.finite() else "infinite")

    # ------------------------------------------------------------------ tie the closed form to the object built
    def probe_words(self, rng) -> List[str]:
        """Boundary words: the first words, the words of the extreme lengths, and near misses of them (one symbol
        changed, one symbol more / fewer)."""
        ws = list(self.first(3))
        for k in {self.min(), self.max()} - {None}:
            at_k = self.words(k)
            if at_k is None:        # too many to write down (of_length over ≥ 2 symbols): two of them
                at_k = [self.syms[0] * k, "".join(rng.choice(self.syms) for _ in range(k))]
            ws.extend(at_k[:2])
        if not self.finite():
            ws.extend(self.first(5)[3:])
        near = []
        for w in ws:
            near.append(w + self.syms[0])
            near.append(w + self.syms[-1])
            if w:
                near.append(w[:-1])
                i = rng.randrange(len(w))
                other = [a for a in self.syms if a != w[i]]
                if other:
                    near.append(w[:i] + rng.choice(other) + w[i + 1:])
        for k in (0, 1, 2):
            near.append("".join(rng.choice(self.syms) for _ in range(k)))
        seen, out = set(), []
        for w in ws + near:
            if w not in seen:
                seen.add(w)
                out.append(w)
        return out


def expected(lang: DeepLang, step: dict):
    """What the language dictates for a session-style step: ("exact", observation) or ("random", k) —
    an accepted word of length k / ValueError when there is none."""
    q = step["q"]
    if q in ("min", "max"):
        if lang.empty():
            return "exact", ("err", "EmptyLanguageException")
        return "exact", ("ok", lang.min() if q == "min" else lang.max())
    if q == "empty":
        return "exact", ("ok", lang.empty())
    if q == "finite":
        return "exact", ("ok", lang.finite())
    if q in ("card", "len"):
        c = lang.card()
        return "exact", (("ok", c) if c is not None else ("err", "InfiniteLanguageException"))
    if q == "count":
        return "exact", ("ok", lang.count(step["k"]))
    if q == "words":
        return "exact", ("ok", lang.words(step["k"]))
    if q == "iter":
        return "exact", ("ok", lang.first(step["n"]))
    if q == "random":
        return "random", step["k"]
    raise ValueError(f"deep family: unknown query {q}")


def short(x, limit: int = 90) -> str:
    """Answers may be words of thousands of symbols: show them abbreviated."""
    def one(v):
        if isinstance(v, str) and len(v) > 40:
            return f"<word of {len(v)} symbols {v[:8]!r}…{v[-4:]!r}>"
        if isinstance(v, int) and not isinstance(v, bool) and v.bit_length() > 80:
            return f"<{v.bit_length()}-bit integer>"
        if isinstance(v, (list, tuple)):
            body = ", ".join(one(e) for e in v[:6]) + (", …" if len(v) > 6 else "")
            return ("[" + body + "]") if isinstance(v, list) else ("(" + body + ")")
        return repr(v)
    s = one(x)
    return s if len(s) <= 4 * limit else s[: 4 * limit] + "…"


def judge(lang: DeepLang, step: dict, got) -> Optional[str]:
    """None, or what is wrong with the observation."""
    mode, exp = expected(lang, step)
    if mode == "exact":
        if got == exp:
            return None
        return f"= {short(got)}, the language dictates {short(exp)}"
    k = exp
    n = lang.count(k)
    if n == 0:
        return None if got == ("err", "ValueError") else \
            f"= {short(got)} although no word of length {k} is accepted (ValueError expected)"
    if got[0] != "ok":
        return f"raised {got[1]} although {short(n)} words of length {k} exist"
    w = got[1]
    if not isinstance(w, str) or len(w) != k or not lang.member(w):
        return f"= {short(w)} is not an accepted word of length {k}"
    return None
