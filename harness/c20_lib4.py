"""Round-4 helpers of the C20 check.

* `build_live_nfa(ref, mode)`: the NFA analogue of `dfa_query_lib3.build_live` — the object a history of queries is
  asked of, built (inside `mutable_option(mode)`) from a DEEP COPY of the constructor arguments of the frozen twin
  `ref`.  Modes as for DFAs: frozen / plain (plain `set` / `dict` everywhere: the library then keeps the caller's
  containers, so a library function that uses a transition target set as its own accumulator changes the automaton) /
  aliased (plain, and containers a caller may legitimately share ARE shared: one set object for all equal target
  sets, one dict object for rows with the same content, one set for states and final_states when all states are
  final) / copy_of_plain (plain, then `.copy()` under the option).  A FRESH copy is `build_live_nfa(ref, mode)` again:
  built from a new deep copy of the original arguments, sharing nothing with the long-lived object.

* `lambda_cycle_nfa(rng)`: NFAs whose lambda graph has a cycle of length 3–5 (optionally chords, a second cycle through
  one member, lambda tails into / out of the cycle), ENTERED AT DIFFERENT MEMBERS BY DIFFERENT FIRST SYMBOLS, whose
  members differ in what they do next (own exit symbol to a final state, own finality).  Together with histories of
  several reads in a row (`cycle_words`) a closure table that is filled lazily / per entry point / per strongly
  connected component shows as a concrete answer that differs from a fresh object.

* `equivalent_partner(rng, d)` / `related_partner(rng, d)`: the second (third) LIVE operand of a multi-object history —
  a DFA whose relation to `d` makes the binary comparisons non-trivial (equal language through a different state
  graph, sub- / superset, disjoint, unrelated).
"""
from __future__ import annotations

from typing import Any, List

from automata.fa.dfa import DFA
from automata.fa.nfa import NFA

from harness import gen
from harness.dfa_query_lib3 import LIVE_MODES, MUTABLE_MODES, mutable_option  # noqa: F401  (re-exported)


# ------------------------------------------------------------------ live NFAs
def build_live_nfa(ref: NFA, mode: str, keep: List[Any] = None) -> NFA:
    if mode == "frozen":
        return ref.copy()
    states = set(ref.states)
    finals = set(ref.final_states)
    rows = {k: {a: set(ts) for a, ts in row.items()} for k, row in ref.transitions.items()}
    if mode == "aliased":
        if finals == states:
            finals = states
        seen_sets: List[set] = []
        for row in rows.values():
            for a, ts in row.items():
                for other in seen_sets:
                    if other == ts:
                        row[a] = other
                        break
                else:
                    seen_sets.append(ts)
        seen_rows: List[dict] = []
        for k, row in rows.items():
            for other in seen_rows:
                if other == row and list(other) == list(row):
                    rows[k] = other
                    break
            else:
                seen_rows.append(row)
    n = NFA(states=states, input_symbols=set(ref.input_symbols), transitions=rows, initial_state=ref.initial_state,
            final_states=finals)
    if mode == "copy_of_plain":
        if keep is not None:
            keep.append(n)
        n = n.copy()
    return n


def nfa_definition_of(n: NFA):
    return (set(n.states), set(n.input_symbols), {k: {a: set(ts) for a, ts in row.items()} for k, row in n.transitions.items()},
            n.initial_state, set(n.final_states))


# ------------------------------------------------------------------ lambda cycles
ENTRY = "uvwxy"


def lambda_cycle_nfa(rng, length: int = None, decorate: bool = True) -> NFA:
    """S --entry_i--> C_i (a subset of the members, ≥ 2), C_0 -λ-> C_1 -λ-> … -λ-> C_0, members differ by their exits."""
    L = length or rng.choice([3, 3, 4, 5])
    cyc = [f"c{i}" for i in range(L)]
    entries = sorted(rng.sample(range(L), rng.randint(2, L))) if decorate else list(range(L))
    exits = ["a", "b"] if L <= 3 or rng.random() < 0.5 else ["a"]
    sy = {ENTRY[i] for i in entries} | set(exits)
    tr = {"S": {ENTRY[i]: {cyc[i]} for i in entries}, "F": {}}
    finals = {"F"}
    for i, c in enumerate(cyc):
        tr[c] = {"": {cyc[(i + 1) % L]}}
    # what distinguishes the members: an own exit symbol, own finality, a step back into the cycle
    marked = rng.sample(range(L), rng.randint(1, 2))
    for j, i in enumerate(marked):
        tr[cyc[i]][exits[j % len(exits)]] = {"F"}
    if decorate:
        if rng.random() < 0.25:
            finals.add(cyc[rng.randrange(L)])
        if rng.random() < 0.4:      # a chord (second, shorter cycle through some members)
            i, j = rng.sample(range(L), 2)
            tr[cyc[i]][""] = tr[cyc[i]][""] | {cyc[j]}
        if rng.random() < 0.3:      # a lambda tail out of the cycle with its own exit
            tr["t"] = {exits[-1]: {"F"}}
            i = rng.randrange(L)
            tr[cyc[i]][""] = tr[cyc[i]][""] | {"t"}
        if rng.random() < 0.3:      # a lambda tail into the cycle, entered by its own symbol
            tr["h"] = {"": {cyc[rng.randrange(L)]}}
            tr["S"]["z"] = {"h"}
            sy.add("z")
        if rng.random() < 0.3:      # a second cycle through one member
            i = rng.randrange(L)
            tr["d0"] = {"": {"d1"}}
            tr["d1"] = {"": {cyc[i]}, exits[0]: {"F"}}
            tr[cyc[i]][""] = tr[cyc[i]][""] | {"d0"}
        if rng.random() < 0.3:      # an exit that leads back to an entry point instead of F
            i, j = rng.sample(range(L), 2)
            tr[cyc[i]].setdefault(exits[-1], set())
            tr[cyc[i]][exits[-1]] = tr[cyc[i]][exits[-1]] | {cyc[j]}
        if rng.random() < 0.2:      # the initial state itself lies on the cycle
            tr["S"][""] = {cyc[rng.randrange(L)]}
    if decorate and rng.random() < 0.5:
        # dict insertion order of the rows / the states is one of the things a lazily filled table depends on
        items = list(tr.items())
        rng.shuffle(items)
        tr = dict(items)
    return NFA(states=set(tr), input_symbols=sy, transitions=tr, initial_state="S", final_states=finals)


def cycle_words(n: NFA) -> List[str]:
    """entry symbol + every continuation of length ≤ 1 (and the bare exits): each word enters the cycle at one member."""
    sy = sorted(n.input_symbols)
    first = sorted(a for a in n.transitions[n.initial_state] if a)
    rest = [""] + sy
    return [f + r for f in first for r in rest]


# ------------------------------------------------------------------ partners (second / third live operand)
def _relabel(rng, d: DFA) -> DFA:
    """Same graph, other names, plus an unreachable state."""
    names = {q: ("r", i) for i, q in enumerate(sorted(d.states, key=repr))}
    tr = {names[q]: {a: names[t] for a, t in row.items()} for q, row in d.transitions.items()}
    extra = ("r", len(names))
    tr[extra] = {a: rng.choice(list(names.values())) for a in d.input_symbols} if not d.allow_partial else {}
    return DFA(states=set(tr), input_symbols=set(d.input_symbols), transitions=tr, initial_state=names[d.initial_state],
               final_states={names[q] for q in d.final_states}, allow_partial=d.allow_partial)


def equivalent_partner(rng, d: DFA):
    r = rng.random()
    if r < 0.35:
        return d.copy(), "copy"
    if r < 0.5:
        return d.minify(), "minified"
    if r < 0.6:
        return d.to_partial(), "partial_minified"
    if r < 0.7:
        return d.to_complete() if d.allow_partial else d.to_partial(minify=False), "completed_or_trimmed"
    if r < 0.85:
        return _relabel(rng, d), "relabelled+unreachable"
    return d.union(d, minify=False), "self_product"


def related_partner(rng, d: DFA):
    r = rng.random()
    if r < 0.55:
        return equivalent_partner(rng, d)
    sy = sorted(d.input_symbols)
    e = gen.rand_dfa(rng, 4, alphabet=sy)
    if r < 0.65:
        return d.intersection(e, minify=rng.random() < 0.5), "subset"
    if r < 0.75:
        return d.union(e, minify=rng.random() < 0.5), "superset"
    if r < 0.85:
        return d.complement(minify=rng.random() < 0.5), "complement"
    return e, "unrelated"
