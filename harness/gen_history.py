"""C19 — PROCESS-HISTORY family: generators and the fresh-interpreter runner.

The property quantifies over *definitions*: the verdict of the constructor / validate() on a definition
(accepted, or the documented exception class) is a function of that definition alone.  Every other family
of ops/C19.py evaluates one definition at a time, so a verdict that depends on what was constructed or
validated EARLIER in the same process (a memo / cache / registry keyed by less than the whole definition:
a label text without its alphabet, a row without its state set, a symbol without its class) is invisible.

This module builds SCENARIOS: a list of steps, each = (class, way of constructing / validating, definition,
expected verdict), to be executed in order in one process:

  * `enlarge(cls, k1)`      — from a single-rule corruption k1 of a valid definition: the RELATED VALID
                              definition with the same rows / labels / symbols over a LARGER universe (every
                              symbol, state, stack symbol, tape symbol the rows mention is added to the
                              alphabet / state set / stack alphabet / tape alphabet; optionally one more fresh
                              symbol and state).  Kept only when the independent reference predicate calls it
                              valid (`valid_by_docs`).
  * `shrink_corruptions`    — the converse operators: a valid definition with one USED symbol / stack symbol /
                              tape symbol / state removed from its universe set, rows untouched (closed-form
                              documented class); the valid definition itself is the warm-up.
  * `gnfa_label_corruptions`— multi-character GNFA labels (the label templates of gen_misc.LABELS) whose only
                              defect is one symbol outside the alphabet.
  * `more_tapes`            — a valid MNTM re-written over one more tape.
  * `run_step` / `run_steps`— execute steps on the real library; `fresh_verdicts` does the same in a NEW
                              interpreter (python -m harness.gen_history < steps.json), which is what "the verdict
                              the definition gets in a fresh process" means.

Expected verdicts never come from the library: "ok" = valid by the documentation (gen_misc.accepted_by_docs +
the closed-form label test below), an exception class = the operator table (gen_misc.corruptions) or the closed
forms of `shrink_corruptions`.
"""
from __future__ import annotations

import json
import os
import subprocess
import sys
from typing import Any, Dict, Iterator, List, Optional, Tuple

from harness import gen_misc as G

LABEL_OPS = set("*|()?")
WAYS_VALID = ("ctor", "validate", "ctor_mutable", "copy")
WAYS_ANY = ("ctor", "validate", "ctor_mutable")


# ------------------------------------------------------------------ GNFA labels: closed-form reference
def label_symbols(lab: str) -> set:
    return {c for c in lab if c not in LABEL_OPS}


def label_syntax_ok(lab: str) -> bool:
    """A CONSERVATIVE recogniser (recursive descent) of label syntax: alternatives of non-empty
    concatenations of atoms (a symbol, a parenthesised alternative, the empty group `()`), each followed by
    at most one of `*` / `?`.  Everything it accepts is a well-formed regular expression of the library's
    documented syntax; what it does not recognise is 'unknown' (no expectation is formed)."""
    pos = 0
    n = len(lab)

    def alt() -> bool:
        nonlocal pos
        if not concat():
            return False
        while pos < n and lab[pos] == "|":
            pos += 1
            if not concat():
                return False
        return True

    def concat() -> bool:
        nonlocal pos
        k = 0
        while pos < n and lab[pos] not in "|)":
            if not atom():
                return False
            k += 1
        return k > 0

    def atom() -> bool:
        nonlocal pos
        c = lab[pos]
        if c == "(":
            pos += 1
            if pos < n and lab[pos] == ")":
                pos += 1  # the empty group
            else:
                if not alt() or pos >= n or lab[pos] != ")":
                    return False
                pos += 1
        elif c in LABEL_OPS:
            return False
        else:
            pos += 1
        if pos < n and lab[pos] in "*?":
            pos += 1
        return True

    if lab == "":
        return True
    return alt() and pos == n


def gnfa_labels_status(kw) -> str:
    """"ok" (every label well-formed over the alphabet), "bad" (a label recognised as well-formed syntax
    mentions a symbol outside the alphabet — InvalidRegexError is documented), "unknown"."""
    sy = set(kw["input_symbols"])
    out = "ok"
    for row in kw["transitions"].values():
        for lab in row.values():
            if lab is None or lab == "":
                continue
            if not isinstance(lab, str) or not label_syntax_ok(lab):
                return "unknown"
            if not label_symbols(lab) <= sy:
                out = "bad"
    return out


def valid_by_docs(cls: str, kw) -> bool:
    """Valid by the documentation — the reference predicate of gen_misc plus the label test, restricted to
    the clear part of the domain (no None among names, single-character non-operator symbols)."""
    try:
        if None in kw["states"] or any(not isinstance(a, str) or len(a) != 1 for a in kw["input_symbols"]):
            return False
        for key in ("stack_symbols", "tape_symbols"):
            if key in kw and any(not isinstance(a, str) or len(a) != 1 for a in kw[key]):
                return False
        if cls == "GNFA":
            if set(kw["input_symbols"]) & LABEL_OPS:
                return False
            return G.accepted_by_docs(cls, kw) and gnfa_labels_status(kw) == "ok"
        return bool(G.accepted_by_docs(cls, kw))
    except Exception:  # noqa: BLE001 - a shape the reference predicate cannot read is not called valid
        return False


# ------------------------------------------------------------------ related valid definitions
def fresh_symbol(kw, avoid=()) -> str:
    pool = set(kw.get("input_symbols", ())) | set(kw.get("tape_symbols", ())) | set(kw.get("stack_symbols", ()))
    pool |= set(avoid)
    for c in "cdeghQ@%":
        if c not in pool:
            return c
    return "☃"


def fresh_state(kw):
    for c in (("#extra", 1), ("#extra", 2)):
        if c not in kw["states"]:
            return c


def enlarge(cls: str, k1, extra: bool = False) -> Optional[Dict[str, Any]]:
    """The definition k1 over a universe large enough for everything its rows mention (None when that is
    not a definition of the clear domain, e.g. None used as a name)."""
    try:
        k = G._dc(k1)
        T = k["transitions"]
        st = set(k["states"])
        sy = set(k["input_symbols"])
        used_states = {k["initial_state"]}
        if cls == "GNFA":
            used_states.add(k["final_state"])
        else:
            used_states |= set(k["final_states"])
        used_syms = set()
        if cls == "DFA":
            for row in T.values():
                used_syms |= set(row)
                used_states |= set(row.values())
        elif cls == "NFA":
            for row in T.values():
                for a, ts in row.items():
                    if a != "":
                        used_syms.add(a)
                    used_states |= set(ts)
        elif cls == "GNFA":
            for row in T.values():
                used_states |= set(row)
                for lab in row.values():
                    if lab:
                        used_syms |= label_symbols(lab)
        elif cls in ("DPDA", "NPDA"):
            gs = set(k["stack_symbols"]) | {k["initial_stack_symbol"]}
            for row in T.values():
                for a, m in row.items():
                    if a != "":
                        used_syms.add(a)
                    gs |= set(m)
            if extra:
                gs.add(fresh_symbol(k, gs | used_syms))
            k["stack_symbols"] = gs
        else:
            tp = set(k["tape_symbols"]) | {k["blank_symbol"]} | sy
            used_states |= set(T)
            lens = set()
            for row in T.values():
                for key, val in row.items():
                    if cls == "MNTM":
                        tp |= set(key)
                        lens.add(len(key))
                        for (t, moves) in val:
                            used_states.add(t)
                            lens.add(len(moves))
                            for (w, _d) in moves:
                                tp.add(w)
                    else:
                        tp.add(key)
                        for (t, w, _d) in ([val] if cls == "DTM" else val):
                            used_states.add(t)
                            tp.add(w)
            if extra or not (sy < tp):
                tp.add(fresh_symbol(k, tp))
            k["tape_symbols"] = tp
            if cls == "MNTM" and len(lens) == 1:
                k["n_tapes"] = lens.pop()
        if extra and cls not in ("DTM", "NTM", "MNTM"):
            used_syms.add(fresh_symbol(k, sy | used_syms | set(k.get("stack_symbols", ()))))
        if any(not isinstance(a, str) or len(a) != 1 for a in used_syms) or None in used_states:
            return None
        sy |= used_syms
        k["input_symbols"] = sy
        if extra:
            used_states.add(fresh_state(k))
        new = [q for q in used_states if q not in st]
        st |= set(new)
        k["states"] = st
        if cls == "DFA":
            some = k["initial_state"]
            for q in new:
                if q not in T:
                    T[q] = {}
            if not k.get("allow_partial", False):
                for row in T.values():
                    for a in sorted(sy):
                        row.setdefault(a, some)
        elif cls == "GNFA":
            init, fin = k["initial_state"], k["final_state"]
            for q in st:
                if q == fin:
                    continue
                row = T.setdefault(q, {})
                for t in st:
                    if t != init:
                        row.setdefault(t, None)
        elif cls in ("DTM", "NTM", "MNTM"):
            if k["initial_state"] not in T:
                T[k["initial_state"]] = {}
        elif cls == "NFA":
            if k["initial_state"] not in T:
                T[k["initial_state"]] = {}
        return k
    except Exception:  # noqa: BLE001 - malformed results that cannot be read as rows
        return None


def more_tapes(kw) -> Dict[str, Any]:
    """A valid MNTM re-written over one more tape (the new tape is never moved: reads blank, writes blank)."""
    k = G._dc(kw)
    b = k["blank_symbol"]
    T = {}
    for q, row in k["transitions"].items():
        nr = {}
        for key, val in row.items():
            res = [(t, tuple(tuple(m) for m in moves) + ((b, "N"),)) for (t, moves) in val]
            nr[tuple(key) + (b,)] = res
        T[q] = nr
    k["transitions"] = T
    k["n_tapes"] = k["n_tapes"] + 1
    return k


# ------------------------------------------------------------------ further single-rule corruptions
def shrink_corruptions(cls: str, kw) -> Iterator[Tuple[str, str, Dict[str, Any]]]:
    """(rule, documented class, corrupted definition): ONE element the rows use is removed from its universe
    set; the rows are untouched.  Closed forms (class docstrings / validate() docstrings):
      input symbol used as a transition symbol (DFA, NFA, DPDA, NPDA)          -> InvalidSymbolError
      input symbol occurring in a GNFA label                                   -> InvalidRegexError
      stack symbol used as a stack key or as the initial stack symbol          -> InvalidSymbolError
      tape symbol (no input symbol, not the blank) read or written by a row,
        the input alphabet staying a proper subset                             -> InvalidSymbolError
      state (not initial, not final) that is the end state of a transition of another state
        (DFA, NFA; its own row stays behind as a row keyed by a non-state)     -> InvalidStateError
      state (not initial, not final) with a row or as an end state (DTM, NTM)  -> InvalidStateError"""
    T = kw["transitions"]

    def without(key, x):
        k = G._dc(kw)
        k[key] = set(k[key]) - {x}
        return k

    if cls in ("DFA", "NFA", "DPDA", "NPDA"):
        used = set()
        for row in T.values():
            used |= {a for a in row if a != ""}
        for a in sorted(used & set(kw["input_symbols"])):
            yield ("shrunk_input_alphabet", "InvalidSymbolError", without("input_symbols", a))
    if cls == "GNFA":
        used = set()
        for row in T.values():
            for lab in row.values():
                if lab:
                    used |= label_symbols(lab)
        for a in sorted(used & set(kw["input_symbols"])):
            yield ("shrunk_input_alphabet", "InvalidRegexError", without("input_symbols", a))
    if cls in ("DPDA", "NPDA"):
        used = {kw["initial_stack_symbol"]}
        for row in T.values():
            for m in row.values():
                used |= set(m)
        for g in sorted(used & set(kw["stack_symbols"])):
            yield ("shrunk_stack_alphabet", "InvalidSymbolError", without("stack_symbols", g))
    if cls in ("DTM", "NTM", "MNTM"):
        used = set()
        for row in T.values():
            for key, val in row.items():
                if cls == "MNTM":
                    used |= set(key)
                    for (_t, moves) in val:
                        used |= {w for (w, _d) in moves}
                else:
                    used.add(key)
                    used |= {w for (_t, w, _d) in ([val] if cls == "DTM" else val)}
        cand = used - set(kw["input_symbols"]) - {kw["blank_symbol"]}
        if len(kw["tape_symbols"]) - 1 > len(kw["input_symbols"]):
            for s in sorted(cand):
                yield ("shrunk_tape_alphabet", "InvalidSymbolError", without("tape_symbols", s))
    if cls in ("DFA", "NFA", "DTM", "NTM"):
        keep = {kw["initial_state"]} | set(kw["final_states"])
        targeted = set()
        for q, row in T.items():
            for val in row.values():
                if cls == "DFA":
                    ts = {val}
                elif cls == "NFA":
                    ts = set(val)
                elif cls == "DTM":
                    ts = {val[0]}
                else:
                    ts = {r[0] for r in val}
                targeted |= {(q, t) for t in ts}
        for q in kw["states"]:
            if q in keep:
                continue
            if cls in ("DFA", "NFA"):
                hit = any(t == q and p != q and p in kw["states"] for (p, t) in targeted)
            else:
                hit = q in T or any(t == q for (_p, t) in targeted)
            if hit:
                yield ("shrunk_state_set", "InvalidStateError", without("states", q))


def gnfa_label_corruptions(rng, kw) -> Iterator[Tuple[str, str, Dict[str, Any]]]:
    """Multi-character labels (templates of gen_misc.LABELS) at one entry of a valid GNFA whose ONLY defect
    is a symbol outside the alphabet: documented InvalidRegexError."""
    sy = sorted(kw["input_symbols"])
    fs = G.foreign_symbol(kw)
    entries = [(q, t) for q, row in kw["transitions"].items() if q != kw["final_state"] for t in row]
    if not entries:
        return
    for tpl in G.LABELS:
        for (a, b) in ((rng.choice(sy), fs), (fs, rng.choice(sy)), (fs, fs)):
            lab = tpl.format(a=a, b=b)
            if fs not in lab or len(lab) < 2:
                continue
            q, t = rng.choice(entries)
            k = G._dc(kw)
            k["transitions"][q][t] = lab
            yield ("malformed_label", "InvalidRegexError", k)


# ------------------------------------------------------------------ executing steps on the real library
def _env():
    return {"frozenset": frozenset, "set": set}


def make_step(cls: str, how: str, kw, expect: str, role: str, rule: Optional[str] = None) -> Dict[str, Any]:
    return dict(cls=cls, how=how, kwargs=repr(kw), expect=expect, role=role, rule=rule)


def run_step(step) -> str:
    """"ok" or the name of the exception class — through real library calls only."""
    import automata.base.config as config
    cls, how = step["cls"], step["how"]
    kw = eval(step["kwargs"], _env())
    old = (config.should_validate_automata, config.allow_mutable_automata)
    try:
        C = G.get_class(cls)
        if how == "ctor":
            config.should_validate_automata, config.allow_mutable_automata = True, False
            C(**kw)
        elif how == "ctor_mutable":
            config.should_validate_automata, config.allow_mutable_automata = True, True
            C(**kw)
        elif how == "validate":
            # built with automatic validation off, then validate() called by hand (a GNFA validates anyway)
            config.should_validate_automata, config.allow_mutable_automata = False, False
            obj = C(**kw)
            config.should_validate_automata = True
            obj.validate()
        elif how == "copy":
            config.should_validate_automata, config.allow_mutable_automata = True, False
            obj = C(**kw)
            obj.copy().validate()
        elif how in ("GNFA.from_dfa", "GNFA.from_nfa"):
            config.should_validate_automata, config.allow_mutable_automata = True, False
            src = C(**kw)
            g = getattr(G.get_class("GNFA"), how.split(".")[1])(src)
            g.validate()
        else:
            raise ValueError(f"unknown way {how!r}")
        return "ok"
    except RecursionError:
        raise
    except Exception as e:  # noqa: BLE001
        return type(e).__name__
    finally:
        config.should_validate_automata, config.allow_mutable_automata = old


def run_steps(steps) -> List[str]:
    return [run_step(s) for s in steps]


def fresh_verdicts(steps, timeout: int = 120) -> Optional[List[str]]:
    """The verdicts of the steps executed in order in a NEW interpreter (same code under test: the
    environment, PYTHONPATH included, is inherited)."""
    try:
        p = subprocess.run([sys.executable, "-m", "harness.gen_history"], input=json.dumps(dict(steps=steps)),
                           capture_output=True, text=True, timeout=timeout, env=dict(os.environ))
        if p.returncode != 0:
            return None
        return json.loads(p.stdout.strip().splitlines()[-1])
    except Exception:  # noqa: BLE001
        return None


if __name__ == "__main__":
    print(json.dumps(run_steps(json.load(sys.stdin)["steps"])))
