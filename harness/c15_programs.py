"""C15 — programs of 2–4 constructor calls that SHARE ARGUMENT OBJECTS (generator + pure semantics).

The property quantifies over the inputs of every constructor call: "for all alphabets, all pattern
sets, all numeric parameters …".  An input is the Python object the caller passes, and that object
has a history: the same mutable `set` may already have been passed to an earlier constructor call
(as `input_symbols`, `symbols_to_count`, `remainders`, `substrings`, `language` — over another
alphabet, to another constructor), or may be changed by the caller after a call returned.  A
constructor that modifies an argument in place, or keeps a reference to it, builds the right DFA on
every fresh literal and the wrong one for such a caller.  This module describes those callers:

    program = dict(pool={name: dict(kind="sym"|"str"|"int", type="set"|"frozenset"|"keys", items=[…])},
                   steps=[dict(ctor=…, args={"syms": name, "count": name, …}, <scalars>)        # a call
                          | dict(mutate=name, op="add"|"discard", value=v)])                    # the caller's own edit

`kind`: "sym" = set of one-character strings (usable as input_symbols, symbols_to_count, substrings,
language), "str" = set of strings (substrings, language), "int" = set of ints (remainders).
`type`: a plain `set`, a `frozenset` (immune control), or a `dict` keys view (a `collections.abc.Set`
that iterates in the given order; the caller's edits go through the dict).

`simulate` is the semantics the caller reads off the source text: every argument has the VALUE written
in `pool` (deep snapshot at program start), changed only by the caller's own `mutate` steps; a call
never changes it.  Every result is judged against the language these values define.

Nothing here imports the library.
"""
from __future__ import annotations

import itertools
from typing import Any, Dict, Iterator, List, Optional, Tuple

# which set-valued parameters a constructor has, and which kinds of pool object fit
ROLES: Dict[str, Dict[str, Tuple[str, ...]]] = {
    "universal_language": {"syms": ("sym",)},
    "empty_language": {"syms": ("sym",)},
    "from_prefix": {"syms": ("sym",)},
    "from_suffix": {"syms": ("sym",)},
    "from_substring": {"syms": ("sym",)},
    "from_subsequence": {"syms": ("sym",)},
    "nth_from_start": {"syms": ("sym",)},
    "nth_from_end": {"syms": ("sym",)},
    "of_length": {"syms": ("sym",), "count": ("sym",)},
    "count_mod": {"syms": ("sym",), "count": ("sym",), "remainders": ("int",)},
    "from_substrings": {"syms": ("sym",), "patterns": ("sym", "str")},
    "from_finite_language": {"syms": ("sym",), "language": ("sym", "str")},
}
OPTIONAL_ROLES = {"count", "remainders"}
PARAM_NAME = {"syms": "input_symbols", "count": "symbols_to_count", "remainders": "remainders",
              "patterns": "substrings", "language": "language"}


# ------------------------------------------------------------------ objects
def build_object(spec: dict):
    """(the argument object, its owner): the owner is what the caller edits (the set itself, or the
    dict behind a keys view; None for a frozenset)."""
    items = list(spec["items"])
    t = spec["type"]
    if t == "set":
        s = set(items)
        return s, s
    if t == "frozenset":
        return frozenset(items), None
    if t == "keys":
        d = dict.fromkeys(items)
        return d.keys(), d
    raise ValueError(t)


def value_of(obj) -> List[Any]:
    return sorted(obj)


def mutate_value(items: List[Any], op: str, value) -> List[Any]:
    """The caller's edit on the VALUE (pure semantics)."""
    items = list(items)
    if op == "add":
        if value not in items:
            items.append(value)
    elif op == "discard":
        if value in items:
            items.remove(value)
    else:
        raise ValueError(op)
    return items


def mutate_real(owner, op: str, value) -> None:
    """The caller's edit on the live object."""
    if isinstance(owner, dict):
        if op == "add":
            owner.setdefault(value, None)
        else:
            owner.pop(value, None)
    else:
        if op == "add":
            owner.add(value)
        else:
            owner.discard(value)


# ------------------------------------------------------------------ semantics
SCALARS = ("pattern", "contains", "as_partial", "must_be_suffix", "min", "max", "k", "symbol", "n")


def semantic_case(step: dict, vals: Dict[str, List[Any]]) -> dict:
    """The single-call case (the format of harness/ops/C15.py) this step denotes when every argument
    has the value the caller wrote."""
    c = step["ctor"]
    args = step["args"]
    case: Dict[str, Any] = dict(ctor=c, syms="".join(sorted(vals[args["syms"]])))
    for f in SCALARS:
        if f in step:
            case[f] = step[f]
    if c in ("of_length", "count_mod"):
        case["count"] = "".join(sorted(vals[args["count"]])) if "count" in args else None
    if c == "count_mod":
        case["remainders"] = sorted(vals[args["remainders"]]) if "remainders" in args else None
    if c == "from_substrings":
        case["patterns"] = list(vals[args["patterns"]])
    if c == "from_finite_language":
        case["language"] = list(vals[args["language"]])
    return case


def simulate(program: dict) -> List[Optional[dict]]:
    """One entry per step: the semantic case of a call step, None for a caller's edit."""
    vals = {n: list(s["items"]) for n, s in program["pool"].items()}
    out: List[Optional[dict]] = []
    for st in program["steps"]:
        if "mutate" in st:
            vals[st["mutate"]] = mutate_value(vals[st["mutate"]], st["op"], st["value"])
            out.append(None)
        else:
            out.append(semantic_case(st, vals))
    return out


def n_calls(program: dict) -> int:
    return sum(1 for st in program["steps"] if "ctor" in st)


def reference_counts(program: dict) -> Dict[str, int]:
    cnt: Dict[str, int] = {}
    for st in program["steps"]:
        if "ctor" in st:
            for name in st["args"].values():
                cnt[name] = cnt.get(name, 0) + 1
    return cnt


def prune_pool(program: dict) -> dict:
    used = set(reference_counts(program)) | {st["mutate"] for st in program["steps"] if "mutate" in st}
    return dict(pool={n: dict(s) for n, s in program["pool"].items() if n in used},
                steps=[dict(st) for st in program["steps"]])


def subprograms(program: dict, idx: int, late: bool = False) -> List[Tuple[dict, int]]:
    """(sub-program, position of step `idx` in it), the smallest first, for reporting the shortest failing
    history: step `idx` as the final step after any subset of the steps before it — or, for a result that
    went wrong AFTER its call returned (`late`), step `idx` first, followed by any subset of the later
    steps.  The whole program is the last candidate."""
    n = len(program["steps"])
    others = list(range(idx + 1, n)) if late else list(range(idx))
    out: List[Tuple[dict, int]] = []
    for k in range(0, len(others) + 1):
        for keep in itertools.combinations(others, k):
            ids = ([idx] + list(keep)) if late else (list(keep) + [idx])
            p = prune_pool(dict(pool=program["pool"], steps=[program["steps"][i] for i in ids]))
            out.append((p, 0 if late else len(ids) - 1))
    out.append((prune_pool(program), idx))
    return out


def with_plain_sets(program: dict) -> dict:
    """The same program with every keys view replaced by a plain `set` (control for behaviour that
    only a live dict view shows)."""
    return dict(pool={n: dict(s, type=("set" if s["type"] == "keys" else s["type"])) for n, s in program["pool"].items()},
                steps=[dict(st) for st in program["steps"]])


def describe_step(st: dict, pool: dict) -> str:
    if "mutate" in st:
        return f"{st['mutate']}.{st['op']}({st['value']!r})"
    parts = []
    for role, name in st["args"].items():
        parts.append(f"{PARAM_NAME[role]}={name}")
    for f in SCALARS:
        if f in st:
            parts.append(f"{f}={st[f]!r}")
    return f"DFA.{st['ctor']}({', '.join(parts)})"


def describe_program(program: dict) -> str:
    pool = program["pool"]
    objs = "; ".join(f"{n} = {s['type']}({list(s['items'])!r})" for n, s in pool.items())
    steps = "; ".join(f"[{i + 1}] {describe_step(st, pool)}" for i, st in enumerate(program["steps"]))
    return f"{objs}; {steps}"


# ------------------------------------------------------------------ probes
def probe_steps(name: str, spec: dict, universe: str) -> List[Tuple[dict, dict]]:
    """Calls in which the VALUE of the pool object `name` decides the language, one per role the object
    can play: (extra pool entries, step).  Used to continue a program after a call changed `name` in
    place — if the change can reach a later result at all, one of these shows it."""
    kind = spec["kind"]
    out: List[Tuple[dict, dict]] = []
    chars = sorted({ch for it in spec["items"] if isinstance(it, str) for ch in it} | set(universe))
    full = dict(kind="sym", type="set", items=chars)
    if kind == "sym":
        out.append(({}, dict(ctor="universal_language", args={"syms": name})))
        out.append(({"U_": full}, dict(ctor="of_length", args={"syms": "U_", "count": name}, min=1, max=1)))
        out.append(({"U_": full}, dict(ctor="count_mod", args={"syms": "U_", "count": name}, k=2)))
    if kind in ("sym", "str"):
        out.append(({"U_": full}, dict(ctor="from_substrings", args={"syms": "U_", "patterns": name},
                                       contains=True, must_be_suffix=False)))
        out.append(({"U_": full}, dict(ctor="from_finite_language", args={"syms": "U_", "language": name},
                                       as_partial=True)))
    if kind == "int":
        k = max([1] + [int(x) + 1 for x in spec["items"]]) + 1
        out.append(({"U_": dict(kind="sym", type="set", items=["a", "b"])},
                    dict(ctor="count_mod", args={"syms": "U_", "remainders": name}, k=k)))
    return out


# ------------------------------------------------------------------ bounded-exhaustive sub-families
def _sym(items: str, t: str = "set") -> dict:
    return dict(kind="sym", type=t, items=list(items))


CANONICAL_CALLS: List[dict] = [
    dict(ctor="universal_language"),
    dict(ctor="empty_language"),
    dict(ctor="from_prefix", pattern="ab", contains=True, as_partial=True),
    dict(ctor="from_prefix", pattern="a", contains=False, as_partial=False),
    dict(ctor="from_suffix", pattern="aba", contains=True),
    dict(ctor="from_substring", pattern="aab", contains=True, must_be_suffix=False),
    dict(ctor="from_subsequence", pattern="ab", contains=True),
    dict(ctor="nth_from_start", symbol="a", n=2),
    dict(ctor="nth_from_end", symbol="b", n=2),
    dict(ctor="of_length", min=1, max=2, _alias=("count",)),
    dict(ctor="count_mod", k=2, _alias=("count",)),
    dict(ctor="from_substrings", contains=True, must_be_suffix=True, _alias=("patterns",)),
    dict(ctor="from_finite_language", as_partial=False, _alias=("language",)),
]


def exhaustive_programs(thorough: bool = False) -> Iterator[Tuple[str, dict]]:
    """(sub-family, program).  Four fully enumerated sub-domains of 2-call programs."""
    # E1: one symbols_to_count object, two alphabets, every pair of counting calls
    alphabets = ["ab", "ac", "b"] + (["abc", "c"] if thorough else [])
    counted = ["ab", "bc", "abc"] + (["a", "c#"] if thorough else [])
    calls = [dict(ctor="of_length", min=1, max=1), dict(ctor="of_length", min=2, max=None),
             dict(ctor="count_mod", k=2)]
    for x1, x2, kk in itertools.product(alphabets, alphabets, counted):
        for c1, c2 in itertools.product(calls, calls):
            pool = {"X1": _sym(x1), "X2": _sym(x2), "K": _sym(kk)}
            steps = [dict(c1, args={"syms": "X1", "count": "K"}), dict(c2, args={"syms": "X2", "count": "K"})]
            yield "E1_shared_symbols_to_count", dict(pool=pool, steps=steps)
    # E2: one input_symbols object through every ordered pair of constructors (where a constructor has a
    # second set parameter, the same object is passed there too: aliasing inside one call)
    for c1, c2 in itertools.product(CANONICAL_CALLS, CANONICAL_CALLS):
        steps = []
        for c in (c1, c2):
            st = {k: v for k, v in c.items() if k != "_alias"}
            st["args"] = {"syms": "X"}
            for role in c.get("_alias", ()):
                st["args"][role] = "X"
            steps.append(st)
        yield "E2_shared_input_symbols", dict(pool={"X": _sym("ab")}, steps=steps)
    # E3: one pattern-set object through from_substrings / from_finite_language over two alphabets
    pcalls = [dict(ctor="from_substrings", contains=True, must_be_suffix=False),
              dict(ctor="from_substrings", contains=False, must_be_suffix=True),
              dict(ctor="from_finite_language", as_partial=True),
              dict(ctor="from_finite_language", as_partial=False)]
    role_of = {"from_substrings": "patterns", "from_finite_language": "language"}
    psets = [["a", "ab"], ["b", "bc", "c"]] + ([["", "ba"], ["abc"]] if thorough else [])
    for ps in psets:
        for x1, x2 in itertools.product(["ab", "abc"], repeat=2):
            for c1, c2 in itertools.product(pcalls, pcalls):
                pool = {"X1": _sym(x1), "X2": _sym(x2), "P": dict(kind="str", type="set", items=list(ps))}
                steps = [dict(c1, args={"syms": "X1", role_of[c1["ctor"]]: "P"}),
                         dict(c2, args={"syms": "X2", role_of[c2["ctor"]]: "P"})]
                yield "E3_shared_pattern_set", dict(pool=pool, steps=steps)
    # E4: one remainders object, two moduli; and the caller's edit of an argument after the call
    for rs in ([1], [0, 2], []):
        for k1, k2 in itertools.product((2, 3, 4), repeat=2):
            pool = {"X": _sym("ab"), "R": dict(kind="int", type="set", items=list(rs))}
            yield "E4_shared_remainders", dict(pool=pool, steps=[
                dict(ctor="count_mod", k=k1, args={"syms": "X", "remainders": "R"}),
                dict(ctor="count_mod", k=k2, args={"syms": "X", "remainders": "R"})])
    for c in CANONICAL_CALLS:
        for t in ("set", "keys"):
            for op, v in (("add", "c"), ("discard", "b")):
                st = {k: val for k, val in c.items() if k != "_alias"}
                st["args"] = {"syms": "X"}
                for role in c.get("_alias", ()):
                    st["args"][role] = "X"
                yield "E5_caller_edits_argument_after_call", dict(
                    pool={"X": _sym("ab", t)},
                    steps=[st, dict(mutate="X", op=op, value=v), dict(ctor="universal_language", args={"syms": "X"})])


# ------------------------------------------------------------------ random programs
def _pick_type(rng) -> str:
    r = rng.random()
    return "set" if r < 0.75 else ("frozenset" if r < 0.87 else "keys")


def _rand_word(rng, alpha: str, lo: int, hi: int) -> str:
    return "".join(rng.choice(alpha) for _ in range(rng.randint(lo, hi)))


def random_program(rng) -> dict:
    universe = rng.choice(["abc", "abc", "ab", "abcd"])
    pool: Dict[str, dict] = {}
    for i in range(rng.randint(2, 3)):
        items = [ch for ch in universe if rng.random() < 0.6] or [rng.choice(universe)]
        if rng.random() < 0.1:
            items.append("#")
        rng.shuffle(items)
        pool[f"S{i}"] = dict(kind="sym", type=_pick_type(rng), items=items)
    if rng.random() < 0.65:
        ps = []
        for _ in range(rng.randint(1, 3)):
            w = _rand_word(rng, universe, 0 if rng.random() < 0.1 else 1, 3)
            if w not in ps:
                ps.append(w)
        pool["P0"] = dict(kind="str", type=_pick_type(rng), items=ps)
    if rng.random() < 0.5:
        pool["R0"] = dict(kind="int", type=_pick_type(rng), items=[r for r in range(3) if rng.random() < 0.5])
    ctors_set_args = ["of_length", "count_mod", "from_substrings", "from_finite_language"]
    ctors_plain = ["universal_language", "empty_language", "from_prefix", "from_suffix", "from_substring",
                   "from_subsequence", "nth_from_start", "nth_from_end"]
    for _attempt in range(20):
        steps: List[dict] = []
        used: List[str] = []
        ncalls = rng.randint(2, 4)
        for j in range(ncalls):
            c = rng.choice(ctors_set_args) if rng.random() < 0.65 else rng.choice(ctors_plain)
            st: Dict[str, Any] = dict(ctor=c, args={})
            for role, kinds in ROLES[c].items():
                cands = [n for n, s in pool.items() if s["kind"] in kinds]
                if role in OPTIONAL_ROLES and (not cands or rng.random() < 0.25):
                    continue
                if not cands:
                    cands = [n for n, s in pool.items() if s["kind"] == "sym"]
                shared = [n for n in cands if n in used]
                name = rng.choice(shared) if shared and rng.random() < 0.7 else rng.choice(cands)
                st["args"][role] = name
                used.append(name)
            if c in ("from_prefix", "from_suffix", "from_substring", "from_subsequence"):
                st["pattern"] = _rand_word(rng, universe, 0 if rng.random() < 0.1 else 1, 3)
                st["contains"] = rng.random() < 0.7
                if c == "from_prefix":
                    st["as_partial"] = rng.random() < 0.5
                if c == "from_substring":
                    st["must_be_suffix"] = rng.random() < 0.5
            elif c in ("nth_from_start", "nth_from_end"):
                st["symbol"] = rng.choice(universe)
                st["n"] = rng.randint(1, 3)
            elif c == "of_length":
                st["min"] = rng.randint(0, 3)
                st["max"] = rng.choice([None, st["min"], st["min"] + 1, rng.randint(0, 4)])
            elif c == "count_mod":
                st["k"] = rng.randint(1, 4)
            elif c == "from_substrings":
                st["contains"] = rng.random() < 0.7
                st["must_be_suffix"] = rng.random() < 0.5
            elif c == "from_finite_language":
                st["as_partial"] = rng.random() < 0.5
            steps.append(st)
            if j < ncalls - 1 and rng.random() < 0.2:
                editable = [n for n in dict.fromkeys(used) if pool[n]["type"] != "frozenset"]
                if editable:
                    n = rng.choice(editable)
                    kind = pool[n]["kind"]
                    if kind == "sym":
                        v: Any = rng.choice(universe)
                    elif kind == "str":
                        v = rng.choice(pool[n]["items"] + [_rand_word(rng, universe, 1, 2)])
                    else:
                        v = rng.randint(0, 3)
                    steps.append(dict(mutate=n, op=rng.choice(["add", "discard"]), value=v))
        program = dict(pool=pool, steps=steps)
        if max(reference_counts(program).values()) >= 2:
            return prune_pool(program)
    return prune_pool(program)
