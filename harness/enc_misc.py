"""Wire encoders for drv_misc: definitions (kwargs dicts, possibly corrupted) of the eight
classes, and Python values for FREEZE / NEW / COPY / PICKLE.  Formats: Driver/Misc.lean."""
from __future__ import annotations

import collections.abc as _abc
from typing import Any, Dict, List, Tuple

from frozendict import frozendict

from harness.common import FOREIGN, Names, toks

EXTRA = ["*", "|", "(", ")", "?"]
DIR_CODE = {"L": 0, "N": 1, "R": 2}
MODE_CODE = {"final_state": 0, "empty_stack": 1, "both": 2}


def _sorted(xs):
    return sorted(xs, key=lambda x: (str(type(x)), repr(x)))


def state_names(kw) -> Names:
    return Names(list(kw["states"]))


def sym_names(xs) -> Names:
    return Names(_sorted(xs))


def esym(sy: Names, a) -> int:
    return -1 if a == "" else sy(a)


class Misc:
    """Per-request table for values that have no meaning to the model (bad directions,
    bad acceptance modes): distinct values get distinct codes ≥ 3."""

    def __init__(self):
        self.t: Dict[Any, int] = {}

    def code(self, table: Dict[str, int], v) -> int:
        try:
            if v in table:
                return table[v]
        except TypeError:
            pass
        k = repr(v)
        if k not in self.t:
            self.t[k] = 3 + len(self.t)
        return self.t[k]


def enc_fa(cls: str, kw) -> str:
    """DFA / NFA: the two reserved-name numbers, then the Driver/Proto.lean format (from kwargs)."""
    st = state_names(kw)
    sy = sym_names(kw["input_symbols"])
    order = [sy(a) for a in kw["input_symbols"]]
    rows = []
    for k, row in kw["transitions"].items():
        if cls == "DFA":
            rows.append(toks(st(k), len(row), [[sy(a), st(t)] for a, t in row.items()]))
        else:
            rows.append(toks(st(k), len(row), [[esym(sy, a), len(ts), [st(t) for t in ts]] for a, ts in row.items()]))
    head = [len(st.order), len(order), order]
    if cls == "DFA":
        head.append(bool(kw["allow_partial"]))
    # interpretation of the numbers: which state is Python's None, which symbol is ""
    # (numbers ≥ FOREIGN when the definition has no such state / symbol)
    return toks(st(None), sy(""), head, st(kw["initial_state"]), len(kw["final_states"]), [st(q) for q in kw["final_states"]],
                len(rows), rows)


def regex_valid_code(label: str) -> int:
    import automata.regex.regex as re_mod
    try:
        return 1 if re_mod._validate(label) else 0
    except Exception:  # noqa: BLE001 - an escaping LexerError etc.
        return 2


def enc_label(sy: Names, syms, lab) -> str:
    if lab is None:
        return "-1"
    cs = []
    for c in lab:
        if c in syms:
            cs.append(sy(c))
        elif c in EXTRA:
            cs.append(-2 - EXTRA.index(c))
        else:
            cs.append(sy(c))  # foreign (≥ FOREIGN)
    return toks(len(cs), cs, regex_valid_code(lab))


def enc_gnfa(kw) -> str:
    st = state_names(kw)
    sy = sym_names(kw["input_symbols"])
    order = [sy(a) for a in kw["input_symbols"]]
    rows = []
    for k, row in kw["transitions"].items():
        rows.append(toks(st(k), len(row), [[st(t), enc_label(sy, kw["input_symbols"], lab)] for t, lab in row.items()]))
    return toks(len(st.order), len(order), order, st(kw["initial_state"]), st(kw["final_state"]), len(rows), rows)


def enc_push(gs: Names, p) -> str:
    p = list(p)  # str → characters, tuple → symbols
    return toks(len(p), [gs(x) for x in p])


def enc_pda(cls: str, kw) -> str:
    st = state_names(kw)
    sy = sym_names(kw["input_symbols"])
    gs = sym_names(kw["stack_symbols"])
    order = [sy(a) for a in kw["input_symbols"]]
    gorder = [gs(g) for g in kw["stack_symbols"]]
    misc = Misc()
    rows = []
    for k, row in kw["transitions"].items():
        ents = []
        for a, m in row.items():
            sub = []
            for g, res in m.items():
                if cls == "DPDA":
                    t, p = res
                    sub.append(toks(gs(g), st(t), enc_push(gs, p)))
                else:
                    sub.append(toks(gs(g), len(res), [[st(t), enc_push(gs, p)] for (t, p) in res]))
            ents.append(toks(esym(sy, a), len(m), sub))
        rows.append(toks(st(k), len(row), ents))
    # first number: which stack symbol is "" (≥ FOREIGN when "" is not a stack symbol)
    return toks(gs(""), len(st.order), len(order), order, len(gorder), gorder, st(kw["initial_state"]),
                gs(kw["initial_stack_symbol"]), len(kw["final_states"]), [st(q) for q in kw["final_states"]],
                misc.code(MODE_CODE, kw["acceptance_mode"]), len(rows), rows)


def enc_tm(cls: str, kw) -> str:
    st = state_names(kw)
    ts = sym_names(set(kw["tape_symbols"]) | set(kw["input_symbols"]))
    misc = Misc()

    def res3(r):
        t, w, d = r
        return toks(st(t), ts(w), misc.code(DIR_CODE, d))

    rows = []
    for k, row in kw["transitions"].items():
        ents = []
        for key, val in row.items():
            if cls == "DTM":
                ents.append(toks(ts(key), res3(val)))
            elif cls == "NTM":
                ents.append(toks(ts(key), len(val), [res3(r) for r in val]))
            else:
                rs = []
                for (t, moves) in val:
                    rs.append(toks(st(t), len(moves), [[ts(w), misc.code(DIR_CODE, d)] for (w, d) in moves]))
                ents.append(toks(len(key), [ts(s) for s in key], len(val), rs))
        rows.append(toks(st(k), len(row), ents))
    head = [len(st.order), len(kw["input_symbols"]), [ts(a) for a in kw["input_symbols"]],
            len(kw["tape_symbols"]), [ts(a) for a in kw["tape_symbols"]]]
    if cls == "MNTM":
        head.append(int(kw["n_tapes"]))
    return toks(head, st(kw["initial_state"]), ts(kw["blank_symbol"]), len(kw["final_states"]),
                [st(q) for q in kw["final_states"]], len(rows), rows)


def enc_def(cls: str, kw) -> str:
    if cls in ("DFA", "NFA"):
        return enc_fa(cls, kw)
    if cls == "GNFA":
        return enc_gnfa(kw)
    if cls in ("DPDA", "NPDA"):
        return enc_pda(cls, kw)
    return enc_tm(cls, kw)


# ------------------------------------------------------------------ Python values
class StrTable:
    def __init__(self):
        self.t: Dict[str, str] = {}

    def tok(self, s: str) -> str:
        """Plain words of ASCII letters and underscores travel as they are (so that the model's
        own literals — the regenerated defaults such as "both", "final_state" — compare equal);
        anything else gets an id `x<n>` (ids contain a digit, words do not)."""
        if s.isascii() and s.replace("_", "").isalpha():
            return s
        if s not in self.t:
            self.t[s] = f"x{len(self.t)}"
        return self.t[s]


def enc_py(v: Any, stt: StrTable, canon: bool = False) -> str:
    """Prefix encoding of a Python value; with canon=True unordered containers are sorted by
    the encoding of their members (for comparing results)."""
    if isinstance(v, str):
        return "s " + stt.tok(v)
    if isinstance(v, bool):
        return f"i {int(v)}"
    if isinstance(v, int):
        return f"i {v}"
    if isinstance(v, (dict, frozendict)):
        tag = "D" if isinstance(v, frozendict) else "d"
        items = [enc_py(k, stt, canon) + " " + enc_py(x, stt, canon) for k, x in v.items()]
        if canon:
            items.sort()
        return " ".join([tag, str(len(items))] + items)
    if isinstance(v, (set, frozenset)):
        tag = "F" if isinstance(v, frozenset) else "S"
        items = [enc_py(x, stt, canon) for x in v]
        if canon:
            items.sort()
        return " ".join([tag, str(len(items))] + items)
    if isinstance(v, (list, tuple)):
        tag = "t" if isinstance(v, tuple) else "l"
        items = [enc_py(x, stt, canon) for x in v]
        return " ".join([tag, str(len(items))] + items)
    if v is None:
        return "o 0"
    if isinstance(v, float):
        return "o 1"
    # look-alikes: the model's kinds are kinds of behaviour under isinstance — subclasses of the builtins
    # were caught above (OrderedDict is a `d`, a namedtuple a `t`); what is left and is a
    # collections.abc.Mapping is a `maplike` (M: mappingproxy, UserDict, ChainMap, user classes), what is a
    # collections.abc.Set a `setlike` (V: dict views, user classes) — in the order of freeze_value's tests
    if isinstance(v, _abc.Mapping):
        items = [enc_py(k, stt, canon) + " " + enc_py(v[k], stt, canon) for k in list(v.keys())]
        if canon:
            items.sort()
        return " ".join(["M", str(len(items))] + items)
    if isinstance(v, _abc.Set):
        items = [enc_py(x, stt, canon) for x in v]
        if canon:
            items.sort()
        return " ".join(["V", str(len(items))] + items)
    # a collections.abc.Sequence that is neither list nor tuple (nor str — above — nor bytes): `seqlike`
    # (Q: UserList, deque, range, user classes)
    if isinstance(v, _abc.Sequence) and not isinstance(v, bytes):
        items = [enc_py(x, stt, canon) for x in v]
        return " ".join(["Q", str(len(items))] + items)
    return "o 2"


def canon_py_line(line_tokens: List[str], i: int = 0) -> Tuple[str, int]:
    """Re-canonicalise a prefix-encoded value printed by the driver (sort unordered kinds)."""
    tag = line_tokens[i]
    if tag in ("s", "i", "o"):
        return f"{tag} {line_tokens[i + 1]}", i + 2
    n = int(line_tokens[i + 1])
    j = i + 2
    items = []
    for _ in range(n):
        if tag in ("d", "D", "M"):
            a, j = canon_py_line(line_tokens, j)
            b, j = canon_py_line(line_tokens, j)
            items.append(a + " " + b)
        else:
            a, j = canon_py_line(line_tokens, j)
            items.append(a)
    if tag in ("d", "D", "S", "F", "M", "V"):
        items.sort()
    if tag in ("S", "F", "V"):
        # the model's sets are lists used as sets: members that became equal (freezing a user Set that held
        # both `deque([])` and `()`) are one member
        items = [x for i, x in enumerate(items) if i == 0 or x != items[i - 1]]
        n = len(items)
    return " ".join([tag, str(n)] + items), j


def enc_kwargs(kw: Dict[str, Any], stt: StrTable) -> str:
    return " ".join([str(len(kw))] + [f"{k} {enc_py(v, stt)}" for k, v in kw.items()])
