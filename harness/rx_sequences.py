"""Call SEQUENCES of the regex API over fresh alphabets (round 3; shared by the C10 and C11 checks).

C10 / C11 quantify over inputs, not over call histories: what `regex.validate`, `NFA.from_regex`,
`regex.isequal / issubset / issuperset` answer must not depend on which calls were made before in the same
process.  The other families of the two checks make thousands of calls over a handful of alphabets in one long
process, so anything the library keeps between calls (a lexer / parser / NFA cache keyed by alphabet or by
expression, a counter that is not reset, state left behind by a call that raised) is long past its first uses
when a judged call arrives.  This module generates short PROGRAMS — a few preparatory calls, then the judged
call(s) — each over an alphabet that no earlier call of the process has used, with expressions that contain
the empty-string literal `()` far more often than the shaped-random stream does:

    validate(r) → from_regex(r) / isequal(r, r')        the documented workflow "validate first"
    from_regex(tiny) → …                                  an earlier small compile over the same alphabet
    validate(bad) / from_regex(bad) → …                   a call that raised just before
    … → the same call again                               second call with the same arguments
    … over Σ → the same expressions over Σ ∪ {x}          caches keyed by the expression text only

Every step is judged on its own by an oracle that knows nothing of the history (grammar by construction,
Brzozowski derivatives / brute force for languages).  A program is a JSON-able list of steps, so a failing
program IS its replay; `confirm_fresh` re-runs it in a fresh interpreter before it is reported.

Nothing here calls the Lean model: the model is a pure function of the arguments, a history cannot change it.
"""
from __future__ import annotations

import json
from typing import Any, Callable, Dict, List, Optional, Tuple

from harness import rx_common as R

RESERVED = frozenset("*|()?&+.^{} \t")
# symbols of the fresh alphabets: letters, digits (they also occur inside quantifier braces), punctuation that is
# special in Python's `re` / format strings but ordinary here, a few non-ASCII / non-BMP letters
POOL = list("abcdefghijklmnopqrstuvwxyzABCDEFGHIJKLMNOPQRSTUVWXYZ0123456789") + list(",-_:;=!@#%~<>/'\"[]$\\") + \
    ["é", "ß", "λ", "\U0001d4b3"]


def to_ast(x):
    return tuple(to_ast(y) if isinstance(y, list) else y for y in x) if isinstance(x, (list, tuple)) else x


def default_alphabet(s: str) -> frozenset:
    """The alphabet `validate(s)` and `from_regex(s)` use when none is given."""
    return frozenset(s) - RESERVED


# ------------------------------------------------------------------ generation
def est_states(e) -> int:
    """Rough size of the NFA an AST compiles to (products for & and ^) — only to keep programs cheap."""
    k = e[0]
    if k in ("lit", "any"):
        return 2
    if k == "eps":
        return 1
    if k == "cat":
        return est_states(e[1]) + est_states(e[2])
    if k == "alt":
        return est_states(e[1]) + est_states(e[2]) + 1
    if k in ("and", "shuf"):
        return est_states(e[1]) * est_states(e[2])
    if k in ("star", "plus", "opt"):
        return est_states(e[1]) + 1
    lo, hi = (e[2] or 0), e[3]
    return est_states(e[1]) * max(1, hi if hi is not None else lo + 1) + 1


def leaves(e, path=()) -> List[tuple]:
    if e[0] in ("lit", "any", "eps"):
        return [path]
    out = []
    for i, x in enumerate(e):
        if isinstance(x, tuple):
            out += leaves(x, path + (i,))
    return out


def put(e, path, new):
    if not path:
        return new
    i = path[0]
    return e[:i] + (put(e[i], path[1:], new),) + e[i + 1:]


EPS = ("eps",)


def with_eps(rng, e, lits) -> tuple:
    """Insert the empty-string literal `()` into `e` in one of the ways people write it."""
    r = rng.random()
    if r < 0.25:
        return ("alt", e, EPS)                                    # r|()
    if r < 0.4:
        return ("alt", EPS, e)                                    # ()|r
    if r < 0.5:
        return ("cat", e, EPS) if rng.random() < 0.5 else ("cat", EPS, e)
    if r < 0.75:
        ps = leaves(e)
        out = put(e, rng.choice(ps), EPS)                         # a leaf becomes ()
        if rng.random() < 0.4:
            out = put(out, rng.choice(ps), EPS)
        return out
    if r < 0.9 and len(lits) >= 1:
        a, b = rng.choice(lits), rng.choice(lits)
        return ("cat", ("alt", ("lit", a), EPS), ("alt", e, EPS))  # (a|())(r|())
    return ("rep", ("alt", EPS, e), rng.choice([1, 2]), 2)         # (()|r){n,2}


def invalid_variant(rng, s: str) -> str:
    """A string outside the grammar by construction, made from a valid rendering `s`: unbalanced parenthesis,
    binary operator at an edge or doubled, postfix operator at the start."""
    k = rng.randrange(7)
    if k == 0:
        return s + ")"
    if k == 1:
        return "(" + s
    if k == 2:
        return s + rng.choice("|&^")
    if k == 3:
        return rng.choice("|&^") + s
    if k == 4:
        return rng.choice("*+?") + s
    if k == 5:
        return "(" + s + "))"
    return s + "|" + rng.choice("|&^") + s


def gen_program(rng, used: set, main: str, rewrite: Callable[[Any, tuple], tuple]) -> Optional[dict]:
    """One program over a fresh alphabet.  `main` = "cmp" (C11: the comparison helpers) or "compile" (C10:
    from_regex judged on its language).  `used` = alphabets any earlier call of this process has touched."""
    for _attempt in range(30):
        base = rng.sample(POOL, rng.choice([1, 2, 2, 3]))
        e1 = R.rand_ast(rng, base, rng.choice([1, 2, 2, 3]))
        has_eps = rng.random() < 0.7
        if has_eps:
            e1 = with_eps(rng, e1, base)
        r = rng.random()
        if r < 0.5:
            e2 = rewrite(rng, e1)
        elif r < 0.7:
            e2 = ("alt", e1, R.rand_ast(rng, base, 1))
        else:
            e2 = R.rand_ast(rng, base, rng.choice([1, 2]))
            if rng.random() < 0.5:
                e2 = with_eps(rng, e2, base)
        if R.size(e1) + R.size(e2) > 20 or est_states(e1) > 24 or est_states(e2) > 24:
            continue
        style = rng.choice(["min", "min", "full", "blank", "extra"])
        s1 = R.render(e1, style, rng)
        s2 = R.render(e2, rng.choice(["min", style]), rng)
        natural = default_alphabet(s1)
        if not natural:
            continue
        if rng.random() < 0.75 and R.lits_of(e2) <= natural:
            sigma = natural                     # the alphabet validate(s1) / from_regex(s1) use by default
        else:
            extra = [c for c in POOL if c not in natural]
            sigma = natural | R.lits_of(e2) | set(rng.sample(extra, rng.choice([0, 1, 2])))
        sigma = frozenset(sigma)
        if sigma in used:
            continue
        break
    else:
        return None
    sig = sorted(sigma)
    steps: List[dict] = []
    tags = ["has_eps" if has_eps or "eps" in (R.ops_of(e1) | R.ops_of(e2)) else "no_eps",
            "natural_alphabet" if sigma == natural else "wider_alphabet"]
    # --- preparatory calls
    n_prep = rng.choice([0, 1, 1, 1, 2, 2, 3])
    for _ in range(n_prep):
        k = rng.choice(["validate1", "validate1", "validate1", "validate2", "tiny", "validate_bad", "compile_bad",
                        "compile_default"])
        tags.append("prep_" + k)
        if k == "validate1":
            steps.append(dict(op="validate", re=s1, valid=True))
        elif k == "validate2":
            steps.append(dict(op="validate", re=s2, valid=True))
        elif k == "tiny":
            tiny = rng.choice([rng.choice(sig), "()", rng.choice(sig) + "*", rng.choice(sig) + "|()"])
            ast = {1: ("lit", tiny), 2: ("eps",) if tiny == "()" else ("star", ("lit", tiny[0]))}.get(
                len(tiny), ("alt", ("lit", tiny[0]), EPS))
            steps.append(dict(op="compile", re=tiny, input_symbols=sig, valid=True, ast=ast))
        elif k == "validate_bad":
            steps.append(dict(op="validate", re=invalid_variant(rng, s1), valid=False))
        elif k == "compile_bad":
            steps.append(dict(op="compile", re=invalid_variant(rng, s1), input_symbols=sig, valid=False, ast=None))
        else:
            steps.append(dict(op="compile", re=s1, input_symbols=None, valid=True, ast=e1))
    if not n_prep:
        tags.append("prep_none")
    # --- the judged call(s)

    def main_step(alphabet):
        if main == "cmp":
            return dict(op="cmp", re1=s1, re2=s2, input_symbols=sorted(alphabet), ast1=e1, ast2=e2)
        return dict(op="compile", re=s1, input_symbols=sorted(alphabet), valid=True, ast=e1)

    if main == "compile" and sigma == natural and rng.random() < 0.4:
        steps.append(dict(op="compile", re=s1, input_symbols=None, valid=True, ast=e1))
    else:
        steps.append(main_step(sigma))
    r = rng.random()
    if r < 0.15:
        steps.append(dict(steps[-1]))                              # the same call again
        tags.append("again")
    elif r < 0.3:
        x = rng.choice([c for c in POOL if c not in sigma])
        wider = main_step(sigma | {x})
        if rng.random() < 0.5:
            steps.append(wider)                                    # same expressions, larger alphabet afterwards
        else:
            steps.insert(len(steps) - 1, wider)                    # … or before
        tags.append("two_alphabets")
    elif r < 0.4 and main == "cmp":
        steps.append(dict(op="cmp", re1=s2, re2=s1, input_symbols=sig, ast1=e2, ast2=e1))
        tags.append("swapped")
    elif r < 0.5 and main == "compile":
        steps.append(dict(op="compile", re=s2, input_symbols=sig, valid=True, ast=e2))
        tags.append("second_expression")
    return dict(steps=steps, tags=tags, sigma=sig)


def touched_alphabets(steps: List[dict]) -> List[frozenset]:
    out = []
    for st in steps:
        if st["op"] == "validate":
            out.append(default_alphabet(st["re"]))
        elif st["input_symbols"] is None:
            out.append(default_alphabet(st["re"]))
        else:
            out.append(frozenset(st["input_symbols"]))
    return out


# ------------------------------------------------------------------ judging
class Skip(Exception):
    """The oracle cannot judge this program within its budget."""


def judge_steps(steps: List[dict], language: Optional[Callable] = None,
                extra_ops: Optional[Dict[str, Callable]] = None) -> List[Tuple[int, str, dict]]:
    """Execute the steps in order through the REAL library and judge each one by its own oracle.
    Returns [(step index, what is wrong, details)] — empty when every step is right.
    `language(nfa, ast, sorted_sigma)` → None | (word, denoted?) judges compiled NFAs (C10); without it a
    compile step is judged on success / error type only (C11).  A compile step with valid=None is judged on
    its language only (if it compiles and carries an AST).  `extra_ops[op](step)` executes further, unjudged
    kinds of steps (whole cases of a check, or calls it makes besides the API) and may return failure texts."""
    import automata.base.exceptions as exceptions
    from automata.fa.nfa import NFA
    from automata.regex import regex as rx

    bad: List[Tuple[int, str, dict]] = []
    for i, st in enumerate(steps):
        op = st["op"]
        if op == "validate":
            try:
                rx.validate(st["re"])
                got = ("ok", None)
            except RecursionError:
                raise
            except Exception as ex:  # noqa: BLE001
                got = ("err", type(ex).__name__, isinstance(ex, exceptions.RegexException))
            if st["valid"] and got[0] != "ok":
                bad.append((i, f"validate({st['re']!r}) raises {got[1]} on an expression of the grammar", dict(got=got[1])))
            elif not st["valid"] and got[0] == "ok":
                bad.append((i, f"validate({st['re']!r}) accepts a string outside the grammar", dict(got="ok")))
            elif not st["valid"] and not got[2]:
                bad.append((i, f"validate({st['re']!r}) raises {got[1]}, not a RegexException", dict(got=got[1])))
        elif op == "compile":
            sig = None if st["input_symbols"] is None else frozenset(st["input_symbols"])
            call_txt = f"NFA.from_regex({st['re']!r}" + ("" if sig is None else f", input_symbols={sorted(sig)}") + ")"
            try:
                nfa = NFA.from_regex(st["re"], input_symbols=sig)
                got = ("ok", nfa)
            except RecursionError:
                raise
            except Exception as ex:  # noqa: BLE001
                got = ("err", type(ex).__name__, isinstance(ex, exceptions.RegexException))
            valid = st.get("valid")
            if valid is True and got[0] != "ok":
                bad.append((i, f"{call_txt} raises {got[1]} on an expression of the grammar", dict(got=got[1])))
            elif valid is False and got[0] == "ok":
                bad.append((i, f"{call_txt} compiles a string outside the grammar", dict(got="ok")))
            elif valid is False and not got[2]:
                bad.append((i, f"{call_txt} raises {got[1]}, not a RegexException", dict(got=got[1])))
            elif valid is not False and got[0] == "ok" and language is not None and st.get("ast") is not None:
                e = to_ast(st["ast"])
                eff = sorted(nfa.input_symbols)
                verdict = language(nfa, e, eff)
                if verdict is not None:
                    w, denoted = verdict
                    bad.append((i, f"{call_txt} {'rejects' if denoted else 'accepts'} {w!r} but the expression "
                                   f"{'denotes' if denoted else 'does not denote'} it", dict(word=w, denoted=denoted)))
            if got[0] == "ok":
                st["_nfa"] = nfa        # for the caller's model comparison (not part of the replay)
        elif op == "cmp":
            sig = frozenset(st["input_symbols"])
            e1, e2 = to_ast(st["ast1"]), to_ast(st["ast2"])
            real = []
            for fn in (rx.isequal, rx.issubset, rx.issuperset):
                try:
                    real.append(("ok", fn(st["re1"], st["re2"], input_symbols=sig)))
                except RecursionError:
                    raise
                except Exception as ex:  # noqa: BLE001
                    real.append(("err", type(ex).__name__))
            try:
                sub, sup = R.ast_cmp(e1, e2, sorted(sig))
            except R.OracleBudget:
                raise Skip()
            want = [("ok", sub and sup), ("ok", sub), ("ok", sup)]
            if real != want:
                names = ("isequal", "issubset", "issuperset")
                txt = "; ".join(f"{n}={r[1]} (languages say {w[1]})" for n, r, w in zip(names, real, want) if r != w)
                bad.append((i, f"{st['re1']!r} vs {st['re2']!r} over {sorted(sig)}: {txt}", dict(real=real, want=want)))
            st["_real"] = real          # for the caller's model comparison (not part of the replay)
        elif extra_ops and op in extra_ops:
            for what in (extra_ops[op](st) or []):
                bad.append((i, what, {}))
        else:
            raise ValueError(op)
    return bad


def clean(steps: List[dict]) -> List[dict]:
    return [{k: v for k, v in st.items() if not k.startswith("_")} for st in steps]


def describe(steps: List[dict], i: int) -> str:
    """One-line rendering of the calls before step i (for messages)."""
    if i > 4:
        return f"{i} earlier calls"
    out = []
    for st in steps[:i]:
        if st["op"] == "validate":
            out.append(f"validate({st['re']!r})")
        elif st["op"] == "compile":
            out.append(f"from_regex({st['re']!r}" + ("" if st["input_symbols"] is None else f", {''.join(st['input_symbols'])!r}") + ")")
        elif st["op"] == "cmp":
            out.append(f"compare({st['re1']!r}, {st['re2']!r}, {''.join(st['input_symbols'])!r})")
        else:
            txt = st.get("re", st.get("regex"))
            out.append(f"{st['op']}({txt!r})" if txt is not None else f"{st['op']}({st.get('re1')!r}, {st.get('re2')!r})")
    return " → ".join(out) if out else "no earlier call"


def keys_of(st: dict) -> set:
    """What a cache inside the library could be keyed by for this step: the alphabets it touches and the expression
    texts it passes (harness/fresh.py tries recorded calls that share one of them first)."""
    texts = [st[f] for f in ("re", "regex", "re1", "re2") if st.get(f) is not None]
    ks = {("re", t) for t in texts}
    if st.get("input_symbols") is not None:
        ks.add(frozenset(st["input_symbols"]))
    if st.get("input_symbols") is None or st.get("op") in ("validate", "case"):
        ks.update(default_alphabet(t) for t in texts)
    return ks


def report_failing(ctx, failing: list, most: int = 4):
    """Record the `most` shortest failing programs of a run as property failures.  Each record carries its own steps
    (`_tail`) and its position in the module's call log (`_calls`): harness/fresh.py re-runs the one that will be
    printed in a fresh interpreter and puts recorded earlier calls in front of it if it needs them."""
    failing = sorted(failing, key=lambda f: len(json.dumps(clean(f[0]["steps"]), default=repr)))
    for prog, bad, n_calls in failing[:most]:
        steps = clean(prog["steps"])
        i, what, detail = bad[0]
        n = len(ctx.prop_fails)
        ctx.prop_fail(f"after {describe(steps, i)}: {what}",
                      dict(kind="sequence", steps=steps, failing_step=i, detail=R_json(detail)), None)
        for f in ctx.prop_fails[n:]:
            f["_tail"], f["_calls"] = steps, n_calls
    if len(failing) > most:
        ctx.note(f"{len(failing)} programs of calls over fresh alphabets had a wrong step; the {most} shortest are reported")


def R_json(x):
    from harness.common import jsonable
    return jsonable(x)
