"""C17 — tape symbols that are special to string / regex processing (helper of harness/ops/C17.py).

A tape symbol is ANY single character (validate() only asks for membership in `tape_symbols`); the
single-tape simulation keeps its extended tape as a str and parses it, so every character that some
string facility treats specially is a boundary of its own: line breaks ('.' does not match '\\n';
str.splitlines knows ten separators), other whitespace (strip / split()), regex metacharacters
(unescaped patterns), quotes / '%' / braces (formatting, repr round trips), NUL, BOM, combining and
astral code points.  Never the two marks '^' and '_' of the extended tape: those are the open finding
C17:mark-symbol-in-alphabet-or-input and have their own family.

This module only holds data and pure functions on machine definitions (no oracle, no library run):
  CLASSES / ALL      the characters, by class;
  relabel(m, f)      the machine `m` with its tape alphabet renamed through the bijection `f`
                     (row order and result-list order kept);
  relabel_word(w, f) the input renamed the same way;
  line_counter / copier   two small hand-written machines with closed-form verdicts.
"""
from __future__ import annotations

from typing import Dict

from automata.tm.mntm import MNTM

MARKS = "^_"

CLASSES = {
    # str.splitlines() separators (which include the two a regex '.' / '$' treat specially)
    "line_break": "\n\r\x0b\x0c\x1c\x1d\x1e\x85\u2028\u2029",
    "whitespace": " \t\u00a0\u3000\u200b",
    "regex_meta": ".*+?[](){}|\\$-",
    "quote_format": "\"'`%#,:;&<>~!=/@",
    "control_unicode": "\x00\x7f\x1b\ufeff\u0301\U0001F600\u00e9\u03bb",
}
ALL = "".join(CLASSES.values())
assert len(set(ALL)) == len(ALL) and not set(ALL) & set(MARKS)
CLASS_OF = {c: k for k, cs in CLASSES.items() for c in cs}


def name_of(c: str) -> str:
    return "U+%04X" % ord(c)


def pick_bijection(rng, symbols, must: str, role_index: int) -> Dict[str, str]:
    """A bijection of `symbols` (a machine's tape alphabet, in a fixed order) into ALL whose image
    contains `must`, at position `role_index` (mod the number of symbols); the other images are drawn
    mostly from the class of `must` (so a whole alphabet of line breaks / of regex metacharacters
    occurs), else from everything."""
    symbols = list(symbols)
    pool = [c for c in (CLASSES[CLASS_OF[must]] if rng.random() < 0.5 else ALL) if c != must]
    if len(pool) < len(symbols) - 1:
        pool = [c for c in ALL if c != must]
    rest = rng.sample(pool, len(symbols) - 1)
    k = role_index % len(symbols)
    img = rest[:k] + [must] + rest[k:]
    return dict(zip(symbols, img))


def extend_for_word(rng, f: Dict[str, str], w: str) -> Dict[str, str]:
    """`f` extended (injectively, away from the marks) to the characters of `w` outside its domain —
    inputs may contain symbols outside the tape alphabet; they stay outside it."""
    g = dict(f)
    for c in w:
        if c not in g:
            free = [x for x in ALL if x not in g.values()]
            g[c] = rng.choice(free)
    return g


def relabel_word(w: str, f: Dict[str, str]) -> str:
    return "".join(f[c] for c in w)


def relabel(m: MNTM, f: Dict[str, str]) -> MNTM:
    table = {}
    for q, row in m.transitions.items():
        new_row = {}
        for key, rs in row.items():
            out = [(t, tuple((f[s], d) for (s, d) in moves)) for (t, moves) in rs]
            new_row[tuple(f[s] for s in key)] = out
        table[q] = new_row
    return MNTM(states=set(m.states), input_symbols={f[s] for s in m.input_symbols},
                tape_symbols={f[s] for s in m.tape_symbols}, n_tapes=m.n_tapes, transitions=table,
                initial_state=m.initial_state, blank_symbol=f[m.blank_symbol], final_states=set(m.final_states))


# ------------------------------------------------------------------ hand-written machines
def line_counter(a: str, nl: str, one: str, blank: str) -> MNTM:
    """Two tapes.  Scans the text on tape 1 to its end (first blank), writing one tally `one` on tape 2
    per line break `nl`; then steps tape 2 back and accepts iff it finds a tally.
    Closed form: see `line_counter_accepts`."""
    return MNTM(
        states={"scan", "check", "yes"}, input_symbols={a, nl}, tape_symbols={a, nl, one, blank}, n_tapes=2,
        transitions={
            "scan": {(a, blank): [("scan", ((a, "R"), (blank, "N")))],
                     (nl, blank): [("scan", ((nl, "R"), (one, "R")))],
                     (blank, blank): [("check", ((blank, "N"), (blank, "L")))]},
            "check": {(blank, one): [("yes", ((blank, "N"), (one, "N")))]},
        },
        initial_state="scan", blank_symbol=blank, final_states={"yes"})


def line_counter_accepts(w: str, a: str, nl: str, one: str, blank: str) -> bool:
    text = w.split(blank)[0] if blank in w else w          # the scan stops at the first blank cell
    return all(c in (a, nl) for c in text) and nl in text   # any other symbol: no row, the run is stuck


def copier(s1: str, s2: str, blank: str, n_tapes: int) -> MNTM:
    """2 or 3 tapes.  Copies the input (over {s1, s2}) from tape 1 to every other tape moving right, then
    walks ALL heads back to the left over what was written — every head rests on every symbol of the
    input — demanding equal symbols under all heads, and accepts on the blanks left of the text.
    Closed form: accepts iff the text before the first blank is over {s1, s2}."""
    others = n_tapes - 1
    rows_copy = {}
    rows_back = {}
    for s in (s1, s2):
        rows_copy[(s,) + (blank,) * others] = [("copy", ((s, "R"),) * n_tapes)]
        rows_back[(s,) * n_tapes] = [("back", ((s, "L"),) * n_tapes)]
    rows_copy[(blank,) * n_tapes] = [("back", ((blank, "L"),) * n_tapes)]
    rows_back[(blank,) * n_tapes] = [("done", ((blank, "R"),) * n_tapes)]
    return MNTM(states={"copy", "back", "done"}, input_symbols={s1, s2}, tape_symbols={s1, s2, blank},
                n_tapes=n_tapes, transitions={"copy": rows_copy, "back": rows_back},
                initial_state="copy", blank_symbol=blank, final_states={"done"})


def copier_accepts(w: str, s1: str, s2: str, blank: str) -> bool:
    text = w.split(blank)[0] if blank in w else w
    return all(c in (s1, s2) for c in text)
