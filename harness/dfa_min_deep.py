"""C05, round 7 — DEEP / LARGE sources for minimisation: DFAs (and one NFA) with 1100–3000 states.

The property quantifies over every valid DFA; the other generators of C05 never leave ≤ 14 states, so a `_minify`,
pre-pass, `PartitionRefinement`, `_expand_dfa` or `_bfs_*` that is only right while the automaton is small — a loop
rewritten as recursion (Python's recursion limit: depth ≈ 990), a work-list cut off after N rounds, a cache with a
fixed number of slots, a quadratic copy — passes all of them.  This module describes large sources by a small
JSON-able *spec* from which

  (a) the real object is built through the library's own constructors (`build`), and
  (b) the LANGUAGE is known in closed form (`lang_of`): a membership predicate, the Myhill–Nerode index and the number
      of live classes as NUMBERS computed from the construction parameters, and the canonical minimal automaton as a
      step function — so the result of every minimising call can be judged completely (language by a linear
      bisimulation walk against the canonical automaton, state count, names) without the library's own algorithms
      and without the Lean model (its driver would need minutes at these sizes: nothing is sent to it).

spec kinds (all over syms = ["a", "b"] unless said otherwise)
    of_length        lo, hi (None: unbounded)       DFA.of_length(set(syms), min_length=lo, max_length=hi)
    finite_language  words = [[unit, reps, tail]…]  DFA.from_finite_language(set(syms), {unit*reps+tail, …})
    doubled          n, finals, dead, complete      hand-written: positions 0..n+dead, EVERY position p has the two
                     states 2p and 2p+1 (a: (p,c) → (p+1,c), b: (p,c) → (p+1,1-c)), so every state has an equivalent
                     twin (state 1 is unreachable); final = both states of the positions in `finals` (⊆ 0..n, n ∈ finals);
                     the `dead` positions after n are a chain of dead states; complete: the last position leads to a
                     trap state with self-loops (source declared complete), else the last position has no outgoing
                     transition (source declared partial).   Language: words whose LENGTH is in `finals`.
    cycles           k, c                           k copies of a cycle of c states: state j*c+p, a: → j*c+(p+1)%c,
                     b: → ((j+1)%k)*c+p, final p = 0 (complete).   Language: number of a's ≡ 0 (mod c).
    nfa_doubled      n, finals                      NFA: positions 0..n, two states per position, every symbol leads
                     from both states of p to BOTH states of p+1 (real nondeterminism; subset construction gives one
                     subset per position).   Language: words whose length is in `finals`.

Closed forms
    LenLang(bits, tail): words w with bits[|w|] (|w| < K) / tail (|w| ≥ K), normalised so that bits[K-1] != tail.
        Canonical minimal automaton: states 0..K, i → min(i+1, K) on every symbol.  K+1 classes; live classes: K+1 when
        tail, else K (state K is the dead class).  Closed under complement and the pointwise Boolean operations.
    ModLang(c, neg): number of a's ≡ 0 (mod c) (neg: ≢).  c classes, all live (c ≥ 2).
    FinLang(words, neg): canonical (non-minimal) automaton = the trie; the number of classes is counted from the
        DEFINITION of the residuals (distinct sets {s : p+s ∈ L} over the prefixes p), not by refinement.
"""
from __future__ import annotations

from collections import deque
from typing import List, Optional, Tuple

from automata.fa.dfa import DFA
from automata.fa.nfa import NFA

AB = ["a", "b"]


def short(x) -> str:
    def one(v):
        if isinstance(v, str) and len(v) > 30:
            return f"<word of {len(v)} symbols {v[:6]!r}…{v[-6:]!r}>"
        if isinstance(v, (list, tuple)):
            body = ", ".join(one(e) for e in v[:6]) + (", …" if len(v) > 6 else "")
            return ("[" + body + "]") if isinstance(v, list) else ("(" + body + ")")
        if isinstance(v, (set, frozenset)):
            items = sorted(v, key=repr)
            return "{" + ", ".join(one(e) for e in items[:6]) + (", …" if len(items) > 6 else "") + "}"
        return repr(v)
    return one(x)


# ------------------------------------------------------------------------------------------------ closed forms
class LenLang:
    kind = "length"

    def __init__(self, syms, bits, tail: bool):
        self.syms = sorted(syms)
        bits = [bool(b) for b in bits]
        while bits and bits[-1] == bool(tail):
            bits.pop()
        self.bits, self.tail = bits, bool(tail)
        self.K = len(bits)
        self.init = 0
        self.n_canon = self.K + 1

    def step(self, c, a):
        return c + 1 if c < self.K else c

    def final(self, c) -> bool:
        return self.bits[c] if c < self.K else self.tail

    def member(self, w: str) -> bool:
        return all(x in self.syms for x in w) and (self.bits[len(w)] if len(w) < self.K else self.tail)

    def index(self) -> Tuple[int, int]:
        return self.K + 1, (self.K + 1 if self.tail else self.K)

    def complement(self) -> "LenLang":
        return LenLang(self.syms, [not b for b in self.bits], not self.tail)

    def combine(self, other: "LenLang", f) -> "LenLang":
        K = max(self.K, other.K)
        at = lambda L, i: L.bits[i] if i < L.K else L.tail  # noqa: E731
        return LenLang(self.syms, [f(at(self, i), at(other, i)) for i in range(K)], f(self.tail, other.tail))

    def describe(self) -> str:
        flips = [i for i in range(self.K) if i == 0 or self.bits[i] != self.bits[i - 1]]
        return (f"words over {self.syms} by length: membership changes at lengths {short(flips)} "
                f"(last at {self.K - 1 if self.K else None}), every length ≥ {self.K} is {'in' if self.tail else 'out'}")

    def probe(self, rng) -> List[str]:
        """Words around the thresholds: the lengths at which membership changes (first two, last two, K) and the sizes
        at which implementations typically change behaviour (recursion limit, powers of two), each ± 1."""
        lens = {0, 1, self.K // 2, self.K + 1000}
        flips = [i for i in range(1, self.K) if self.bits[i] != self.bits[i - 1]]
        for i in flips[:2] + flips[-2:] + [self.K, 1000, 1024, 2048]:
            lens |= {max(0, i - 1), i, i + 1}
        out = [self.syms[0] * self.K, self.syms[-1] * max(0, self.K - 1)]
        for n in sorted(lens):
            out.append("".join(rng.choices(self.syms, k=n)))
        return out


class ModLang:
    kind = "count_mod"

    def __init__(self, syms, c: int, neg: bool = False):
        self.syms, self.c, self.neg = sorted(syms), c, neg
        self.init = 0
        self.n_canon = c

    def step(self, q, a):
        return (q + 1) % self.c if a == "a" else q

    def final(self, q) -> bool:
        return (q == 0) != self.neg

    def member(self, w: str) -> bool:
        return all(x in self.syms for x in w) and ((w.count("a") % self.c == 0) != self.neg)

    def index(self) -> Tuple[int, int]:
        if self.c == 1:
            return 1, (0 if self.neg else 1)
        return self.c, self.c

    def complement(self) -> "ModLang":
        return ModLang(self.syms, self.c, not self.neg)

    def describe(self) -> str:
        return f"words over {self.syms} whose number of a's is {'not ' if self.neg else ''}a multiple of {self.c}"

    def probe(self, rng) -> List[str]:
        c = self.c
        out = ["", "b", "a"]
        for n in (c - 1, c, c + 1, 2 * c, 2 * c + 1, 3 * c):
            out.append("a" * n)
            w = list("a" * n + "b" * rng.randint(1, 40))
            rng.shuffle(w)
            out.append("".join(w))
        out.append("b" * 1500)
        out.append("ab" * c)
        return out


class FinLang:
    kind = "finite"

    def __init__(self, syms, words, neg: bool = False):
        self.syms, self.words, self.neg = sorted(syms), sorted(set(words)), neg
        self.wordset = set(self.words)
        self.trie = {"": 0}
        for w in self.words:
            for i in range(1, len(w) + 1):
                self.trie.setdefault(w[:i], len(self.trie))
        self.node = {}                       # (trie node, symbol) → trie node
        self.fin = set()
        for p, i in self.trie.items():
            if p:
                self.node[(self.trie[p[:-1]], p[-1])] = i
            if p in self.wordset:
                self.fin.add(i)
        self.init = 0
        self.n_canon = len(self.trie) + 1
        self._index = None

    def step(self, q, a):
        return self.node.get((q, a), -1) if q != -1 else -1

    def final(self, q) -> bool:
        return (q in self.fin) != self.neg

    def member(self, w: str) -> bool:
        return all(x in self.syms for x in w) and ((w in self.wordset) != self.neg)

    def index(self) -> Tuple[int, int]:
        """Counted from the definition: the distinct residuals {s : p+s ∈ L} over all prefixes p of words of L are
        the live classes of L; every other word has the empty residual (one more class)."""
        if self._index is None:
            res = {frozenset(w[len(p):] for w in self.words if w.startswith(p)) for p in self.trie}
            live = len(res) if self.words else 0
            self._index = (live + 1, (live + 1) if self.neg else live)
        return self._index

    def complement(self) -> "FinLang":
        return FinLang(self.syms, self.words, not self.neg)

    def describe(self) -> str:
        return f"{'all words over ' + str(self.syms) + ' except ' if self.neg else 'exactly '}the words {short(self.words)}"

    def probe(self, rng) -> List[str]:
        out = ["", "a", "b"]
        for w in self.words:
            out += [w, w + self.syms[0], w + self.syms[-1], w[:-1], w[: len(w) // 2]]
            if w:
                i = rng.randrange(len(w))
                o = [a for a in self.syms if a != w[i]]
                if o:
                    out.append(w[:i] + o[0] + w[i + 1:])
                if len(w) > 1001:
                    out.append(w[:999] + ("a" if w[999] != "a" else "b") + w[1000:])
        return out


# ------------------------------------------------------------------------------------------------ specs
def _lenlang_from_finals(finals, syms=AB) -> LenLang:
    top = max(finals) if finals else -1
    fs = set(finals)
    return LenLang(syms, [i in fs for i in range(top + 1)], False)


def lang_of(spec: dict):
    k = spec["kind"]
    syms = spec.get("syms", AB)
    if k == "of_length":
        lo, hi = spec["lo"], spec["hi"]
        if hi is None:
            return LenLang(syms, [False] * lo, True)
        return LenLang(syms, [lo <= i <= hi for i in range(hi + 1)], False)
    if k == "finite_language":
        return FinLang(syms, [u * r + t for u, r, t in spec["words"]])
    if k in ("doubled", "nfa_doubled"):
        return _lenlang_from_finals(spec["finals"], syms)
    if k == "cycles":
        return ModLang(syms, spec["c"])
    raise ValueError(f"unknown deep spec kind {k}")


def build(spec: dict):
    """The real object, through the library's own constructors."""
    k = spec["kind"]
    syms = set(spec.get("syms", AB))
    if k == "of_length":
        return DFA.of_length(syms, min_length=spec["lo"], max_length=spec["hi"])
    if k == "finite_language":
        return DFA.from_finite_language(syms, {u * r + t for u, r, t in spec["words"]})
    if k == "doubled":
        n, dead, complete = spec["n"], spec.get("dead", 0), spec.get("complete", False)
        last = n + dead
        trap = 2 * (last + 1)
        tr = {}
        for p in range(last + 1):
            for c in (0, 1):
                if p < last:
                    tr[2 * p + c] = {"a": 2 * (p + 1) + c, "b": 2 * (p + 1) + 1 - c}
                else:
                    tr[2 * p + c] = {"a": trap, "b": trap} if complete else {}
        if complete:
            tr[trap] = {"a": trap, "b": trap}
        finals = {2 * p + c for p in spec["finals"] for c in (0, 1)}
        return DFA(states=set(tr), input_symbols=syms, transitions=tr, initial_state=0, final_states=finals,
                   allow_partial=not complete)
    if k == "cycles":
        kk, c = spec["k"], spec["c"]
        tr = {j * c + p: {"a": j * c + (p + 1) % c, "b": ((j + 1) % kk) * c + p} for j in range(kk) for p in range(c)}
        return DFA(states=set(tr), input_symbols=syms, transitions=tr, initial_state=0,
                   final_states={j * c for j in range(kk)})
    if k == "nfa_doubled":
        n = spec["n"]
        tr = {}
        for p in range(n + 1):
            for c in (0, 1):
                tr[2 * p + c] = {a: {2 * (p + 1), 2 * (p + 1) + 1} for a in sorted(syms)} if p < n else {}
        return NFA(states=set(tr), input_symbols=syms, transitions=tr, initial_state=0,
                   final_states={2 * p + c for p in spec["finals"] for c in (0, 1)})
    raise ValueError(f"unknown deep spec kind {k}")


def n_states(spec: dict) -> int:
    k = spec["kind"]
    if k == "of_length":
        return (spec["hi"] if spec["hi"] is not None else spec["lo"]) + 2
    if k == "finite_language":
        return 1 + sum(len(u) * r + len(t) for u, r, t in spec["words"])
    if k == "doubled":
        return 2 * (spec["n"] + spec.get("dead", 0) + 1) + (1 if spec.get("complete") else 0)
    if k == "cycles":
        return spec["k"] * spec["c"]
    return 2 * (spec["n"] + 1)


def expr(spec: dict) -> str:
    k = spec["kind"]
    al = "{" + ",".join(repr(a) for a in sorted(spec.get("syms", AB))) + "}"
    if k == "of_length":
        return f"DFA.of_length({al}, min_length={spec['lo']}, max_length={spec['hi']})"
    if k == "finite_language":
        ws = ", ".join((f"{u!r}*{r}" + (f"+{t!r}" if t else "")) if r != 1 else repr(u + t) for u, r, t in spec["words"])
        return f"DFA.from_finite_language({al}, {{{ws}}})"
    if k == "doubled":
        return (f"{'complete' if spec.get('complete') else 'partial'} DFA over {al} with two equivalent states 2p, 2p+1 per position "
                f"p = 0..{spec['n'] + spec.get('dead', 0)} (a: (p,c)->(p+1,c), b: (p,c)->(p+1,1-c)), final positions {short(list(spec['finals']))}"
                + (f", positions {spec['n'] + 1}..{spec['n'] + spec['dead']} a chain of dead states" if spec.get("dead") else "")
                + (", last position -> trap with self-loops" if spec.get("complete") else ""))
    if k == "cycles":
        return (f"complete DFA over {al}: {spec['k']} copies of a cycle of {spec['c']} states (a: next state of the cycle, b: same position in "
                f"the next copy), final = position 0 of every copy")
    return (f"NFA over {al} with two states per position p = 0..{spec['n']}, every symbol leads from both states of p to BOTH states of p+1, "
            f"final positions {short(list(spec['finals']))}")


def expected_names(spec: dict, op: str):
    """EXACT retained names of minify / to_partial / complement(retain_names=True) of the source, in closed form
    (None: not determined by the construction alone — e.g. the trap name chosen by to_complete)."""
    k = spec["kind"]
    if k == "doubled":
        n, dead, complete = spec["n"], spec.get("dead", 0), spec.get("complete", False)
        top = max(spec["finals"])
        live = {frozenset({0})} | {frozenset({2 * p, 2 * p + 1}) for p in range(1, top + 1)}
        deadcls = frozenset({2 * p + c for p in range(top + 1, n + dead + 1) for c in (0, 1)} | {2 * (n + dead + 1)})
        if op == "to_partial" or (op == "minify" and not complete):
            return live
        if op in ("minify", "complement") and complete:
            return live | {deadcls}
        return None
    if k == "cycles":
        kk, c = spec["k"], spec["c"]
        return {frozenset(j * c + p for j in range(kk)) for p in range(c)}
    if k == "nfa_doubled" and op == "from_nfa":
        top = max(spec["finals"])
        # states of the un-minified retained subset construction: one subset per position (and the empty subset,
        # which is the dead class and is dropped from a partial result)
        return {frozenset({frozenset({0})})} | {frozenset({frozenset({2 * p, 2 * p + 1})}) for p in range(1, top + 1)}
    return None


def shrink(spec: dict, rng) -> dict:
    """The same shape at ≤ 12 states (the small twin that the brute-force oracles can judge)."""
    s = dict(spec)
    k = spec["kind"]
    if k == "of_length":
        if spec["hi"] is None:
            s["lo"] = rng.randint(1, 5)
        else:
            width = min(spec["hi"] - spec["lo"], 3)
            s["hi"] = rng.randint(max(1, width), 6)
            s["lo"] = s["hi"] - width
    elif k == "finite_language":
        s["words"] = [[u, min(r, rng.randint(1, 3)), t] for u, r, t in spec["words"]]
    elif k in ("doubled", "nfa_doubled"):
        n = rng.randint(2, 4)
        fs = sorted({n} | {p * n // spec["n"] for p in spec["finals"] if rng.random() < 0.5})
        s["n"], s["finals"] = n, fs
        if k == "doubled":
            s["dead"] = min(spec.get("dead", 0), rng.randint(1, 2))
    elif k == "cycles":
        s["k"], s["c"] = rng.randint(2, 3), rng.randint(2, 4)
    return s


# ------------------------------------------------------------------------------------------------ judging
def table_of(d) -> Tuple[dict, object, set]:
    return d.transitions, d.initial_state, set(d.final_states)


PAIR_CAP = 400000


def bisim_counterexample(d, lang) -> Optional[str]:
    """None when the transition table of the DFA `d` (read from its public attributes; a missing transition = sink)
    accepts exactly `lang`; else a word on which they differ (the shortest one).  Breadth-first walk over the
    reachable pairs (state of d, state of the canonical automaton of `lang`): the languages are equal iff no
    reachable pair disagrees on finality.  Equal languages give at most |d| + |canonical| + 2 pairs (linear); the walk
    is cut off after PAIR_CAP pairs, which only unequal languages can reach — the word of the last pair is returned."""
    trans, init, fin = table_of(d)
    SINK = ("<sink>",)
    start = (init, lang.init)
    parent = {start: None}
    queue = deque([start])

    def word_to(pair) -> str:
        out = []
        while parent[pair] is not None:
            pair, a = parent[pair]
            out.append(a)
        return "".join(reversed(out))

    while queue:
        pair = queue.popleft()
        q, c = pair
        if ((q is not SINK) and q in fin) != lang.final(c):
            return word_to(pair)
        for a in lang.syms:
            t = SINK if q is SINK else trans.get(q, {}).get(a, SINK)
            nxt = (t, lang.step(c, a))
            if nxt not in parent:
                parent[nxt] = (pair, a)
                queue.append(nxt)
        if len(parent) > PAIR_CAP:
            return word_to(pair)
    return None


def dead_state_count(d) -> int:
    """Number of states of d from which no final state is reachable (linear: reverse BFS from the final states)."""
    trans, _, fin = table_of(d)
    rev = {}
    for q, row in trans.items():
        for t in row.values():
            rev.setdefault(t, []).append(q)
    live = set(fin)
    work = list(fin)
    while work:
        t = work.pop()
        for q in rev.get(t, ()):
            if q not in live:
                live.add(q)
                work.append(q)
    return len(set(d.states) - live)
