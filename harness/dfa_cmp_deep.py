"""C06, round 7 — DEEP / LARGE operands for the comparisons, isempty and isfinite: DFAs with 1100–3000 states
(chains, chains ending in live or dead cycles, counters mod m with m in the thousands, DFA.of_length /
DFA.from_finite_language / DFA.count_mod operands) described by a small JSON-able *spec* from which (a) the real
DFA is built through the library's own constructors and (b) the language is known in CLOSED FORM, so that every
C06 answer — the nine comparisons of a PAIR of such languages, emptiness, finiteness — follows from the
construction parameters by integer arithmetic, with neither the library nor the Lean model involved (the model's
drivers would need minutes on these sizes; nothing is sent to them).

spec kinds (all over a common alphabet `syms`)
    of_length        lo, hi (None = no upper bound: a chain that ends in a self-loop)
                     DFA.of_length(set(syms), min_length=lo, max_length=hi)
    count_mod        m, rem — DFA.count_mod(set(syms), m, remainders=set(rem)) (every symbol counted)
    finite_language  words = [[unit, reps, tail], …]   (word = unit*reps + tail)
                     DFA.from_finite_language(set(syms), {…})
    chain            n, pat, finals, back, flip, names — hand-written PARTIAL DFA on the states 0..n:
                     pat = None: EVERY symbol leads from p to p+1 (the language depends on the length only);
                     pat = "ab…": ONE edge out of p, labelled pat[p % len(pat)] (flip = [d, s]: the edge out of
                     state d is labelled s instead) — the language is a set of prefixes of one infinite word;
                     finals ⊆ {0..n}; back = t: the edge(s) out of n lead to t (a cycle of n-t+1 states at the end
                     of the chain; back = 0: a counter mod n+1), back = None: state n has no outgoing edge;
                     names = "int" | "str" (state names 0..n or "q0".."qn").

Closed form (class CmpLang).  Every language of the family is ⋃_k W_k with W_k ⊆ Σ^k one of: nothing, ALL of Σ^k,
or an explicit set of ≤ a few words; the sequence (W_k) is ultimately periodic: beyond the preperiod T (number of
states on the chain / longest word + 1) it repeats with period p (length of the final cycle / the modulus; no p =
finite language).  Two such languages are compared slice by slice on k < max(T_A, T_B) + lcm(p_A, p_B) + 1 — a
complete decision (two ultimately periodic sequences that agree on one joint period beyond both preperiods agree
for ever), a few thousand integer operations.  `selfcheck_words` gives boundary words whose closed-form membership
is compared with the real accepts_input of the automaton that was actually built.
"""
from __future__ import annotations

import math
from typing import List, Optional, Tuple

from automata.fa.dfa import DFA

ALL = "ALL"
NAMES = ["==", "!=", "<=", "<", ">=", ">", "issubset", "issuperset", "isdisjoint"]
HORIZON_LIMIT = 400000


class CmpLang:
    def __init__(self, spec: dict):
        self.spec = spec
        self.kind = spec["kind"]
        self.syms = sorted(spec["syms"])
        s = spec
        if self.kind == "of_length":
            self.T = (s["hi"] + 1) if s["hi"] is not None else s["lo"]
            self.p = None if s["hi"] is not None else 1
        elif self.kind == "count_mod":
            self.T, self.p = 0, s["m"]
        elif self.kind == "finite_language":
            self.wordset = {u * r + t for u, r, t in s["words"]}
            self.by_len = {}
            for w in self.wordset:
                self.by_len.setdefault(len(w), set()).add(w)
            self.T, self.p = max((len(w) for w in self.wordset), default=-1) + 1, None
        elif self.kind == "chain":
            self.n, self.t = s["n"], s["back"]
            self.c = (self.n - self.t + 1) if self.t is not None else None
            self.fin = set(s["finals"])
            self.T, self.p = self.n + 1, self.c
            self._U = ""
        else:
            raise ValueError(f"unknown deep spec kind {self.kind}")

    # ------------------------------------------------------------------ the real object
    def build(self) -> DFA:
        s = self.spec
        al = set(s["syms"])
        if self.kind == "of_length":
            return DFA.of_length(al, min_length=s["lo"], max_length=s["hi"])
        if self.kind == "count_mod":
            return DFA.count_mod(al, s["m"], remainders=set(s["rem"]))
        if self.kind == "finite_language":
            return DFA.from_finite_language(al, set(self.wordset))
        n = s["n"]
        nm = (lambda i: i) if s.get("names", "int") == "int" else (lambda i: f"q{i}")
        trans = {}
        for p in range(n + 1):
            tgt = p + 1 if p < n else s["back"]
            if tgt is None:
                trans[nm(p)] = {}
            elif s["pat"] is None:
                trans[nm(p)] = {a: nm(tgt) for a in self.syms}
            else:
                trans[nm(p)] = {self._label(p): nm(tgt)}
        return DFA(states={nm(p) for p in range(n + 1)}, input_symbols=al, transitions=trans, initial_state=nm(0),
                   final_states={nm(p) for p in s["finals"]}, allow_partial=True)

    def expr(self) -> str:
        s = self.spec
        al = "{" + ",".join(repr(a) for a in self.syms) + "}"
        if self.kind == "of_length":
            return f"DFA.of_length({al}, min_length={s['lo']}, max_length={s['hi']})"
        if self.kind == "count_mod":
            return f"DFA.count_mod({al}, {s['m']}, remainders={set(s['rem'])})"
        if self.kind == "finite_language":
            ws = ", ".join((f"{u!r}*{r}" + (f"+{t!r}" if t else "")) if r != 1 else repr(u + t) for u, r, t in s["words"])
            return f"DFA.from_finite_language({al}, {{{ws}}})"
        fin = s["finals"] if len(s["finals"]) <= 6 else f"{s['finals'][:3]}…{s['finals'][-2:]} ({len(s['finals'])} states)"
        edges = "every symbol leads from p to p+1" if s["pat"] is None else \
            (f"one edge p -> p+1 labelled {s['pat']!r}[p % {len(s['pat'])}]"
             + (f" (but the edge out of {s['flip'][0]} is labelled {s['flip'][1]!r})" if s.get("flip") else ""))
        tail = "state n has no outgoing edge" if s["back"] is None else \
            f"n leads back to {s['back']} (cycle of {s['n'] - s['back'] + 1} states)"
        return f"partial DFA over {al} on the chain 0..n, n = {s['n']}: {edges}; {tail}; final states {fin}"

    def n_states_expected(self) -> int:
        """Lower bound on the number of states on one simple path of the automaton."""
        s = self.spec
        if self.kind == "of_length":
            return (s["hi"] if s["hi"] is not None else s["lo"]) + 1
        if self.kind == "count_mod":
            return s["m"]
        if self.kind == "finite_language":
            return self.T
        return s["n"] + 1

    # ------------------------------------------------------------------ chain arithmetic
    def _label(self, p: int) -> str:
        s = self.spec
        if s.get("flip") and s["flip"][0] == p:
            return s["flip"][1]
        return s["pat"][p % len(s["pat"])]

    def _pos(self, k: int) -> Optional[int]:
        if k <= self.n:
            return k
        if self.t is None:
            return None
        return self.t + (k - self.t) % self.c

    def _spine(self, k: int) -> str:
        """The first k symbols of the one word the chain spells (only asked for lengths the chain can read)."""
        if len(self._U) < k:
            need = max(k, 2 * len(self._U), 64)
            if self.t is None:
                need = min(need, self.n)
            self._U = "".join(self._label(self._pos(i)) for i in range(need))
        return self._U[:k]

    # ------------------------------------------------------------------ slices
    def slice(self, k: int):
        """W_k: None (no word of length k), ALL (every word of length k over syms) or a frozenset of words."""
        s = self.spec
        if self.kind == "of_length":
            return ALL if s["lo"] <= k and (s["hi"] is None or k <= s["hi"]) else None
        if self.kind == "count_mod":
            return ALL if k % s["m"] in s["rem"] else None
        if self.kind == "finite_language":
            ws = self.by_len.get(k)
            return frozenset(ws) if ws else None
        p = self._pos(k)
        if p is None or p not in self.fin:
            return None
        return ALL if s["pat"] is None else frozenset({self._spine(k)})

    def member(self, w: str) -> bool:
        if any(a not in self.syms for a in w):
            return False
        sl = self.slice(len(w))
        return sl is not None and (sl == ALL or w in sl)

    def empty(self) -> bool:
        return all(self.slice(k) is None for k in range(self.T + (self.p or 0) + 1))

    def finite(self) -> bool:
        if self.p is None:
            return True
        return all(self.slice(k) is None for k in range(self.T, self.T + self.p))

    def shape_name(self) -> str:
        return "empty" if self.empty() else ("finite" if self.finite() else "infinite")

    def first_length(self) -> Optional[int]:
        for k in range(self.T + (self.p or 0) + 1):
            if self.slice(k) is not None:
                return k
        return None

    # ------------------------------------------------------------------ tie the closed form to the object built
    def selfcheck_words(self, rng, partner: "CmpLang" = None) -> List[str]:
        """Boundary words: around the first accepted length, around the preperiod T, one period further, and the
        partner's boundaries (so that the depth at which the pair differs is looked at on both automata); for each
        length a word of the slice (when there is one), an arbitrary word, and one with the last symbol changed."""
        ks = set()
        for lang in (self, partner) if partner is not None else (self,):
            f = lang.first_length()
            for b in (0, f, lang.T - 1, lang.T, lang.T + (lang.p or 0) - 1, lang.T + (lang.p or 0)):
                if b is not None:
                    ks.update(k for k in (b - 1, b, b + 1) if 0 <= k <= 40000)
        out, seen = [], set()

        def add(w):
            if w not in seen:
                seen.add(w)
                out.append(w)
        for k in sorted(ks):
            sl = self.slice(k)
            cands = [self.syms[0] * k, "".join(rng.choice(self.syms) for _ in range(k))]
            if sl is not None and sl != ALL:
                cands = sorted(sl)[:2] + cands[:1]
            for w in cands:
                add(w)
                if w and len(self.syms) > 1:
                    add(w[:-1] + rng.choice([a for a in self.syms if a != w[-1]]))
        return out


def _rel(sa, sb, n_syms: int, k: int) -> Tuple[bool, bool, bool]:
    """(W_k(A) ⊆ W_k(B), W_k(B) ⊆ W_k(A), W_k(A) ∩ W_k(B) = ∅) for two slices over the same alphabet."""
    if sa is None:
        return True, sb is None, True
    if sb is None:
        return False, True, True
    if sa == ALL and sb == ALL:
        return True, True, False
    if sa == ALL:
        return len(sb) == n_syms ** k, True, False
    if sb == ALL:
        return True, len(sa) == n_syms ** k, False
    return sa <= sb, sb <= sa, not (sa & sb)


def horizon(A: CmpLang, B: CmpLang) -> int:
    return max(A.T, B.T) + math.lcm(A.p or 1, B.p or 1) + 1


def compare(A: CmpLang, B: CmpLang):
    """The nine answers dictated by the two languages, in the order of NAMES, and for each of ⊆, ⊇, disjoint the
    first length at which it fails (None when it holds)."""
    if A.syms != B.syms:
        raise ValueError("deep pair over two alphabets")
    N = horizon(A, B)
    if N > HORIZON_LIMIT:
        raise ValueError(f"deep pair with a joint horizon of {N} lengths")
    first = {"le": None, "ge": None, "dj": None}
    ns = len(A.syms)
    for k in range(N):
        sa, sb = A.slice(k), B.slice(k)
        if sa is None and sb is None:
            continue
        le, ge, dj = _rel(sa, sb, ns, k)
        if not le and first["le"] is None:
            first["le"] = k
        if not ge and first["ge"] is None:
            first["ge"] = k
        if not dj and first["dj"] is None:
            first["dj"] = k
        if None not in first.values():
            break
    le, ge, dj = first["le"] is None, first["ge"] is None, first["dj"] is None
    eq = le and ge
    return [eq, not eq, le, le and not eq, ge, ge and not eq, le, ge, dj], first


def relation_name(v) -> str:
    return "equal" if v[0] else ("strict_subset" if v[3] else ("strict_superset" if v[5] else
                                                                ("disjoint" if v[8] else "overlapping")))


def first_difference(A: CmpLang, B: CmpLang) -> Optional[int]:
    """Shortest length of a word in the symmetric difference (None: equal languages)."""
    _, first = compare(A, B)
    ds = [k for k in (first["le"], first["ge"]) if k is not None]
    return min(ds) if ds else None
