"""Entry point of one property check (executed by check.py under /venv/bin/python).

    python -m harness.run Cxx --tier quick|thorough [--replay file]

Exit codes: 0 held; 1 + "VIOLATION property=<id> replay=<path>[ no-failing-input-found]";
2 infrastructure error (no VIOLATION line).
"""
from __future__ import annotations

import argparse
import hashlib
import importlib
import json
import os
import sys
import time
import traceback

from harness import build
from harness.common import VERIF, Ctx, InfraError, jsonable

TRUSTED_BASE = [
    "Lean 4.33.0 kernel (thorough tier: leanchecker re-check of the property module)",
    "Mathlib v4.33.0 as a library of checked theorems",
    "axioms allowed per theorem: propext, Classical.choice, Quot.sound (audited by #print axioms on every run); no sorry/admit/native_decide/bv_decide/implemented_by/unsafe/own axioms (grep on every run)",
    "harness/extract_tables.py (regenerated tables) and the correspondence harness + Lean driver (parsing, canonicalisation, isomorphism search)",
    "modelled, not verified: CPython containers/str/generators/pickle, frozendict, networkx (BFS, UnionFind, dag_longest_path_length), cached_method, random, itertools, re, copy",
    "the hand-written model is tied to /repo by the differential correspondence run reported in this file (sampled + bounded-exhaustive, not a proof)",
]


def load_known(prop: str):
    path = os.path.join(VERIF, "known_findings.json")
    try:
        data = json.load(open(path))
    except FileNotFoundError:
        return []
    return [f for f in data.get("findings", []) if f.get("property") == prop and f.get("status", "open") == "open"]


def changed_functions(prop: str):
    cur = json.load(open(os.path.join(VERIF, "build", "fingerprints.json")))
    base = json.load(open(os.path.join(VERIF, "harness", "fingerprints_baseline.json")))
    files = []
    for l in open(os.path.join(VERIF, "properties.jsonl")):
        p = json.loads(l)
        if p["id"] == prop:
            files = p["anchors"]["files"]
    def strip(d):
        # key = file:function (line numbers move when code above changes)
        out = {}
        for k, v in d.items():
            f, name, _ = k.rsplit(":", 2)
            out.setdefault((f, name), set()).add(v)
        return out
    c, b = strip(cur), strip(base)
    return sorted(f"{f}:{n}" for (f, n) in set(c) | set(b) if f in files and c.get((f, n)) != b.get((f, n)))


def write_replay(prop: str, payload: dict) -> str:
    d = os.path.join(VERIF, "replays", prop)
    os.makedirs(d, exist_ok=True)
    h = hashlib.sha256(json.dumps(payload, sort_keys=True, default=repr).encode()).hexdigest()[:12]
    path = os.path.join(d, f"{h}.json")
    with open(path, "w") as f:
        json.dump(jsonable(payload), f, indent=1, sort_keys=True)
    return os.path.relpath(path, VERIF)


def write_evidence(ctx: Ctx, binfo, mod, violations: int, extra: dict):
    level = getattr(mod, "LEVEL", "proof")
    cov = dict(
        obligations=len(binfo.obligations),
        discharged=len(binfo.discharged),
        checker_cmd=binfo.checker_cmd or "lake build && #print axioms",
        trusted_base=TRUSTED_BASE + list(getattr(mod, "TRUSTED_EXTRA", [])),
        evaluations=ctx.evaluations,
        distinct_nontrivial=len(ctx.distinct),
        rule=getattr(mod, "RULE", ctx.rule),
        samples=ctx.samples[: ctx.MAX_SAMPLES],
        exhaustive=bool(ctx.exhaustive_parts) and getattr(mod, "FULLY_EXHAUSTIVE", False),
        exhaustive_subdomains=ctx.exhaustive_parts,
        traces_validated_against_impl=ctx.evaluations,
        theorems=[dict(name=o["name"], statement=o.get("statement", ""), axioms=binfo.axioms.get(o["name"]))
                  for o in binfo.obligations],
        partial_obligations=binfo.partial,
        broken_obligations=binfo.broken,
        correspondence=dict(differences=ctx.n_corr_diffs, first=ctx.corr_diffs[:3],
                            driver_requests=sum(d.requests for d in ctx.drivers.values())),
        property_failures_on_real_code=ctx.n_prop_fails,
        generator_distribution=dict(sorted(ctx.stats.items())),
        generated_tables_changed=binfo.generated_changed,
        leanchecker=binfo.leanchecker,
        explanation=getattr(mod, "EXPLANATION", ""),
        notes=ctx.notes,
    )
    cov.update(extra)
    ev = dict(
        property_id=ctx.prop, tier=ctx.tier, seed=ctx.seed, level=level, coverage=cov,
        assumptions=list(getattr(mod, "ASSUMPTIONS", [])),
        wall_s=round(time.time() - ctx.t0, 2), violations=violations,
    )
    # evidence/ describes runs against /repo itself only; a run against another tree
    # (VERIF_REPO=<scratch copy>: seeded changes, controls) writes to build/evidence-other/
    ev_dir = os.path.join(VERIF, "evidence") if os.path.realpath(os.environ.get("VERIF_REPO", "/repo")) == "/repo" \
        else os.path.join(VERIF, "build", "evidence-other")
    os.makedirs(ev_dir, exist_ok=True)
    with open(os.path.join(ev_dir, f"{ctx.prop}.json"), "w") as f:
        json.dump(jsonable(ev), f, indent=1)


def main(argv=None) -> int:
    ap = argparse.ArgumentParser()
    ap.add_argument("prop")
    ap.add_argument("--tier", default=os.environ.get("VERIF_TIER", "quick"), choices=["quick", "thorough"])
    ap.add_argument("--replay", default=None)
    ap.add_argument("--no-build", action="store_true")
    args = ap.parse_args(argv)
    seed = int(os.environ.get("VERIF_SEED", "0") or 0)
    prop = args.prop
    ctx = Ctx(prop, args.tier, seed)
    try:
        mod = importlib.import_module(f"harness.ops.{prop}")
    except ModuleNotFoundError as e:
        print(f"INFRA: no ops module for {prop}: {e}")
        return 2
    # last resort against a hang (library code that no longer terminates outside `common.call`, a dead
    # driver): an infrastructure failure (exit 2, no VIOLATION line) instead of running forever
    import threading
    limit = float(os.environ.get("VERIF_RUN_LIMIT_S", "2400" if args.tier == "quick" else "21600"))

    def _give_up():
        print(f"INFRA: run exceeded {limit:.0f} s (VERIF_RUN_LIMIT_S); no verdict", flush=True)
        os._exit(2)
    _t = threading.Timer(limit, _give_up)
    _t.daemon = True
    _t.start()
    try:
        binfo = build.ensure_built(prop, args.tier)
    except (build.InfraError, Exception) as e:  # noqa: BLE001
        print(f"INFRA: build failed: {e}")
        traceback.print_exc()
        return 2
    # address-space limit for this process (set after the Lean build, whose tools map gigabytes of .olean files; inherited by
    # the small driver executables): on a changed tree a query may try to materialise an
    # astronomically large answer; a MemoryError inside the case is an observable, an OOM kill is not
    try:
        import resource
        gb = float(os.environ.get("VERIF_MEM_LIMIT_GB", "12"))
        if gb > 0:
            resource.setrlimit(resource.RLIMIT_AS, (int(gb * 2 ** 30), int(gb * 2 ** 30)))
    except Exception:  # noqa: BLE001
        pass
    # functions of the anchored files whose normalised AST differs from the committed baseline:
    # not an alarm, only a reason to look harder (budget ×3 for this run)
    try:
        changed = changed_functions(prop)
        if changed:
            ctx.scale = 3.0
            ctx.note(f"{len(changed)} function(s) of the anchored files differ from the fingerprint baseline "
                     f"({', '.join(changed[:6])}{' …' if len(changed) > 6 else ''}): case budget ×3")
    except Exception:  # noqa: BLE001
        pass
    try:
        if args.replay:
            return mod.replay(ctx, args.replay)
        try:
            mod.run(ctx)
        except InfraError:
            raise
        except Exception as e:  # noqa: BLE001 - harness code choked on what the real code returned
            tb = traceback.format_exc().strip().splitlines()[-8:]
            ctx.corr_diff("harness-exception:run", dict(note="the run was cut short"), f"{type(e).__name__}: {e}", tb)
        # obligations / correspondence broken and no concrete failing input yet: deepen
        broken = bool(binfo.broken) or ctx.n_corr_diffs > 0
        known = load_known(prop)
        known_keys = {k["key"] for k in known}
        unknown = [f for f in ctx.prop_fails if f["key"] not in known_keys]
        if broken and not unknown and hasattr(mod, "search"):
            try:
                mod.search(ctx)
            except InfraError:
                raise
            except Exception as e:  # noqa: BLE001 - the deeper search choked on what the real code returned
                tb = traceback.format_exc().strip().splitlines()[-8:]
                ctx.corr_diff("harness-exception:search", dict(note="the failing-input search was cut short"),
                              f"{type(e).__name__}: {e}", tb)
            unknown = [f for f in ctx.prop_fails if f["key"] not in known_keys]
    except InfraError as e:
        print(f"INFRA: {e}")
        return 2
    except Exception as e:  # noqa: BLE001
        print(f"INFRA: harness crashed: {type(e).__name__}: {e}")
        traceback.print_exc()
        return 2
    finally:
        for d in ctx.drivers.values():
            d.close()

    # known findings still reproducing
    hit_keys = {f["key"] for f in ctx.prop_fails if f["key"] in known_keys}
    for k in known:
        if k["key"] in hit_keys:
            print(f"KNOWN-FINDING: property={prop} {k['what']}")

    rc = 0
    extra = {}
    if unknown:
        unknown.sort(key=lambda f: len(json.dumps(f["replay"], default=repr)))
        first = unknown[0]
        path = write_replay(prop, dict(property=prop, kind="failing-input", what=first["what"],
                                       replay=first["replay"], seed=seed, tier=args.tier,
                                       other_failures=len(unknown) - 1))
        print(f"VIOLATION property={prop} replay={path}")
        print(f"  {first['what']}")
        rc = 1
    elif broken:
        payload = dict(property=prop, kind="no-failing-input-found", seed=seed, tier=args.tier,
                       broken_obligations=binfo.broken,
                       correspondence_differences=ctx.corr_diffs,
                       note="the theorem(s)/correspondence named here no longer check; the search over "
                            "the model and the implementation found no input on which the property fails")
        path = write_replay(prop, payload)
        print(f"VIOLATION property={prop} replay={path} no-failing-input-found")
        for b in binfo.broken[:3]:
            print(f"  broken obligation {b['name']}: {b['reason'][:300]}")
        for c in ctx.corr_diffs[:2]:
            print(f"  correspondence differs: {c['op']} case={json.dumps(c['case'], default=repr)[:300]}")
        rc = 1
    write_evidence(ctx, binfo, mod, violations=(1 if rc else 0), extra=extra)
    if rc == 0:
        print(f"OK property={prop} tier={args.tier} seed={seed} evaluations={ctx.evaluations} "
              f"distinct_nontrivial={len(ctx.distinct)} obligations={len(binfo.discharged)}/{len(binfo.obligations)} "
              f"wall={time.time() - ctx.t0:.1f}s")
    return rc


if __name__ == "__main__":
    sys.exit(main())
