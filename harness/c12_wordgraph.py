"""C12 — generator family `wordgraph`: series-parallel sources built from WORDS, not from random edges.

The property quantifies over all valid DFAs / NFAs.  Random small automata and from_regex round trips give
`to_regex` almost only labels that are single symbols or two-way unions at the moment they are combined, so the
string rules of the state elimination are hardly ever run on an operand that is ALREADY COMPOSITE: a
concatenation of several factors (`ab`, `e(a|b|c)d`), a bracketed union with three or more alternatives, a
label that textually contains another label of the same automaton.  Whether such an operand is bracketed
correctly next to `|`, `?` and `*` decides the language of the result.

A source of this family is a graph of a few HUB states (a chain H0 → H1 → … plus accepting leaf hubs) joined by
several parallel PATHS; a path spells a word of length 0–3:
  * length 0 = an empty-string by-pass, split over 0, 1 or 2 intermediate λ-states (NFA only),
  * length 1 = a direct edge; a `bundle` is 3–4 parallel one-symbol paths (→ `(a|b|c)` inside a concatenation),
  * length 2–3 = a chain through fresh intermediate states; paths that leave the same hub may share their
    prefix (a trie), a λ-step may be inserted inside a word (NFA only),
  * skip paths (Hi → Hj, j ≥ i+2, or into an accepting leaf) and back / loop paths (→ stars around composites),
  * the words of one source come from a small per-source pool, so the same word re-occurs on different paths
    and as a piece of a longer one (true and merely textual duplicates of an alternative).
A DFA source is the deterministic reading of the same graph: per hub the words form a trie (paths that would make
it non-deterministic are dropped), i.e. a partial DFA shaped like a trie / DAG of words with shared middles (the
hubs) and several accepting leaves.

`_find_min_connected_node` breaks ties by the iteration order of a set of state names, so the state names decide
the elimination order: names are hash-seed independent (ints, tuples of ints) and PERMUTED, so that for one and
the same shape every order among states of equal degree occurs (inner states of a long path before or after the
state of a by-pass, hubs first or last).

Everything here is generation only; the verdict is the ordinary C12 oracle of harness/ops/C12.py.
"""
from __future__ import annotations

from typing import Any, Dict, List, Optional, Tuple

from automata.fa.dfa import DFA
from automata.fa.nfa import NFA

WG_ALPHABETS = [("a", "b"), ("a", "b", "c"), ("a", "b", "c", "d"), ("a", "b", "c", "d", "e"),
                ("0", "1", "2"), ("a", ",", "-", "7"), ("x", "y", "é", "𝒳")]

MAX_STATES = 9


def _word(rng, sy, lens) -> str:
    return "".join(rng.choice(sy) for _ in range(rng.choice(lens)))


def wordgraph_spec(rng, as_dfa: bool) -> dict:
    """Hubs and paths (src_hub, word, dst_hub, lam) — lam = number of λ-states (word == "") or the position of
    an inserted λ-step (0 … len(word), NFA) or None."""
    sy = list(rng.choice(WG_ALPHABETS))
    n_chain = rng.choice([2, 3, 3, 3, 4])
    n_leaf = rng.choice([0, 1, 1, 1, 2])
    chain = list(range(n_chain))
    leaves = list(range(n_chain, n_chain + n_leaf))
    # per-source pool of words that re-occur on several paths
    pool = [_word(rng, sy, [1, 1, 2, 2, 3]) for _ in range(rng.randint(2, 4))]

    def word(lens, echo=0.25):
        r = rng.random()
        if r < echo and paths:                              # an echo: the word of another path of this source
            w = rng.choice(paths)[1]
            if w:
                return w
        if r < max(0.6, echo):
            w = rng.choice(pool)
            if rng.random() < 0.3 and len(w) > 1:          # a piece of a pool word
                i = rng.randrange(len(w))
                w = w[i:i + rng.randint(1, 2)]
            return w
        return _word(rng, sy, lens)

    paths: List[Tuple[int, str, int, Optional[int]]] = []
    shape: List[str] = []

    def lam_path(src, dst):
        k = rng.choice([0, 1, 1, 2, 2])
        paths.append((src, "", dst, k))
        shape.append(f"lambda_bypass_over_{k}_states")

    for i in range(n_chain - 1):
        src, dst = chain[i], chain[i + 1]
        if rng.random() < 0.45 and len(sy) >= 3:
            k = rng.randint(3, min(4, len(sy)))
            alts = rng.sample(sy, k)
            for a in alts:
                paths.append((src, a, dst, None))
            pool.extend(alts)                               # the alternatives re-occur as words of other paths
            shape.append(f"bundle_of_{k}_symbols")
            extra = rng.choice([0, 0, 1])
        else:
            paths.append((src, word([1, 1, 2, 3]), dst, None))
            extra = rng.choice([0, 1, 1, 2])
        for _ in range(extra):
            if not as_dfa and rng.random() < 0.45:
                lam_path(src, dst)
            else:
                paths.append((src, word([1, 1, 2, 3]), dst, None))
    # skip paths (by-passes of a multi-hub stretch) and paths into accepting leaves
    for _ in range(rng.choice([0, 1, 1, 2])):
        if n_chain >= 3 and rng.random() < 0.8:
            i = rng.randrange(n_chain - 2)
            j = rng.randrange(i + 2, n_chain)
            if not as_dfa and rng.random() < 0.5:
                lam_path(chain[i], chain[j])
            else:
                paths.append((chain[i], word([1, 1, 2], echo=0.5), chain[j], rng.choice([None, None, 0, 1])
                              if not as_dfa else None))
            shape.append("skip_path")
    for lf in leaves:
        for _ in range(rng.choice([1, 1, 2])):
            r = rng.random()
            src = chain[0] if r < 0.45 else rng.choice(chain[:-1]) if r < 0.85 else chain[-1]
            if not as_dfa and rng.random() < 0.2:
                lam_path(src, lf)
            else:
                paths.append((src, word([1, 1, 1, 2, 3], echo=0.5), lf, None))
        shape.append("accepting_leaf")
    # back / loop paths: stars around composite labels
    if rng.random() < 0.35:
        j = rng.randrange(n_chain)
        i = rng.randrange(j + 1)
        if not as_dfa and rng.random() < 0.3 and i != j:
            lam_path(chain[j], chain[i])
        else:
            paths.append((chain[j], word([1, 2, 2, 3]), chain[i], None))
        shape.append("loop_path" if i == j else "back_path")
    # a λ-step before, inside or after a word (NFA): the path a·b becomes a·λ·b, the by-pass b becomes λ·b
    if not as_dfa:
        for k, (s, w, d, lam) in enumerate(paths):
            if len(w) >= 1 and lam is None and rng.random() < 0.15:
                paths[k] = (s, w, d, rng.randrange(0, len(w) + 1))
                shape.append("lambda_step_in_word")
    finals = {chain[-1]} | set(leaves) | {h for h in chain if rng.random() < 0.15}
    if leaves and rng.random() < 0.3:
        finals.discard(chain[-1])
    return dict(sy=sy, n_hubs=n_chain + n_leaf, chain=chain, leaves=leaves, paths=paths, finals=finals,
                shape=shape, share_prefix=as_dfa or rng.random() < 0.5)


def realise(rng, spec: dict, as_dfa: bool) -> Tuple[Dict[int, Dict[str, set]], int, List[str]]:
    """Edges of the automaton over symbolic state ids (hubs first).  Returns (table, number of states, notes)."""
    n = spec["n_hubs"]
    hubs = set(range(n))
    table: Dict[int, Dict[str, set]] = {h: {} for h in range(n)}
    notes: List[str] = []
    paths = list(spec["paths"])
    if not as_dfa:
        # the order in which parallel paths are entered decides the order of the alternatives; the chain
        # paths of a DFA stay first so that the trie keeps them
        rng.shuffle(paths)

    def fresh() -> int:
        nonlocal n
        table[n] = {}
        n += 1
        return n - 1

    def edge(p, a, q):
        table[p].setdefault(a, set()).add(q)

    for src, w, dst, lam in paths:
        need = (lam if w == "" else len(w) - 1 + (1 if lam is not None else 0))
        if n + need > MAX_STATES:
            notes.append("path_dropped_size_cap")
            continue
        if w == "":
            if as_dfa:
                continue
            node = src
            for _ in range(lam):
                x = fresh()
                edge(node, "", x)
                node = x
            edge(node, "", dst)
            continue
        steps = list(w)
        if lam is not None:
            steps.insert(lam, "")
        node = src
        ok = True
        created: List[int] = []
        for c in steps[:-1]:
            nxt = None
            if c != "" and spec["share_prefix"]:
                cand = [t for t in table[node].get(c, ()) if t not in hubs]
                if cand:
                    nxt = cand[0]
                    notes.append("shared_prefix")
                elif as_dfa and table[node].get(c):
                    ok = False
                    break
            if nxt is None:
                nxt = fresh()
                created.append(nxt)
                edge(node, c, nxt)
            node = nxt
        if ok and as_dfa and table[node].get(steps[-1]):
            ok = False
        if not ok:
            notes.append("path_dropped_determinism")
            # states created for the dropped path stay as dead ends only in a DFA; remove their edges
            for x in created:
                for row in table.values():
                    for a in list(row):
                        row[a].discard(x)
                        if not row[a]:
                            del row[a]
            for x in created:
                table[x] = {}
            continue
        edge(node, steps[-1], dst)
    return table, n, notes


NAME_STYLES = ["perm", "perm", "perm_from_1", "reversed", "scattered", "tuples", "identity", "by_role", "by_role",
               "by_role"]


def names_for(rng, n: int, roles: List[str]) -> Tuple[List[Any], str]:
    """State names (hash-seed independent).  `by_role` numbers the states role by role (hub / leaf / inner in
    one of the 6 orders, shuffled inside a role): all inner states before all hubs, leaves last, …"""
    style = rng.choice(NAME_STYLES)
    if style == "by_role":
        rank = ["hub", "leaf", "inner"]
        rng.shuffle(rank)
        ids = list(range(n))
        rng.shuffle(ids)
        ids.sort(key=lambda q: rank.index(roles[q]))
        off = rng.choice([0, 1])
        nm = [0] * n
        for pos, q in enumerate(ids):
            nm[q] = pos + off
        return nm, style + "_" + "<".join(rank)
    if style == "perm":
        nm = list(range(n))
        rng.shuffle(nm)
    elif style == "perm_from_1":        # 0 stays free: the fresh initial state of the GNFA gets it
        nm = list(range(1, n + 1))
        rng.shuffle(nm)
    elif style == "reversed":
        nm = list(range(n - 1, -1, -1))
    elif style == "scattered":
        nm = rng.sample(range(-4, n + 6), n)
    elif style == "tuples":
        nm = [(i,) for i in range(n)] if rng.random() < 0.5 else [(i % 2, i // 2) for i in range(n)]
        rng.shuffle(nm)
    else:
        nm = list(range(n))
    return nm, style


def wordgraph_source(rng, as_dfa: Optional[bool] = None) -> Tuple[Any, bool, dict]:
    """One source of the family.  Returns (automaton, is_nfa, info); info carries what the counters need:
    the role of every state name (hub / leaf / inner) and the shape features."""
    if as_dfa is None:
        as_dfa = rng.random() < 0.4
    spec = wordgraph_spec(rng, as_dfa)
    table, n, notes = realise(rng, spec, as_dfa)
    roles = ["leaf" if q in spec["leaves"] else "hub" if q < spec["n_hubs"] else "inner" for q in range(n)]
    nm, style = names_for(rng, n, roles)
    rows = list(range(n))
    rng.shuffle(rows)
    finals = {nm[q] for q in spec["finals"]}
    role = {nm[q]: roles[q] for q in range(n)}
    info = dict(shape=sorted(set(spec["shape"]) | set(notes)), names=style, n_paths=len(spec["paths"]), role=role,
                n_hubs=spec["n_hubs"],
                max_word=max([len(w) for _, w, _, _ in spec["paths"]] + [0]))
    if as_dfa:
        td: Dict[Any, Dict[str, Any]] = {}
        for q in rows:
            items = [(a, nm[next(iter(ts))]) for a, ts in table[q].items() if ts]
            rng.shuffle(items)
            td[nm[q]] = dict(items)
        m = DFA(states=set(nm), input_symbols=set(spec["sy"]), transitions=td, initial_state=nm[0],
                final_states=finals, allow_partial=True)
        return m, False, info
    tn: Dict[Any, Dict[str, set]] = {}
    for q in rows:
        items = [(a, {nm[t] for t in ts}) for a, ts in table[q].items() if ts]
        rng.shuffle(items)
        tn[nm[q]] = dict(items)
    m = NFA(states=set(nm), input_symbols=set(spec["sy"]), transitions=tn, initial_state=nm[0], final_states=finals)
    return m, True, info
