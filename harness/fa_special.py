"""C01, round 5: words and alphabets made of characters that are SPECIAL TO SOME PYTHON MINI-LANGUAGE.

The property quantifies over *every* string and *any* alphabet.  A character is just a symbol for an
automaton, but '{' '}' (str.format), '%' (printf-style formatting), the backslash and the regex
metacharacters, '$' (string.Template), '*' '?' '[' (fnmatch), line separators / NUL / ESC
(splitlines, strip, C strings, terminals), quotes (repr, shlex) and characters whose case mapping changes
the length of a string are exactly the characters on which a reader that splices the input string (or a
state name) into a message template, a pattern or a log line starts to behave differently — typically only
on the REJECTION path, where the message is built.

This file only *generates* (pure data, one PRNG): definitions as plain constructor arguments, words, and —
for the closed-form machines — the answer as a predicate on the word written with str methods only
(`count`, `endswith`, `in`, comparison with a repeated string).  Nothing here calls the library.
"""
from __future__ import annotations

import itertools
import random
from typing import Any, Callable, Dict, List, Optional, Sequence, Tuple

# mini-language -> snippets (every character of a snippet is one input symbol)
LANGS: Dict[str, List[str]] = {
    "str.format": ["{", "}", "{}", "{0}", "{1}", "{x}", "{{", "}}", "}{", "{!r}", "{:>9}", "{0.real}", "{0[0]}", "{}{}"],
    "percent-format": ["%", "%s", "%d", "%r", "%%", "%(x)s", "%5", "%c", "s%", "%s%s", "%*d"],
    "regex": ["\\", "\\1", "\\d", "\\g<0>", ".", ".*", "(", ")", "(?", "[", "]", "[^", "a|b", "^", "$", "+", "?", "*",
              "{2}", "(?P<", "\\Z"],
    "string.Template": ["$", "$x", "${x}", "${", "$$", "$1"],
    "fnmatch": ["*", "?", "[!a]", "[]", "[a-", "**"],
    "escapes-whitespace": ["\n", "\r\n", "\t", "\x00", " ", "\x1b[0m", "\\n", "\\x", "\\u12", "\\N{", "\x7f", "\u2028",
                           "\x85", "\x0b", "\x0c", "  "],
    "quotes-shell": ["'", '"', "'''", "`", ";", "&", "|", "<", ">", "#", "~", "!", "'\"", "$(", "-", "--", ",", ":", "="],
    "unicode-case-width": ["\u0130", "\xdf", "\u01c6", "e\u0301", "\U0001f600", "\u0663", "\xa0", "\u017f", "\ufb01",
                           "\u200b", "\ufeff", "\xe9"],
}
ALL_SPECIAL_CHARS: List[str] = sorted({c for snips in LANGS.values() for s in snips for c in s
                                       if not (c.isascii() and c.isalnum())})
SPECIAL_SET = frozenset(ALL_SPECIAL_CHARS)
CHAR_LANG: Dict[str, str] = {}
for _lang, _snips in LANGS.items():
    for _s in _snips:
        for _c in _s:
            CHAR_LANG.setdefault(_c, _lang)

# (mini-language, x, y, foreign): two alphabet symbols and a third character that stays foreign
PAIRS: List[Tuple[str, str, str, str]] = [
    ("str.format", "{", "}", "0"),
    ("str.format", "}", "{", "!"),
    ("str.format", "{", "0", "}"),
    ("str.format", "a", "b", "{"),
    ("str.format", "a", "b", "}"),
    ("percent-format", "%", "s", "d"),
    ("percent-format", "%", "(", ")"),
    ("percent-format", "a", "b", "%"),
    ("regex", "\\", "1", "d"),
    ("regex", "(", ")", "?"),
    ("regex", "[", "]", "^"),
    ("regex", ".", "*", "+"),
    ("regex", "a", "b", "\\"),
    ("regex", "|", "^", "$"),
    ("string.Template", "$", "{", "}"),
    ("string.Template", "a", "b", "$"),
    ("fnmatch", "*", "?", "["),
    ("escapes-whitespace", "\n", "\r", "\t"),
    ("escapes-whitespace", "\x00", " ", "\x1b"),
    ("escapes-whitespace", "\\", "n", "x"),
    ("escapes-whitespace", "a", "b", "\n"),
    ("escapes-whitespace", "\u2028", "\x85", "\x0c"),
    ("quotes-shell", "'", '"', "`"),
    ("quotes-shell", "#", ";", "&"),
    ("quotes-shell", "-", ",", ":"),
    ("unicode-case-width", "\u0130", "\xdf", "\u017f"),
    ("unicode-case-width", "e", "\u0301", "\u200b"),
    ("unicode-case-width", "\U0001f600", "\xa0", "\ufeff"),
]

# state names that are themselves special to a template when a configuration is spliced into a message
NAME_STYLES: List[List[Any]] = [
    [0, 1, 2, 3],
    ["{}", "{0}", "{", "}"],
    ["%s", "%", "%d", "%(q)s"],
    [(), (0,), (0, 1), ("%s",)],
    ["\\", "\\1", "$x", "${"],
    ["q0", "q'1", 'q"2', "q\n3"],
    [("{}", 0), ("{}", 1), ("}", 0), ("{", 1)],
]
SPECIAL_NAMES: List[Any] = ["{}", "{0}", "{", "}", "%s", "%", "%d", "\\", "\\1", "$x", "\n", "'", '"', "(", ")", "[",
                            "*", (), (0,), (0, 1), ("%s",), ("{}", 1), "{q}", "%(q)s", " "]


def closed_machines(x: str, y: str, names: Sequence[Any]):
    """Four machines over {x, y} whose language has a closed form: (tag, kind, constructor arguments, predicate)."""
    a, b, c, d = names[:4]
    sigma = (x, y)

    def over(w):
        return all(ch in sigma for ch in w)
    out = []
    # 1. partial DFA for (xy)*
    out.append(("alternating", "DFA",
                dict(states={a, b}, input_symbols={x, y}, transitions={a: {x: b}, b: {y: a}}, initial_state=a,
                     final_states={a}, allow_partial=True),
                lambda w: len(w) % 2 == 0 and w == (x + y) * (len(w) // 2)))
    # 2. complete DFA: even number of x
    out.append(("even_count", "DFA",
                dict(states={a, b}, input_symbols={x, y}, transitions={a: {x: b, y: a}, b: {x: a, y: b}},
                     initial_state=a, final_states={a}, allow_partial=False),
                lambda w: over(w) and w.count(x) % 2 == 0))
    # 3. NFA with an ε-move: words over {x,y} that end with xy
    out.append(("ends_with", "NFA",
                dict(states={a, b, c, d}, input_symbols={x, y},
                     transitions={a: {x: {a, b}, y: {a}}, b: {y: {c}}, c: {"": {d}}, d: {}}, initial_state=a,
                     final_states={d}),
                lambda w: over(w) and w.endswith(x + y)))
    # 4. NFA without ε: words over {x,y} that contain x
    out.append(("contains", "NFA",
                dict(states={a, b}, input_symbols={x, y}, transitions={a: {x: {a, b}, y: {a}}, b: {x: {b}, y: {b}}},
                     initial_state=a, final_states={b}),
                lambda w: over(w) and x in w))
    return out


def corpus_words(lang: str, x: str, y: str, f: str) -> List[str]:
    """All words of length ≤3 over {x, y, f}, every snippet of the pair's mini-language alone / after xy / before xy,
    and 24 longer words."""
    ws = ["".join(t) for k in range(4) for t in itertools.product((x, y, f), repeat=k)]
    for s in LANGS[lang]:
        for w in (s, x + y + s, s + x + y):
            if w not in ws:
                ws.append(w)
    # longer words over {x, y} (about half of them accepted by each machine), then the same with the foreign
    # character in first / middle / last position
    longer = [(x + y) * 2, (x + y) * 3, x * 4, y * 5, x + y + y + x + y, y + x + x + y, (y + x) * 3 + x + y,
              x + x + y + x + y, y * 3 + x + x + y * 2, (x + y) * 4, y + (x + y) * 3, x * 3 + y + x]
    ws.extend(longer)
    for i, w in enumerate(longer):
        cut = (0, len(w) // 2, len(w))[i % 3]
        ws.append(w[:cut] + f + w[cut:])
    return ws


def rand_alphabet(rng: random.Random) -> Tuple[str, List[str], List[str]]:
    """(mini-language, snippets, alphabet): the alphabet contains all / some / none of the snippets' characters."""
    lang = rng.choice(sorted(LANGS))
    snips = [rng.choice(LANGS[lang]) for _ in range(rng.randint(1, 2))]
    chars = sorted(set("".join(snips)))
    mode = rng.random()
    if mode < 0.5:
        alpha = rng.sample(chars, min(len(chars), rng.randint(1, 3)))
        if rng.random() < 0.4:
            alpha.append(rng.choice("ab"))
    elif mode < 0.75:
        alpha = list(rng.choice([("a", "b"), ("a",), ("0", "1")]))
    else:
        alpha = [rng.choice(chars), rng.choice(ALL_SPECIAL_CHARS)]
    alpha = sorted(set(alpha))
    return lang, snips, alpha


def rand_word(rng: random.Random, alpha: Sequence[str], snips: Sequence[str]) -> str:
    w = [rng.choice(alpha) for _ in range(rng.randint(0, 7))]
    r = rng.random()
    if r < 0.5:
        pos = rng.choice([0, len(w), rng.randint(0, len(w))])
        w[pos:pos] = list(rng.choice(snips))
    elif r < 0.65 and w:
        w[rng.randrange(len(w))] = rng.choice(ALL_SPECIAL_CHARS)
    elif r < 0.72:
        w.extend(rng.choice(rng.choice(list(LANGS.values()))))
    return "".join(w)


def rand_names(rng: random.Random, n: int) -> Optional[List[Any]]:
    if rng.random() < 0.6:
        return None  # harness/gen.py's own adversarial pools
    pool = list(SPECIAL_NAMES)
    rng.shuffle(pool)
    return pool[:n]


def position_class(w: str, pred: Callable[[str], bool]) -> List[str]:
    """Where in the word the characters satisfying pred sit."""
    idx = [i for i, ch in enumerate(w) if pred(ch)]
    out = []
    if idx:
        if idx[0] == 0:
            out.append("first")
        if idx[-1] == len(w) - 1:
            out.append("last")
        if any(0 < i < len(w) - 1 for i in idx):
            out.append("middle")
    return out
