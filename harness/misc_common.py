"""Shared by ops/C18.py and ops/C19.py: global-option switching, the table of public
operations / queries / conversions per class, bounded runs of possibly non-terminating
readers, brute-force language comparison."""
from __future__ import annotations

import contextlib
import itertools
from typing import Any, Callable, Dict, Iterable, List, Optional, Tuple

import automata.base.config as config
from automata.base.exceptions import AutomatonException, RejectionException
from automata.fa.dfa import DFA
from automata.fa.gnfa import GNFA
from automata.fa.nfa import NFA

from harness import gen_misc as G

STEP_LIMIT = 40


@contextlib.contextmanager
def options(should_validate: bool = True, allow_mutable: bool = False):
    """Set the two global options around a block and restore them."""
    old = (config.should_validate_automata, config.allow_mutable_automata)
    config.should_validate_automata = should_validate
    config.allow_mutable_automata = allow_mutable
    try:
        yield
    finally:
        config.should_validate_automata, config.allow_mutable_automata = old


def construct(cls: str, kw: Dict[str, Any], sv: bool = True, am: bool = False):
    """("ok", obj) | ("err", ExceptionClassName) — the real constructor under the options."""
    with options(sv, am):
        try:
            return ("ok", G.get_class(cls)(**kw))
        except RecursionError:
            raise
        except Exception as e:  # noqa: BLE001
            return ("err", type(e).__name__)


def bounded(gen_fn: Callable[[], Iterable], limit: int = STEP_LIMIT):
    """Run a generator for at most `limit` items: (items, exception name or None, finished)."""
    items = []
    try:
        for i, x in enumerate(gen_fn()):
            items.append(x)
            if i + 1 >= limit or (isinstance(x, (set, frozenset)) and len(x) > 150):
                return items, None, False
    except RecursionError:
        raise
    except Exception as e:  # noqa: BLE001
        return items, e, True
    return items, None, True


def words_upto(alphabet, n):
    al = sorted(alphabet)
    for k in range(n + 1):
        for t in itertools.product(al, repeat=k):
            yield "".join(t)


def lang_sig(m, alphabet, n=None) -> Tuple[bool, ...]:
    """Acceptance vector of a DFA/NFA on all words up to a length (brute force through the
    real accepts_input)."""
    al = sorted(alphabet)
    if n is None:
        n = 5 if len(al) <= 2 else (4 if len(al) == 3 else 3)
    return tuple(m.accepts_input(w) for w in words_upto(al, n))


# ------------------------------------------------------------------ documented exceptions
# Which exception classes an operation is *documented* to raise on valid operands.  Source: the
# "Raises" sections of the method docstrings of the code under test, read by an AST walk
# (harness/extract_misc.py: `documented_raises`, `doc_closure` — a wrapper without such a section
# documents what the methods it calls on self document, minus what it catches; a docstring
# without a Raises section and without documented callees means "raises nothing").  Two classes
# are documented by their own docstring in automata/base/exceptions.py rather than per method:
#   RejectionException   "The input was rejected by the automaton"   — the read_input family of
#                        every class (DTM.read_input_stepwise lacks the Raises section its
#                        siblings DFA / NFA / DPDA / NPDA / NTM / MNTM have);
#   SymbolMismatchError  "The input symbols between the given automata do not match" — binary
#                        operations, and only when the two alphabets really differ.
_DOC_TABLE = None
# tighter than the derived table: `DFA.__iter__` guards its call of minimum_word_length() by
# isempty(); its docstring ("Iterates through all words in the language") promises a total function
DOC_OVERRIDE = {("DFA", "__iter__"): []}
# validate() of a definition the constructor accepted raises nothing (that is what "accepted" means)
DOC_OVERRIDE.update({(c, "validate"): [] for c in ("DFA", "NFA", "GNFA", "DPDA", "NPDA", "DTM", "NTM", "MNTM")})
READ_FAMILY = ("read_input", "read_input_stepwise", "read_input_as_ntm")


def doc_table():
    global _DOC_TABLE
    if _DOC_TABLE is None:
        import ast
        import os

        import automata

        from harness import extract_misc as X
        root = os.path.dirname(os.path.dirname(os.path.abspath(automata.__file__)))

        def parse(rel):
            with open(os.path.join(root, rel), encoding="utf-8") as f:
                return ast.parse(f.read(), rel)
        _DOC_TABLE = X.documented_raises(parse)
    return _DOC_TABLE


def op_targets(op: str) -> List[Tuple[str, str]]:
    """The (class, method) pairs a harness operation name exercises: "DFA.to_complete(trap)" →
    DFA.to_complete; "GNFA.from_dfa.to_regex" → GNFA.from_dfa, GNFA.to_regex;
    "DPDA.read_input/accepts_input/in" → read_input, accepts_input, __contains__."""
    base = op.split("(")[0]
    cls, rest = base.split(".", 1)
    out = []
    for seg in rest.split("/"):
        for m in seg.split("."):
            out.append((cls, "__contains__" if m == "in" else m))
    return out


def documented_classes(op: str) -> List[str]:
    """Exception class names the documentation allows `op` to raise (by method docstrings)."""
    from harness import extract_misc as X
    out = set()
    for cls, meth in op_targets(op):
        if (cls, meth) in DOC_OVERRIDE:
            out |= set(DOC_OVERRIDE[(cls, meth)])
        else:
            out |= set(X.doc_closure(doc_table(), cls, meth))
    return sorted(out)


def documented_reason(op: str, e: BaseException, same_alphabet: Optional[bool] = None) -> Optional[str]:
    """Why the exception `e` raised by `op` on valid operands is documented — "docstring",
    "exception-class docstring" — or None when it is not.  `same_alphabet`: for binary
    operations, whether both operands have the same input symbols (None = unknown)."""
    names = {c.__name__ for c in type(e).__mro__}
    if names & set(documented_classes(op)):
        return "docstring"
    meths = {m for _, m in op_targets(op)}
    if "RejectionException" in names and meths & set(READ_FAMILY) and not op.startswith("GNFA."):
        return "exception-class docstring"
    if "SymbolMismatchError" in names and same_alphabet is not True and \
            any(op == n for n, _ in dfa_binary_ops() + nfa_binary_ops()):
        return "exception-class docstring"
    return None


def is_documented(op: str, e: BaseException, same_alphabet: Optional[bool] = None) -> bool:
    """Exceptions an operation on valid operands is documented to raise."""
    return documented_reason(op, e, same_alphabet) is not None


# ------------------------------------------------------------------ operation tables
# Each entry: (name, arity, function).  Functions take the live operand(s) plus a small
# deterministic argument pack `a` (words, ints, flags) drawn by the caller.
def _lst(it, limit=40):
    return list(itertools.islice(it, limit))


def dfa_unary_ops():
    return [
        ("DFA.complement", lambda d, a: d.complement(retain_names=a["retain"], minify=a["minify"])),
        ("DFA.__invert__", lambda d, a: ~d),
        ("DFA.minify", lambda d, a: d.minify(retain_names=a["retain"])),
        ("DFA.to_complete", lambda d, a: d.to_complete()),
        ("DFA.to_complete(trap)", lambda d, a: d.to_complete(("trap", 99))),
        ("DFA.to_partial", lambda d, a: d.to_partial(retain_names=a["retain"], minify=a["minify"])),
        ("DFA.copy", lambda d, a: d.copy()),
        ("NFA.from_dfa", lambda d, a: NFA.from_dfa(d)),
        ("GNFA.from_dfa", lambda d, a: GNFA.from_dfa(d)),
        ("GNFA.from_dfa.to_regex", lambda d, a: GNFA.from_dfa(d).to_regex()),
        ("DFA.isempty", lambda d, a: d.isempty()),
        ("DFA.isfinite", lambda d, a: d.isfinite()),
        ("DFA.cardinality", lambda d, a: d.cardinality()),
        ("DFA.__len__", lambda d, a: len(d)),
        ("DFA.minimum_word_length", lambda d, a: d.minimum_word_length()),
        ("DFA.maximum_word_length", lambda d, a: d.maximum_word_length()),
        ("DFA.count_words_of_length", lambda d, a: d.count_words_of_length(a["k"])),
        ("DFA.words_of_length", lambda d, a: _lst(d.words_of_length(a["k"]))),
        ("DFA.__iter__", lambda d, a: _lst(iter(d), 7)),  # the word cache is exponential in the level
        ("DFA.random_word", lambda d, a: d.random_word(a["k"], seed=a["seed"])),
        ("DFA.successors", lambda d, a: _lst(d.successors(a["w"], strict=a["strict"], max_length=a["k"] + 3), 25)),
        ("DFA.successor", lambda d, a: d.successor(a["w"], strict=a["strict"], max_length=a["k"] + 3)),
        ("DFA.predecessors", lambda d, a: _lst(d.predecessors(a["w"], strict=a["strict"]), 25)),
        ("DFA.predecessor", lambda d, a: d.predecessor(a["w"], strict=a["strict"])),
        ("DFA.read_input", lambda d, a: d.read_input(a["w"])),
        ("DFA.read_input_stepwise", lambda d, a: list(d.read_input_stepwise(a["w"], ignore_rejection=a["strict"]))),
        ("DFA.accepts_input", lambda d, a: d.accepts_input(a["w"])),
        ("DFA.__contains__", lambda d, a: (a["w"] in d, 5 in d)),
        ("DFA.iter_transitions", lambda d, a: sorted(map(repr, d.iter_transitions()))),
        ("DFA.validate", lambda d, a: d.validate()),
        ("DFA.__repr__", lambda d, a: len(repr(d)) > 0),
        ("DFA.clear_cache", lambda d, a: d.clear_cache()),
        ("DFA.input_parameters", lambda d, a: G.norm(d.input_parameters)),
    ]


def dfa_binary_ops():
    def flags(a):
        return dict(retain_names=a["retain"], minify=a["minify"])
    return [
        ("DFA.union", lambda x, y, a: x.union(y, **flags(a))),
        ("DFA.intersection", lambda x, y, a: x.intersection(y, **flags(a))),
        ("DFA.difference", lambda x, y, a: x.difference(y, **flags(a))),
        ("DFA.symmetric_difference", lambda x, y, a: x.symmetric_difference(y, **flags(a))),
        ("DFA.__or__", lambda x, y, a: x | y),
        ("DFA.__and__", lambda x, y, a: x & y),
        ("DFA.__sub__", lambda x, y, a: x - y),
        ("DFA.__xor__", lambda x, y, a: x ^ y),
        ("DFA.__eq__", lambda x, y, a: x == y),
        ("DFA.__le__", lambda x, y, a: x <= y),
        ("DFA.__lt__", lambda x, y, a: x < y),
        ("DFA.__ge__", lambda x, y, a: x >= y),
        ("DFA.__gt__", lambda x, y, a: x > y),
        ("DFA.issubset", lambda x, y, a: x.issubset(y)),
        ("DFA.issuperset", lambda x, y, a: x.issuperset(y)),
        ("DFA.isdisjoint", lambda x, y, a: x.isdisjoint(y)),
    ]


def nfa_unary_ops():
    return [
        ("NFA.reverse", lambda n, a: n.reverse()),
        ("NFA.kleene_star", lambda n, a: n.kleene_star()),
        ("NFA.option", lambda n, a: n.option()),
        ("NFA.eliminate_lambda", lambda n, a: n.eliminate_lambda()),
        ("NFA.copy", lambda n, a: n.copy()),
        ("DFA.from_nfa", lambda n, a: DFA.from_nfa(n, retain_names=a["retain"], minify=a["minify"])),
        ("GNFA.from_nfa", lambda n, a: GNFA.from_nfa(n)),
        ("GNFA.from_nfa.to_regex", lambda n, a: GNFA.from_nfa(n).to_regex()),
        ("NFA.read_input", lambda n, a: n.read_input(a["w"])),
        ("NFA.read_input_stepwise", lambda n, a: list(n.read_input_stepwise(a["w"]))),
        ("NFA.accepts_input", lambda n, a: n.accepts_input(a["w"])),
        ("NFA.__contains__", lambda n, a: (a["w"] in n, 5 in n)),
        ("NFA.iter_transitions", lambda n, a: sorted(map(repr, n.iter_transitions()))),
        ("NFA.validate", lambda n, a: n.validate()),
        ("NFA.__repr__", lambda n, a: len(repr(n)) > 0),
        ("NFA.input_parameters", lambda n, a: G.norm(n.input_parameters)),
    ]


def nfa_binary_ops():
    return [
        ("NFA.union", lambda x, y, a: x.union(y)),
        ("NFA.concatenate", lambda x, y, a: x.concatenate(y)),
        ("NFA.intersection", lambda x, y, a: x.intersection(y)),
        ("NFA.shuffle_product", lambda x, y, a: x.shuffle_product(y)),
        ("NFA.left_quotient", lambda x, y, a: x.left_quotient(y)),
        ("NFA.right_quotient", lambda x, y, a: x.right_quotient(y)),
        ("NFA.__or__", lambda x, y, a: x | y),
        ("NFA.__add__", lambda x, y, a: x + y),
        ("NFA.__and__", lambda x, y, a: x & y),
        ("NFA.__eq__", lambda x, y, a: x == y),
    ]


def gnfa_unary_ops():
    return [
        ("GNFA.to_regex", lambda g, a: g.to_regex()),
        ("GNFA.copy", lambda g, a: g.copy()),
        ("GNFA.iter_transitions", lambda g, a: sorted(map(repr, g.iter_transitions()))),
        ("GNFA.validate", lambda g, a: g.validate()),
        ("GNFA.__repr__", lambda g, a: len(repr(g)) > 0),
        ("GNFA.input_parameters", lambda g, a: G.norm(g.input_parameters)),
        ("GNFA.read_input_stepwise", lambda g, a: g.read_input_stepwise(a["w"])),
        ("GNFA.accepts_input", lambda g, a: g.accepts_input(a["w"])),
    ]


def _cfg_key(c):
    return repr(c)


def _trace(m, w, method="read_input_stepwise"):
    """Bounded stepwise run: list of configurations (sets of configurations as sorted
    reprs), the terminating exception name, and whether the run ended within the bound."""
    items, exn, finished = bounded(lambda: getattr(m, method)(w))
    out = []
    for c in items:
        if isinstance(c, (set, frozenset)):
            out.append(tuple(sorted(map(repr, c))))
        else:
            out.append(repr(c))
    if exn is not None and not isinstance(exn, RejectionException):
        raise exn  # judged by the caller (only RejectionException is part of a normal run)
    return (tuple(out), type(exn).__name__ if exn is not None else None, finished)


def _verdicts(m, w):
    """read_input / accepts_input / `in` — only when the bounded stepwise run ended."""
    tr = _trace(m, w)
    if not tr[2]:
        return ("unbounded",)
    try:
        r = repr(m.read_input(w))
    except RejectionException as e:
        r = type(e).__name__
    return (r if not r.startswith("{") else "set", m.accepts_input(w), w in m, 5 in m)


def machine_unary_ops(cls: str):
    ops = [
        (f"{cls}.read_input_stepwise", lambda m, a: _trace(m, a["w"])),
        (f"{cls}.read_input/accepts_input/in", lambda m, a: _verdicts(m, a["w"])),
        (f"{cls}.copy", lambda m, a: m.copy()),
        (f"{cls}.validate", lambda m, a: m.validate()),
        (f"{cls}.__repr__", lambda m, a: len(repr(m)) > 0),
        (f"{cls}.input_parameters", lambda m, a: G.norm(m.input_parameters)),
    ]
    if cls in ("DPDA", "NPDA"):
        ops.append((f"{cls}.iter_transitions", lambda m, a: sorted(map(repr, m.iter_transitions()))))
    if cls == "MNTM":
        ops.append(("MNTM.read_input_as_ntm", lambda m, a: _trace(m, a["w"], "read_input_as_ntm")))
    return ops


def unary_ops(cls: str):
    if cls == "DFA":
        return dfa_unary_ops()
    if cls == "NFA":
        return nfa_unary_ops()
    if cls == "GNFA":
        return gnfa_unary_ops()
    return machine_unary_ops(cls)


def binary_ops(cls: str):
    if cls == "DFA":
        return dfa_binary_ops()
    if cls == "NFA":
        return nfa_binary_ops()
    return []


def is_automaton(x) -> bool:
    from automata.base.automaton import Automaton
    return isinstance(x, Automaton)


def arg_pack(rng, alphabet) -> Dict[str, Any]:
    al = sorted(alphabet)
    k = rng.randint(0, 4)
    w = "".join(rng.choice(al) for _ in range(rng.randint(0, 5))) if al else ""
    return dict(retain=rng.random() < 0.5, minify=rng.random() < 0.6, k=k, w=w, seed=rng.randint(0, 99),
                strict=rng.random() < 0.5)


def result_summary(r) -> Any:
    """Comparable form of an operation result (automata by class + abstract definition)."""
    if is_automaton(r):
        return ("automaton", type(r).__name__, G.norm(r.input_parameters))
    return G.norm(r)


def same_language(a, b, alphabet) -> bool:
    """EXACT language comparison of two DFA / NFA objects: breadth-first search of the product of
    the two machines stepped straight from their transition dicts (harness/langoracle.find_word —
    complete, the product is finite, and independent of the library's algorithms); a
    distinguishing word is re-confirmed through the real accepts_input.  Only when the product
    exceeds 300 000 states: all words up to length 5 / 4 / 3 through the real accepts_input."""
    from harness import langoracle
    try:
        w = langoracle.find_word([a, b], alphabet, lambda v: v[0] != v[1], limit=300_000)
    except RuntimeError:
        return lang_sig(a, alphabet) == lang_sig(b, alphabet)
    if w is None:
        return True
    if bool(a.accepts_input(w)) != bool(b.accepts_input(w)):
        return False
    return lang_sig(a, alphabet) == lang_sig(b, alphabet)  # oracle and library disagree on w: sample instead


def same_up_to_renaming(r1, r2) -> bool:
    """Two automaton results that are not literally equal (state names may legitimately depend
    on set iteration order): same class, same alphabet, same number of states and EXACTLY the
    same language (`same_language`; GNFA: the two `to_regex()` outputs denote the same language)."""
    if type(r1) is not type(r2):
        return False
    if isinstance(r1, (DFA, NFA)):
        if len(r1.states) != len(r2.states) or r1.input_symbols != r2.input_symbols:
            return False
        return same_language(r1, r2, r1.input_symbols)
    if isinstance(r1, GNFA):
        if len(r1.states) != len(r2.states) or r1.input_symbols != r2.input_symbols:
            return False
        return regex_equiv(r1.to_regex(), r2.to_regex(), r1.input_symbols)
    return False


def regex_equiv(r1: str, r2: str, alphabet) -> bool:
    if len(r1) > 400 or len(r2) > 400:
        return True  # state elimination can print huge expressions; not compared (counted by the caller)
    a = NFA.from_regex(r1, input_symbols=set(alphabet))
    b = NFA.from_regex(r2, input_symbols=set(alphabet))
    return same_language(a, b, alphabet)
