"""C08, deep / large instances — NFA operations on operands with 1100–3000 states.

The property quantifies over ALL valid operands; nothing bounds their size.  The other generators of C08 never
leave operands of ≤ 5 states (results ≤ ~60 states, words ≤ 8 symbols: their oracle enumerates Σ^≤k), so a
construction that is only right while its operands are small — a loop rewritten as recursion (Python's recursion
limit: depth ≈ 990), a bare functools.lru_cache (128 entries) on a helper, a fixed-size probe / buffer, an early
cut-off of a work-list, a quadratic copy — passes all of them.  This module describes large instances by a small
JSON-able *spec*:

    case    = {"expr": tree, "probes": [rle, …]}
    tree    = operand spec (a dict with "kind")  |  [op, tree]  |  [op, tree, tree]  |  [op, tree, "same"]
              ("same": the SAME OBJECT on both sides, A + A)
              op ∈ union concatenate kleene_star option reverse intersection shuffle_product left_quotient
                   right_quotient or add and       (results are fed into further operations by nesting)
    rle     = [[unit, reps], …]   stands for unit*reps + … (["@distinct", n]: n pairwise different symbols — an
              alphabet of that size; n < 0: mirrored)

from which (a) the real operands are built through the library's constructor (`build`), the tree is evaluated with
the real operations, and (b) the language of the result is known in CLOSED FORM from the construction parameters
(`lang_of`: pure string arithmetic on the words the operands were built from — no automaton, no code shared with the
library, with harness/nfaops_lib or with the Lean model; nothing is sent to the model's driver, which would need
minutes at these sizes).

operand kinds (all pass validate())
    word     w=rle, finals="last"|"all"|[k,…], eps=[[pos,count],…], names="int"|"str", base=int
             a chain reading w; state after k symbols is final for k in finals (language: those prefixes of w);
             before symbol index pos a chain of `count` ε-moves is spliced in; states are base, base+1, … (ints)
             or "q<i>" strings, numbered along the path
    cycle    w=rle          states 0..|w|-1 in a ring reading w, state 0 initial and final: (w)*
    finlang  w=rle, syms    NFA.from_dfa(DFA.from_finite_language(syms, {w})): one word, the library's own names
    fan      n, eps         0 –a→ {1..n} (eps: 0 –ε→ {1..n}), every ODD i –b→ n+1 (final): {ab} (eps: {b}); one target
                            set of n states, n rows
    sigma_star / empty / eps_only   syms    one-state operands: Σ*, ∅ (non-final state, no rows), {ε}

Closed forms (class Lang and its combinators): member(w) by string comparison; union / intersection / option /
reverse pointwise; concatenation by trying the split points; star by a forward scan over a ≤ 4-word generator set
(or a* for a unary prefix-closed operand); shuffle for a second operand over ONE symbol foreign to the first
(delete that symbol, count it); quotients by a FINITE explicit divisor (∃x: member(w+x) / member(x+w)) or by Σ*
(prefixes / suffixes / factors of the operand's words).  `selftest` compares every combinator with a brute-force
set computation on small instances; ops/C08.py additionally runs every case template at a scaled-down size
through the module's ordinary oracle (brute force through the real reader + textbook construction) and compares
the closed form with the endorsed real result on all short words.
"""
from __future__ import annotations

import itertools
from typing import List, Optional

from automata.fa.dfa import DFA
from automata.fa.nfa import NFA

UNARY = ("kleene_star", "option", "reverse")
OPERATORS = {"or": lambda a, b: a | b, "add": lambda a, b: a + b, "and": lambda a, b: a & b}
ALIAS = {"or": "union", "add": "concatenate", "and": "intersection"}
CASE_LIMIT_S = 20.0     # watchdog seconds for one whole deep case on the real code (a clean case needs < 0.3 s)


DISTINCT0 = 0x4E00      # ["@distinct", n]: n pairwise different symbols chr(0x4E00) … ; n < 0: the same, mirrored


def word(rle) -> str:
    out = []
    for u, r in rle:
        if u == "@distinct":
            x = "".join(chr(DISTINCT0 + i) for i in range(abs(r)))
            out.append(x if r >= 0 else x[::-1])
        else:
            out.append(u * r)
    return "".join(out)


def show_rle(rle) -> str:
    if not rle:
        return "''"
    return "+".join((f"<{abs(r)} distinct symbols from U+4E00{', mirrored' if r < 0 else ''}>" if u == "@distinct" else
                     f"{u!r}*{r}" if r != 1 else repr(u)) for u, r in rle)


def short(v) -> str:
    if isinstance(v, str) and len(v) > 24:
        return f"<{len(v)} symbols {v[:6]!r}…{v[-6:]!r}>"
    return repr(v)


# ---------------------------------------------------------------------- the real objects
def build(spec: dict) -> NFA:
    k = spec["kind"]
    if k == "word":
        w = word(spec["w"])
        n = len(w)
        eps = {p: c for p, c in spec.get("eps", [])}
        base = spec.get("base", 0)
        nm = (lambda i: f"q{i}") if spec.get("names") == "str" else (lambda i: base + i)
        trans, at = {}, {}
        cur = 0
        for p in range(n + 1):
            at[p] = cur                      # the state reached after p symbols (before the ε-chain spliced in at p)
            for _ in range(eps.get(p, 0)):
                trans[nm(cur)] = {"": {nm(cur + 1)}}
                cur += 1
            if p < n:
                trans[nm(cur)] = {w[p]: {nm(cur + 1)}}
                cur += 1
            else:
                trans.setdefault(nm(cur), {})
        last = cur
        fin = spec.get("finals", "last")
        if fin == "last":
            finals = {nm(last)}
        elif fin == "all":
            finals = {nm(at[p]) for p in range(n + 1)}
        else:
            finals = {nm(last if p == n else at[p]) for p in fin}
        return NFA(states={nm(i) for i in range(last + 1)}, input_symbols=set(spec.get("syms") or set(w) or {"a"}),
                   transitions=trans, initial_state=nm(0), final_states=finals)
    if k == "cycle":
        w = word(spec["w"])
        n = len(w)
        return NFA(states=set(range(n)), input_symbols=set(w), transitions={i: {w[i]: {(i + 1) % n}} for i in range(n)},
                   initial_state=0, final_states={0})
    if k == "finlang":
        return NFA.from_dfa(DFA.from_finite_language(set(spec["syms"]), {word(spec["w"])}))
    if k == "fan":
        n = spec["n"]
        trans = {0: {("" if spec.get("eps") else "a"): set(range(1, n + 1))}, n + 1: {}}
        for i in range(1, n + 1):
            trans[i] = {"b": {n + 1}} if i % 2 else {}
        return NFA(states=set(range(n + 2)), input_symbols={"a", "b"}, transitions=trans, initial_state=0, final_states={n + 1})
    syms = set(spec["syms"])
    if k == "sigma_star":
        return NFA(states={"u"}, input_symbols=syms, transitions={"u": {a: {"u"} for a in syms}}, initial_state="u", final_states={"u"})
    if k == "empty":
        return NFA(states={"e"}, input_symbols=syms, transitions={}, initial_state="e", final_states=set())
    if k == "eps_only":
        return NFA(states={"l"}, input_symbols=syms, transitions={"l": {}}, initial_state="l", final_states={"l"})
    raise ValueError(f"unknown deep operand kind {k}")


def show_operand(spec: dict) -> str:
    k = spec["kind"]
    if k == "word":
        n = len(word(spec["w"]))
        e = sum(c for _, c in spec.get("eps", []))
        fin = spec.get("finals", "last")
        f = "the last state final" if fin == "last" else "every state on the word final" if fin == "all" else f"final after {fin} symbols"
        return (f"chain NFA reading {show_rle(spec['w'])} ({n + e + 1} states"
                + (f", ε-chains {spec['eps']} spliced in as [before symbol, length]" if e else "")
                + f", names {'q<i>' if spec.get('names') == 'str' else 'ints from ' + str(spec.get('base', 0))}, {f})")
    if k == "cycle":
        return f"ring NFA of ({show_rle(spec['w'])})* ({len(word(spec['w']))} states)"
    if k == "finlang":
        return f"NFA.from_dfa(DFA.from_finite_language({sorted(spec['syms'])}, {{{show_rle(spec['w'])}}}))"
    if k == "fan":
        return f"fan NFA 0 –{'ε' if spec.get('eps') else 'a'}→ {{1..{spec['n']}}}, odd i –b→ {spec['n'] + 1} (final)"
    return f"one-state NFA of {dict(sigma_star='Σ*', empty='∅', eps_only='{ε}')[k]} over {sorted(spec['syms'])}"


def show_expr(t) -> str:
    if isinstance(t, dict):
        return show_operand(t)
    if len(t) == 2:
        return f"{t[0]}({show_expr(t[1])})"
    if t[2] == "same":
        return f"{t[0]}(X, X) with the same object X = {show_expr(t[1])} on both sides"
    return f"{t[0]}({show_expr(t[1])}, {show_expr(t[2])})"


def leaves(t):
    if isinstance(t, dict):
        yield t
    else:
        for x in t[1:]:
            if x != "same":
                yield from leaves(x)


def ops_of(t):
    if not isinstance(t, dict):
        yield t[0]
        for x in t[1:]:
            if x != "same":
                yield from ops_of(x)


# ---------------------------------------------------------------------- closed forms
class Lang:
    """A language given by string arithmetic.  syms: its alphabet (of the automaton it stands for)."""
    syms: frozenset = frozenset()

    def member(self, w: str) -> bool:
        raise NotImplementedError

    def words(self) -> Optional[List[str]]:
        """The explicit list of its words when it is finite and has ≤ 4000 of them, else None."""
        return None

    def prefix_member(self, w: str) -> bool:      # w is a prefix of a word of the language
        ws = self.words()
        if ws is None:
            raise NotImplementedError("prefix closure")
        return any(x.startswith(w) for x in ws)

    def suffix_member(self, w: str) -> bool:
        ws = self.words()
        if ws is None:
            raise NotImplementedError("suffix closure")
        return any(x.endswith(w) for x in ws)


class Prefixes(Lang):
    """{u[:k] : k ∈ lens}"""
    def __init__(self, u: str, lens, syms):
        self.u, self.lens, self.syms = u, frozenset(lens), frozenset(syms)

    def member(self, w):
        return len(w) in self.lens and self.u.startswith(w)

    def words(self):
        return [self.u[:k] for k in sorted(self.lens)] if len(self.lens) <= 4000 else None

    def prefix_member(self, w):
        return bool(self.lens) and len(w) <= max(self.lens) and self.u.startswith(w)

    def suffix_member(self, w):
        if len(self.lens) == 1:
            return self.u[:max(self.lens)].endswith(w)
        if self.lens == frozenset(range(len(self.u) + 1)):
            return w in self.u                   # a suffix of some prefix = a factor
        return Lang.suffix_member(self, w)


class Finite(Lang):
    def __init__(self, ws, syms):
        self.ws, self.syms = sorted(set(ws)), frozenset(syms)
        self.set = set(self.ws)

    def member(self, w):
        return w in self.set

    def words(self):
        return list(self.ws)


class Ring(Lang):
    """(u)*, u non-empty"""
    def __init__(self, u: str):
        self.u, self.syms = u, frozenset(u)

    def _pad(self, k):
        return self.u * (k // len(self.u) + 2)

    def member(self, w):
        return len(w) % len(self.u) == 0 and w == self.u * (len(w) // len(self.u))

    def prefix_member(self, w):
        return self._pad(len(w)).startswith(w)

    def suffix_member(self, w):
        return self._pad(len(w)).endswith(w)


class All(Lang):
    def __init__(self, syms):
        self.syms = frozenset(syms)

    def member(self, w):
        return all(c in self.syms for c in w)

    prefix_member = suffix_member = member


def _in_sigma(w, syms):
    return all(c in syms for c in set(w))


class Union(Lang):
    def __init__(self, a, b):
        self.a, self.b, self.syms = a, b, a.syms | b.syms

    def member(self, w):
        return self.a.member(w) or self.b.member(w)

    def words(self):
        x, y = self.a.words(), self.b.words()
        return None if x is None or y is None else sorted(set(x) | set(y))


class Inter(Lang):
    def __init__(self, a, b):
        self.a, self.b, self.syms = a, b, a.syms | b.syms

    def member(self, w):
        return self.a.member(w) and self.b.member(w)

    def words(self):
        x = self.a.words()
        if x is not None:
            return [w for w in x if self.b.member(w)]
        y = self.b.words()
        return None if y is None else [w for w in y if self.a.member(w)]


class Option(Lang):
    def __init__(self, a):
        self.a, self.syms = a, a.syms

    def member(self, w):
        return w == "" or self.a.member(w)

    def words(self):
        x = self.a.words()
        return None if x is None else sorted(set(x) | {""})


class Reverse(Lang):
    def __init__(self, a):
        self.a, self.syms = a, a.syms

    def member(self, w):
        return self.a.member(w[::-1])

    def words(self):
        x = self.a.words()
        return None if x is None else sorted(v[::-1] for v in x)

    def prefix_member(self, w):
        return self.a.suffix_member(w[::-1])

    def suffix_member(self, w):
        return self.a.prefix_member(w[::-1])


class Concat(Lang):
    def __init__(self, a, b):
        self.a, self.b, self.syms = a, b, a.syms | b.syms

    def member(self, w):
        xs = self.a.words()
        if xs is not None and len(xs) <= 8:
            return any(w.startswith(x) and self.b.member(w[len(x):]) for x in xs)
        ys = self.b.words()
        if ys is not None and len(ys) <= 8:
            return any(w.endswith(y) and self.a.member(w[:len(w) - len(y)]) for y in ys)
        return any(self.a.member(w[:i]) and self.b.member(w[i:]) for i in range(len(w) + 1))

    def words(self):
        x, y = self.a.words(), self.b.words()
        if x is None or y is None or len(x) * len(y) > 4000:
            return None
        return sorted({u + v for u in x for v in y})


class Star(Lang):
    def __init__(self, a):
        self.a, self.syms = a, a.syms
        self.unary_all = None
        gens = a.words()
        if isinstance(a, Ring):
            self.mode = "ring"
        elif gens is not None and len(gens) <= 4:
            self.mode, self.gens = "gens", [g for g in gens if g]
        elif isinstance(a, Prefixes) and len(set(a.u)) == 1 and 1 in a.lens:
            self.mode, self.unary_all = "unary", a.u[0]          # {a^k : k ∈ lens ∋ 1}* = a*
        else:
            raise NotImplementedError("closed form of this star")

    def member(self, w):
        if self.mode == "ring":
            return self.a.member(w)
        if self.mode == "unary":
            return set(w) <= {self.unary_all}
        n = len(w)
        reach = [False] * (n + 1)
        reach[0] = True
        for p in range(n):
            if reach[p]:
                for g in self.gens:
                    if w.startswith(g, p):
                        reach[p + len(g)] = True
        return reach[n]

    def prefix_member(self, w):
        if self.mode == "ring":
            return self.a.prefix_member(w)
        if self.mode == "gens" and len(self.gens) == 1:
            return Ring(self.gens[0]).prefix_member(w)
        raise NotImplementedError("prefix closure of this star")

    def suffix_member(self, w):
        if self.mode == "ring":
            return self.a.suffix_member(w)
        if self.mode == "gens" and len(self.gens) == 1:
            return Ring(self.gens[0]).suffix_member(w)
        raise NotImplementedError("suffix closure of this star")


class Shuffle(Lang):
    """a ⧢ b where b is a language over ONE symbol c that does not occur in a's alphabet: delete the c's, count them."""
    def __init__(self, a, b):
        if len(b.syms) != 1 or (b.syms & a.syms):
            raise NotImplementedError("closed form of this shuffle")
        self.a, self.b, self.syms = a, b, a.syms | b.syms
        (self.c,) = tuple(b.syms)

    def member(self, w):
        return self.b.member(self.c * w.count(self.c)) and self.a.member(w.replace(self.c, ""))


class RightQuot(Lang):
    """{w | ∃x ∈ b: w·x ∈ a}"""
    def __init__(self, a, b):
        self.a, self.b, self.syms = a, b, a.syms | b.syms
        self.div = b.words()
        if self.div is None and not isinstance(b, All):
            raise NotImplementedError("closed form of this quotient")

    def member(self, w):
        if self.div is not None:
            return any(self.a.member(w + x) for x in self.div)
        # divisor Σ_b*: w·x ∈ a for some x over Σ_b.  Every instance uses Σ_b ⊇ Σ_a, so: w is a prefix of a word of a
        return self.a.prefix_member(w)


class LeftQuot(Lang):
    """{w | ∃x ∈ b: x·w ∈ a}"""
    def __init__(self, a, b):
        self.a, self.b, self.syms = a, b, a.syms | b.syms
        self.div = b.words()
        if self.div is None and not isinstance(b, All):
            raise NotImplementedError("closed form of this quotient")

    def member(self, w):
        if self.div is not None:
            return any(self.a.member(x + w) for x in self.div)
        return self.a.suffix_member(w)


def lang_of(t) -> Lang:
    if isinstance(t, dict):
        k = t["kind"]
        if k == "word":
            w = word(t["w"])
            fin = t.get("finals", "last")
            lens = [len(w)] if fin == "last" else range(len(w) + 1) if fin == "all" else fin
            return Prefixes(w, lens, t.get("syms") or set(w) or {"a"})
        if k == "cycle":
            return Ring(word(t["w"]))
        if k == "finlang":
            return Finite([word(t["w"])], t["syms"])
        if k == "fan":
            return Finite(["b" if t.get("eps") else "ab"], "ab")
        if k == "sigma_star":
            return All(t["syms"])
        if k == "empty":
            return Finite([], t["syms"])
        if k == "eps_only":
            return Finite([""], t["syms"])
        raise ValueError(k)
    op = ALIAS.get(t[0], t[0])
    a = lang_of(t[1])
    b = (a if t[2] == "same" else lang_of(t[2])) if len(t) > 2 else None
    if isinstance(b, All) and op in ("right_quotient", "left_quotient") and not (a.syms <= b.syms):
        raise NotImplementedError("quotient by Σ* over a smaller alphabet")
    return {"union": Union, "intersection": Inter, "concatenate": Concat, "shuffle_product": Shuffle,
            "right_quotient": RightQuot, "left_quotient": LeftQuot}[op](a, b) if b is not None else \
        {"kleene_star": Star, "option": Option, "reverse": Reverse}[op](a)


# ---------------------------------------------------------------------- probe words
def perturbations(w: str, syms: List[str]) -> List[str]:
    """The threshold words around one base word: itself, one symbol shorter at either end, one longer, one symbol
    changed / deleted in the middle, its mirror image."""
    out = [w]
    other = lambda c: next((s for s in syms if s != c), c)
    if w:
        m = len(w) // 2
        out += [w[:-1], w[1:], w + w[-1], w[:m] + other(w[m]) + w[m + 1:], w[:m] + w[m + 1:], w[::-1]]
    else:
        out += [syms[0]] if syms else []
    seen, res = set(), []
    for x in out:
        if x not in seen:
            seen.add(x)
            res.append(x)
    return res


def probe_words(case: dict) -> List[str]:
    syms = sorted(set().union(*[set(lang_of(l).syms) for l in leaves(case["expr"])]))
    seen, res = set(), []
    for r in case["probes"]:
        for x in perturbations(word(r), syms):
            if x not in seen:
                seen.add(x)
                res.append(x)
    return res


# ---------------------------------------------------------------------- running a case on the real code
class _Limit(BaseException):
    """Raised by the watchdog inside the case (a BaseException: library code that catches Exception lets it through)."""


def limited(fn, seconds: float = CASE_LIMIT_S):
    """fn() under a watchdog: ("ok", value) | ("err", "NoAnswerWithinTimeLimit")."""
    import signal
    import threading
    import time
    if threading.current_thread() is not threading.main_thread():
        return ("ok", fn())
    outer = signal.getitimer(signal.ITIMER_REAL)[0]
    if 0 < outer <= seconds:
        return ("ok", fn())

    def on_alarm(signum, frame):
        raise _Limit()
    old = signal.signal(signal.SIGALRM, on_alarm)
    signal.setitimer(signal.ITIMER_REAL, seconds)
    t0 = time.time()
    try:
        return ("ok", fn())
    except _Limit:
        return ("err", "NoAnswerWithinTimeLimit")
    finally:
        signal.setitimer(signal.ITIMER_REAL, 0)
        signal.signal(signal.SIGALRM, old)
        if outer:
            signal.setitimer(signal.ITIMER_REAL, max(0.05, outer - (time.time() - t0)))


def apply_real(op: str, A: NFA, B):
    if op in OPERATORS:
        return OPERATORS[op](A, B)
    if op in UNARY:
        return getattr(A, op)()
    return getattr(A, op)(B)


class Failure(Exception):
    pass


def _eval(t, info: dict):
    if isinstance(t, dict):
        try:
            n = build(t)
        except Exception as e:  # noqa: BLE001 — the operand is valid by construction: its constructor must accept it
            raise Failure(f"the constructor raised {type(e).__name__} on the valid operand {show_operand(t)}") from None
        info["operand_states"].append(len(n.states))
        return n
    X = _eval(t[1], info)
    Y = (X if t[2] == "same" else _eval(t[2], info)) if len(t) > 2 else None
    try:
        R = apply_real(t[0], X, Y)
    except Exception as e:  # noqa: BLE001 — every exception class is an observable (RecursionError too)
        raise Failure(f"{t[0]} raised {type(e).__name__} on valid operand(s) with {len(X.states)}"
                      + (f" and {len(Y.states)}" if Y is not None else "") + " states") from None
    if not isinstance(R, NFA):
        raise Failure(f"{t[0]} returned {type(R).__name__}, not an NFA")
    try:
        R.validate()
    except Exception as e:  # noqa: BLE001
        raise Failure(f"{t[0]} returned an NFA that fails validate(): {type(e).__name__}") from None
    want = set(X.input_symbols) | (set(Y.input_symbols) if Y is not None else set())
    if set(R.input_symbols) != want:
        raise Failure(f"{t[0]}: result alphabet {sorted(R.input_symbols)} is not the union of the operand alphabets {sorted(want)}")
    info["result_states"].append(len(R.states))
    return R


def run_case(case: dict, seconds: float = CASE_LIMIT_S):
    """Build the operands afresh, evaluate the tree with the real operations, read the probe words with the real
    reader of the result and compare with the closed form.  Returns (failure text or None, info)."""
    info = dict(operand_states=[], result_states=[], probes=0, accepted=0, rejected=0, deepest=0)
    lang = lang_of(case["expr"])
    words = probe_words(case)

    def body():
        try:
            R = _eval(case["expr"], info)
        except Failure as f:
            return str(f)
        for w in words:
            exp = lang.member(w)
            try:
                got = R.accepts_input(w)
            except Exception as e:  # noqa: BLE001
                return f"the result cannot be read: accepts_input({short(w)}) raised {type(e).__name__}"
            info["probes"] += 1
            info["accepted" if exp else "rejected"] += 1
            info["deepest"] = max(info["deepest"], len(w))
            if got != exp:
                return (f"the result {'accepts' if got else 'rejects'} {short(w)} but the textbook operation "
                        f"{'contains' if exp else 'does not contain'} it (closed form from the construction parameters)")
        return None
    r = limited(body, seconds)
    if r[0] == "err":
        return f"no answer within {seconds:g} s (the unchanged library needs < 0.5 s)", info
    return r[1], info


# ---------------------------------------------------------------------- self-test of the closed forms (pure Python)
def selftest() -> int:
    """Every combinator against a brute-force set computation over Σ^≤6 on small leaves.  Returns the number of
    word comparisons; raises AssertionError."""
    syms = "ab"
    U = ["".join(t) for k in range(0, 7) for t in itertools.product(syms + "c", repeat=k) if "c" not in t or (k <= 5 and t.count("c") <= 2)]
    leaves_ = [Prefixes("aba", [3], "ab"), Prefixes("abb", range(4), "ab"), Prefixes("aa", [0, 1, 2], "a"), Ring("ab"),
               Finite(["b", "ab"], "ab"), Finite([], "ab"), Finite([""], "ab"), All("ab"), Prefixes("ab", [1, 2], "ab")]
    cc = Prefixes("cc", [1, 2], "c")

    def setof(L):
        return {w for w in U if L.member(w)}
    n = 0

    def same(L, S, what, top=4):
        nonlocal n
        for w in U:
            if len(w) <= top:
                assert L.member(w) == (w in S), (what, w, L.member(w))
                n += 1
    for a in leaves_:
        A = setof(a)
        same(Option(a), A | {""}, "option")
        same(Reverse(a), {w[::-1] for w in A}, "reverse")
        try:
            st = Star(a)
        except NotImplementedError:
            st = None
        if st is not None:
            S = {""}
            for _ in range(6):
                S |= {x + y for x in S for y in A if len(x + y) <= 6}
            same(st, S, "star")
        same(Shuffle(a, cc), {w for w in U if w.count("c") in (1, 2) and w.replace("c", "") in A}, "shuffle")
        for b in leaves_:
            B = setof(b)
            same(Union(a, b), A | B, "union")
            same(Inter(a, b), A & B, "intersection")
            same(Concat(a, b), {x + y for x in A for y in B}, "concatenate")
            if isinstance(b, All) or b.words() is not None:
                if isinstance(b, All) and not (a.syms <= b.syms):
                    continue
                Bw = [w for w in U if b.member(w)]
                same(RightQuot(a, b), {w for w in U if any(w + x in A for x in Bw)}, "right_quotient", 3)
                same(LeftQuot(a, b), {w for w in U if any(x + w in A for x in Bw)}, "left_quotient", 3)
    return n
