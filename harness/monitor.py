"""Tracked containers for the monitored part of C18: dict / set / list subclasses that log
every mutating call (and whether it changed the content).  Passed to the constructors under
allow_mutable_automata=True, they are stored as they are, so any write an operation makes
to an operand's tables is observed at the moment it happens.
"""
from __future__ import annotations

from typing import Any, List, Tuple


class Log:
    def __init__(self):
        self.events: List[Tuple[str, str, bool]] = []  # (path, method, changed)

    def add(self, path: str, method: str, changed: bool):
        self.events.append((path, method, changed))

    def changes(self):
        return [e for e in self.events if e[2]]

    def clear(self):
        self.events.clear()


def _wrap(base, name):
    orig = getattr(base, name)

    def method(self, *a, **k):
        before = base(self) if base is not list else list(self)
        try:
            return orig(self, *a, **k)
        finally:
            after = base(self) if base is not list else list(self)
            log = getattr(self, "_log", None)
            if log is not None:
                log.add(getattr(self, "_path", "?"), name, before != after)
    method.__name__ = name
    return method


class TDict(dict):
    pass


class TSet(set):
    pass


class TList(list):
    pass


for _n in ("__setitem__", "__delitem__", "clear", "pop", "popitem", "setdefault", "update", "__ior__"):
    setattr(TDict, _n, _wrap(dict, _n))
for _n in ("add", "discard", "remove", "pop", "clear", "update", "intersection_update", "difference_update",
           "symmetric_difference_update", "__ior__", "__iand__", "__isub__", "__ixor__"):
    setattr(TSet, _n, _wrap(set, _n))
for _n in ("append", "extend", "insert", "remove", "pop", "clear", "sort", "reverse", "__setitem__", "__delitem__",
           "__iadd__", "__imul__"):
    setattr(TList, _n, _wrap(list, _n))


def track(x: Any, log: Log, path: str = "") -> Any:
    """Deep copy of a definition's containers into tracked ones.  Tuples are rebuilt around
    tracked members (a list placed inside a tuple is tracked too); frozensets and atoms are kept:
    they cannot be changed (their elements are hashable)."""
    if isinstance(x, dict):
        d = TDict()
        for k, v in x.items():
            dict.__setitem__(d, k, track(v, log, f"{path}[{k!r}]"))
        d._log, d._path = log, path
        return d
    if isinstance(x, set):
        s = TSet(x)
        s._log, s._path = log, path
        return s
    if isinstance(x, list):
        lst = TList(track(e, log, f"{path}[{i}]") for i, e in enumerate(x))
        lst._log, lst._path = log, path
        return lst
    if type(x) is tuple:
        return tuple(track(e, log, f"{path}[{i}]") for i, e in enumerate(x))
    return x


def track_kwargs(kw, log: Log):
    return {k: track(v, log, k) for k, v in kw.items()}


def mutable_containers(x: Any, path: str = "", seen=None):
    """Paths of every dict (that is not a frozendict) / set / list reachable inside x."""
    from frozendict import frozendict
    out = []
    if isinstance(x, frozendict):
        for k, v in x.items():
            out += mutable_containers(k, f"{path}.key({k!r})") + mutable_containers(v, f"{path}[{k!r}]")
    elif isinstance(x, dict):
        out.append((path, type(x).__name__))
        for k, v in x.items():
            out += mutable_containers(v, f"{path}[{k!r}]")
    elif isinstance(x, (set, list)):
        out.append((path, type(x).__name__))
        for i, v in enumerate(x):
            out += mutable_containers(v, f"{path}[{i}]")
    elif isinstance(x, (frozenset, tuple)):
        for i, v in enumerate(x):
            out += mutable_containers(v, f"{path}[{i}]")
    return out
