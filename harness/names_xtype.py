"""Round-4 name pools: state names that are EQUAL ACROSS TYPES.

Python's numeric tower makes `0 == 0.0 == False == Fraction(0) == Decimal(0) == 0j` (with equal hashes), so in a
set / dict they are ONE key whatever type the caller used.  Code that decides whether a name is taken by looking
at the TYPE of the existing names (`isinstance(s, int)`), by `is`, by `repr`, or by sorting, treats them as
different and hands out a "fresh" name that is already a state.  The properties quantify over hashable state
names, so these pools are ordinary operands.

`xtype_pool(rng, n)`: n distinct names (pairwise unequal), each a natural number k written in one of the types
int / float / bool (k ≤ 1) / Fraction / Decimal / complex; styles: one type throughout (all float, all Fraction,
all Decimal, all complex), the first few naturals in random types, naturals with gaps (so that the first free
natural is 0, lies in the middle, or behind the end), int + one foreign-typed name at the first free slot.
`EVAL_ENV`: what `eval(repr(automaton))` needs for these names.
"""
from __future__ import annotations

import random
from decimal import Decimal
from fractions import Fraction
from typing import Any, List

EVAL_ENV = {"Fraction": Fraction, "Decimal": Decimal}

TYPES = ["int", "float", "bool", "fraction", "decimal", "complex"]


def as_type(k: int, t: str) -> Any:
    if t == "float":
        return float(k)
    if t == "bool" and k <= 1:
        return bool(k)
    if t == "fraction":
        return Fraction(k)
    if t == "decimal":
        return Decimal(k)
    if t == "complex":
        return complex(k, 0)
    return k


STYLES = ["all_float", "all_fraction", "all_decimal", "all_complex", "bool_then_int", "int_then_float", "random_types",
          "random_types_with_gaps", "ints_and_one_foreign_at_first_free"]


def xtype_pool(rng: random.Random, n: int, style: str = None) -> List[Any]:
    style = style or rng.choice(STYLES)
    one = {"all_float": "float", "all_fraction": "fraction", "all_decimal": "decimal", "all_complex": "complex"}
    if style in one:
        out = [as_type(k, one[style]) for k in range(n)]
    elif style == "bool_then_int":
        out = [False, True, 2, 3, 4, 5, 6, 7][:n]
    elif style == "int_then_float":
        cut = rng.randint(0, max(n - 1, 0))
        out = [k if k < cut else float(k) for k in range(n)]
    elif style == "random_types":
        out = [as_type(k, rng.choice(TYPES)) for k in range(n)]
    elif style == "random_types_with_gaps":
        ks = sorted(rng.sample(range(0, n + 3), n))
        out = [as_type(k, rng.choice(TYPES)) for k in ks]
    else:   # ints except that the LAST natural of a gap-free prefix is written in another type
        ks = list(range(n))
        j = rng.randrange(n)
        out = [as_type(k, rng.choice(TYPES[1:]) if k == j else "int") for k in ks]
    rng.shuffle(out)
    return out


def has_cross_type_name(names) -> bool:
    """Some name is equal to an int without being a plain int."""
    for q in names:
        if type(q) is not int:
            try:
                if q == int(q.real if isinstance(q, complex) else q):
                    return True
            except Exception:  # noqa: BLE001
                pass
    return False
