"""Structured generators for DFAs / NFAs (real library objects), all driven by one PRNG.

State names are drawn from the pools the library itself uses internally (negative
ints for traps, 0,1,2… for fresh states, pairs, triples with a Boolean, frozensets,
the empty string) — adversarial for name-collision bugs.
"""
from __future__ import annotations

import itertools
import random
from typing import Any, Dict, Iterable, Iterator, List, Optional, Sequence, Tuple

from automata.fa.dfa import DFA
from automata.fa.nfa import NFA

ALPHABETS = [("a", "b"), ("a",), ("a", "b", "c"), ("0", "1"), ("b", "a", "é"), ("x", "y", "z", "w")]


def name_pool(rng: random.Random, n: int) -> List[Any]:
    """n distinct hashable state names of one of several styles."""
    style = rng.randrange(9)
    if style == 0:
        return list(range(n))
    if style == 1:
        return [f"q{i}" for i in range(n)]
    if style == 2:  # the library's own trap / fresh ids
        pool = [-1, -2, 0, 1, 2, -3, 3, 4, 5, 6, 7, 8]
        rng.shuffle(pool)
        return pool[:n]
    if style == 3:
        pool = [(i, j) for i in range(-1, 3) for j in range(-1, 3)]
        rng.shuffle(pool)
        return pool[:n]
    if style == 4:
        pool = [frozenset(c) for k in range(0, 4) for c in itertools.combinations(range(-1, 3), k)]
        rng.shuffle(pool)
        return pool[:n]
    if style == 5:
        pool = ["", "a", "b", "ab", "0", "1", "-1", "q", "aa", "ba", "bb", "abc"]
        rng.shuffle(pool)
        return pool[:n]
    if style == 6:
        pool = [(i, j, b) for i in range(0, 3) for j in range(0, 2) for b in (False, True)]
        rng.shuffle(pool)
        return pool[:n]
    if style == 7:  # mixed types (ints, strs, tuples) — no int/bool/float collisions
        pool = [0, "0", (0,), -1, "a", (0, 1), frozenset({0}), 2, "", (-1, -1), 7, "q7"]
        rng.shuffle(pool)
        return pool[:n]
    pool = list(range(-n, n + 2))
    rng.shuffle(pool)
    return pool[:n]


def rand_dfa(rng: random.Random, max_states: int = 6, alphabet: Optional[Sequence[str]] = None,
             partial: Optional[bool] = None, names: Optional[List[Any]] = None,
             min_states: int = 1, junk_rows: Optional[bool] = None) -> DFA:
    """Shaped random valid DFA: unreachable states, dead states entered explicitly,
    non-final / dead initial state, empty / universal languages, duplicated states."""
    n = rng.randint(min_states, max_states)
    sy = list(alphabet if alphabet is not None else rng.choice(ALPHABETS))
    names = names or name_pool(rng, n)
    names = names[:n]
    n = len(names)
    if partial is None:
        partial = rng.random() < 0.5
    shape = rng.random()
    miss = rng.choice([0.0, 0.15, 0.4, 0.7]) if partial else 0.0
    trans: Dict[Any, Dict[str, Any]] = {}
    # a few "sink-like" targets make dead states and explicit transitions into them likely
    hot = [rng.choice(names) for _ in range(2)]
    for q in names:
        row = {}
        for a in sy:
            if rng.random() < miss:
                continue
            row[a] = rng.choice(hot) if rng.random() < 0.3 else rng.choice(names)
        trans[q] = row
    if shape < 0.08:
        finals = set()
    elif shape < 0.16:
        finals = set(names)
    else:
        p = rng.choice([0.2, 0.5, 0.8])
        finals = {q for q in names if rng.random() < p}
    if shape > 0.9 and n >= 2:
        # duplicate a state (equivalent states)
        a_, b_ = rng.sample(names, 2)
        trans[b_] = dict(trans[a_])
        if a_ in finals:
            finals.add(b_)
        else:
            finals.discard(b_)
    # rows in shuffled insertion order; row entries in shuffled order
    keys = list(names)
    rng.shuffle(keys)
    trans2 = {}
    for k in keys:
        items = list(trans[k].items())
        rng.shuffle(items)
        trans2[k] = dict(items)
    st = list(names)
    rng.shuffle(st)
    if junk_rows is None:
        junk_rows = rng.random() < 0.06
    if junk_rows:
        # rows keyed by names that are not states pass validation (never reachable); the names the
        # library itself would invent (-1, -2, 0, 1, …) are the adversarial ones
        for k in [x for x in (-1, -2, 0, 1, len(names), "junk") if x not in names][: rng.randint(1, 2)]:
            trans2[k] = {a: rng.choice(names) for a in sy if partial is False or rng.random() < 0.7}
            if not partial:
                trans2[k] = {a: rng.choice(names) for a in sy}
    return DFA(states=set(st), input_symbols=set(sy), transitions=trans2,
               initial_state=rng.choice(names), final_states=finals, allow_partial=partial)


def all_dfas(n_states: int, alphabet: Sequence[str], partial: bool = True) -> Iterator[DFA]:
    """Every DFA with exactly n_states states 0..n-1 (initial state 0) over `alphabet`:
    every transition is missing (if partial) or goes to any state; every final set."""
    states = list(range(n_states))
    targets: List[Optional[int]] = ([None] if partial else []) + states
    cells = [(q, a) for q in states for a in alphabet]
    for choice in itertools.product(targets, repeat=len(cells)):
        trans: Dict[int, Dict[str, int]] = {q: {} for q in states}
        is_partial = False
        for (q, a), t in zip(cells, choice):
            if t is None:
                is_partial = True
            else:
                trans[q][a] = t
        for k in range(2 ** n_states):
            finals = {q for q in states if (k >> q) & 1}
            yield DFA(states=set(states), input_symbols=set(alphabet), transitions=trans,
                      initial_state=0, final_states=finals, allow_partial=is_partial)
            if not is_partial and partial:
                # the same complete table declared with allow_partial=True
                yield DFA(states=set(states), input_symbols=set(alphabet), transitions=trans,
                          initial_state=0, final_states=finals, allow_partial=True)


def rand_nfa(rng: random.Random, max_states: int = 5, alphabet: Optional[Sequence[str]] = None,
             names: Optional[List[Any]] = None, eps: Optional[float] = None, min_states: int = 1) -> NFA:
    """Shaped random valid NFA: ε-cycles, states without rows, empty target sets,
    unreachable parts, parallel ε-paths."""
    n = rng.randint(min_states, max_states)
    sy = list(alphabet if alphabet is not None else rng.choice(ALPHABETS))
    names = (names or name_pool(rng, n))[:n]
    n = len(names)
    if eps is None:
        eps = rng.choice([0.0, 0.15, 0.35, 0.6])
    dens = rng.choice([0.15, 0.3, 0.5])
    trans: Dict[Any, Dict[str, set]] = {}
    init = rng.choice(names)
    for q in names:
        if q != init and rng.random() < 0.15:
            continue  # state without a row
        row: Dict[str, set] = {}
        for a in sy:
            if rng.random() < 0.7:
                ts = {t for t in names if rng.random() < dens}
                if ts or rng.random() < 0.2:
                    row[a] = ts  # possibly the empty set
        if rng.random() < eps:
            ts = {t for t in names if rng.random() < 0.35}
            if ts or rng.random() < 0.2:
                row[""] = ts
        items = list(row.items())
        rng.shuffle(items)
        trans[q] = dict(items)
    if init not in trans:
        trans[init] = {}
    shape = rng.random()
    if shape < 0.08:
        finals = set()
    elif shape < 0.14:
        finals = set(names)
    else:
        p = rng.choice([0.2, 0.4, 0.7])
        finals = {q for q in names if rng.random() < p}
    keys = list(trans)
    rng.shuffle(keys)
    st = list(names)
    rng.shuffle(st)
    return NFA(states=set(st), input_symbols=set(sy), transitions={k: trans[k] for k in keys},
               initial_state=init, final_states=finals)


def all_nfas(n_states: int, alphabet: Sequence[str], with_eps: bool = True) -> Iterator[NFA]:
    """Every NFA with states 0..n-1, initial state 0, over `alphabet` (+ ε): each
    (state, symbol) cell is absent or any subset of the states (the empty set included
    only for the first symbol to keep the space small); every final set."""
    states = list(range(n_states))
    symbols = list(alphabet) + ([""] if with_eps else [])
    subsets = [set(c) for k in range(0, n_states + 1) for c in itertools.combinations(states, k)]
    cells = [(q, a) for q in states for a in symbols]
    options: List[List[Optional[set]]] = []
    for (q, a) in cells:
        opts: List[Optional[set]] = [None] + [s for s in subsets if s or a == symbols[0]]
        options.append(opts)
    for choice in itertools.product(*options):
        trans: Dict[int, Dict[str, set]] = {q: {} for q in states}
        for (q, a), t in zip(cells, choice):
            if t is not None:
                trans[q][a] = t
        for k in range(2 ** n_states):
            finals = {q for q in states if (k >> q) & 1}
            yield NFA(states=set(states), input_symbols=set(alphabet), transitions=trans,
                      initial_state=0, final_states=finals)


def words_upto(alphabet: Sequence[str], max_len: int) -> Iterator[str]:
    for k in range(max_len + 1):
        for t in itertools.product(alphabet, repeat=k):
            yield "".join(t)


def rand_word(rng: random.Random, alphabet: Sequence[str], max_len: int = 8,
              foreign: Optional[str] = None, p_foreign: float = 0.1) -> str:
    k = rng.randint(0, max_len)
    w = [rng.choice(alphabet) for _ in range(k)] if alphabet else []
    if foreign is not None and w and rng.random() < p_foreign:
        w[rng.randrange(len(w))] = foreign
    return "".join(w)


def foreign_symbol(alphabet: Iterable[str]) -> str:
    for c in "#z@Q":
        if c not in alphabet:
            return c
    return "☃"
